"""Plain pytest replays of the defects found by the checks and repaired in /repo (DESIGN.md section 7).
They need no explorer: run with   PYTHONPATH=<tree under test> /venv/bin/python -m pytest /verif/tests -q
Each test fails on the tree before the corresponding `fix:` commit and passes after it."""
import contextlib, io, os
import numpy as np
import pytest


def test_F1_A_centring():
    from ImageD11 import unitcell
    uc = unitcell.unitcell([4, 4, 4, 90, 90, 90], "A")
    hk = {tuple(p[1]) for p in uc.gethkls(0.8)}
    assert (0, 1, 1) in hk and (1, 0, 0) in hk and (0, 1, 0) not in hk


def test_F2_gethkls_oblique():
    from ImageD11 import unitcell
    hk = {tuple(p[1]) for p in unitcell.unitcell([5, 5, 5, 60, 60, 60], "P").gethkls(0.8)}
    assert (3, 3, 1) in hk and (3, 3, 2) in hk and (3, 3, 3) in hk
    hk = {tuple(p[1]) for p in unitcell.unitcell([3, 4, 5, 70, 80, 110], "P").gethkls(0.8)}
    assert (1, 2, 1) in hk


def test_F3_filter_pairs_last_pair():
    from ImageD11 import unitcell
    uc = unitcell.unitcell([4.1, 5.2, 6.3, 80, 95, 105], "P")
    uc.makerings(0.3, 1e-4)
    c, s = np.cos(0.4), np.sin(0.4)
    U = np.array([[c, -s, 0], [s, c, 0], [0, 0, 1.0]])
    UB = U.dot(uc.B)
    g1, g2 = UB.dot([0, 0, 1]), UB.dot([0, -1, 0])
    r1 = [i for i, d in enumerate(uc.ringds) if abs(d - np.linalg.norm(g1)) < 1e-6][0]
    r2 = [i for i, d in enumerate(uc.ringds) if abs(d - np.linalg.norm(g2)) < 1e-6][0]
    uc.orient(r1, g1, r2, g2, crange=1e-6)
    ubi = np.linalg.inv(UB)
    assert any(np.abs(u.dot(UB) - np.round(u.dot(UB))).max() < 1e-6 for u in uc.UBIlist)


def test_F4_refine_assigned_singular_leaves_matrix():
    from ImageD11 import cImageD11
    ubi = np.eye(3) * 4.0
    gv = np.array([[0.25, 0, 0], [0, 0.25, 0], [0.5, 0.25, 0], [0.25, 0.25, 0.25]])
    for _ in range(20):
        u = ubi.copy()
        cImageD11.refine_assigned(u, gv, np.array([3, 3, 3, 0], np.int32), 3)      # coplanar selection
        assert np.array_equal(u, ubi)
        u = ubi.copy()
        cImageD11.refine_assigned(u, gv, np.array([3, 3, 0, 3], np.int32), 3)
        assert np.isfinite(u).all() and np.allclose(u, ubi)


def test_F6_sparse_sort():
    from ImageD11 import sparseframe
    f = sparseframe.sparse_frame(np.array([1, 0], np.uint16), np.array([0, 1], np.uint16), (2, 2), pixels={"v": np.array([5., 7.])})
    f.sort()
    assert f.row.tolist() == [0, 1] and f.pixels["v"].tolist() == [7., 5.]


def test_F7_F8_F14_columnfile():
    from ImageD11 import columnfile
    c = columnfile.colfile_from_dict({"a": np.arange(3.0), "b": np.arange(3.0) + 10})
    c.a = 9.0
    assert np.ndim(c.a) == 1 and c.a is c.getcolumn("a")
    c.bigarray
    c.a[0] = -1
    assert c.getcolumn("a")[0] == -1
    c.addcolumn(np.ones(3), "new")
    assert c.ncols == 3 and c.copyrows([0, 2]).ncols == 3


def test_F9_trigonal_preserves_hexagonal_metric():
    from ImageD11 import sym_u
    a, cc = 3.0, 5.0
    G = np.array([[a * a, -a * a / 2, 0], [-a * a / 2, a * a, 0], [0, 0, cc * cc]])
    for o in sym_u.trigonal().group:
        assert np.allclose(o.dot(G).dot(o.T), G)


def test_F10_sparse_hdf_metadata(tmp_path):
    import h5py
    from ImageD11 import sparseframe
    fr = sparseframe.from_data_mask(np.array([[1, 0], [0, 1]], np.int8), np.array([[3., 0], [0, 4.]], np.float32), {"threshold": 1})
    with h5py.File(tmp_path / "s.h5", "w") as h:
        fr.to_hdf_group(h.create_group("f"))
        back = sparseframe.from_hdf_group(h["f"])
    assert back.meta["intensity"]["threshold"] == 1


def test_F11_overlaps_disjoint():
    from ImageD11 import sparseframe as sf
    a = sf.sparse_frame([0], [0], (4, 4), pixels={"l": np.array([1], np.int32)}); a.meta["l"] = {"nlabel": 1}
    b = sf.sparse_frame([1], [1], (4, 4), pixels={"l": np.array([1], np.int32)}); b.meta["l"] = {"nlabel": 1}
    assert sf.overlaps(a, "l", b, "l").nnz == 0


def test_F12_grain_file_types(tmp_path):
    from ImageD11 import grain
    g = grain.grain(np.eye(3) * 4); g.name = "0:abc.flt"; g.npks = 17; g.nuniq = 5
    grain.write_grain_file(str(tmp_path / "g.map"), [g])
    r = grain.read_grain_file(str(tmp_path / "g.map"))[0]
    assert r.name == "0:abc.flt" and r.npks == 17 and r.nuniq == 5


def test_F13_ubitoB_hexagonal():
    from ImageD11 import indexing, grain, unitcell
    ubi = np.linalg.inv(unitcell.unitcell([3, 3, 5, 90, 90, 120]).B)
    assert np.allclose(indexing.ubitoB(ubi), grain.grain(ubi).B)


def test_F15_refine_rank_deficient():
    from ImageD11 import indexing
    indexing.loglevel = 4
    ubi = np.eye(3) * 4.0
    gv = np.array([[-0.25, 0.5, 0.25], [1.25, -0.75, 1.0], [1.25, -0.75, 1.0]])
    assert np.allclose(indexing.refine(ubi.copy(), gv, 0.5), ubi)


def test_F16_tensormap_eps_access_order():
    from ImageD11 import unitcell
    from ImageD11.sinograms import tensor_map as tm
    import contextlib
    cell = [3.0, 3.0, 5.0, 90, 90, 120]
    B0 = unitcell.unitcell(cell).B
    c, s = np.cos(0.7), np.sin(0.7)
    R = np.array([[c, -s, 0], [s, c, 0], [0, 0, 1.0]])
    S = np.diag([1.1, 1.0, 1.0])
    ubi = np.linalg.inv(B0).dot(R.dot(S).T).reshape(1, 1, 1, 3, 3)
    ph = {0: unitcell.unitcell(cell, "P")}
    with contextlib.redirect_stdout(io.StringIO()):
        direct = tm.TensorMap(maps={"UBI": ubi.copy(), "phase_ids": np.zeros((1, 1, 1), int)}, phases=ph).eps_sample
        T = tm.TensorMap(maps={"UBI": ubi.copy(), "phase_ids": np.zeros((1, 1, 1), int)}, phases=ph)
        T.eps_crystal
        rotated = T.eps_sample
    assert np.abs(direct - rotated).max() < 0.06


def test_F17_iradon_roi_equals_full():
    from ImageD11.sinograms import roi_iradon as R
    ny = 41
    om = np.arange(0.0, 180.0, 1.0)
    sino = (np.add.outer(np.arange(ny), np.arange(len(om))) % 7 == 0).astype(np.float32)
    full = R.run_iradon(sino, om, pad=7, shift=-2.0, workers=1)
    m = np.zeros(full.shape, bool); m[7] = True
    roi = R.run_iradon(sino, om, pad=7, shift=-2.0, workers=1, mask=m)
    assert np.abs(roi[m] - full[m]).max() < 1e-5 * np.abs(full).max()


def test_F18_tensormap_strain_follows_new_ubi():
    from ImageD11 import unitcell
    from ImageD11.sinograms import tensor_map as tm
    import contextlib
    cell = [4., 4., 4., 90, 90, 90]
    B0 = unitcell.unitcell(cell).B
    a = np.linalg.inv(B0).reshape(1, 1, 1, 3, 3)
    b = (np.linalg.inv(B0) @ np.diag([1.1, 1, 1])).reshape(1, 1, 1, 3, 3)
    T = tm.TensorMap(maps={"UBI": a.copy(), "phase_ids": np.zeros((1, 1, 1), int)}, phases={0: unitcell.unitcell(cell, "P")})
    with contextlib.redirect_stdout(io.StringIO()):
        T.eps_sample
        T.UBI = b.copy()
        e = T.eps_sample
    assert abs(e[0, 0, 0, 0, 0] - 0.1) < 1e-9


def test_F19_peaks_table_for_a_scan_without_overlaps(tmp_path):
    import h5py
    from ImageD11.sinograms import properties as PR
    fn = str(tmp_path / "s.h5")
    frames = [([1], [1]), ([], []), ([0, 0, 2, 2], [0, 2, 0, 2])]          # nothing overlaps between frames
    with h5py.File(fn, "w") as h:
        g = h.create_group("1.1")
        g.attrs["nframes"] = 3; g.attrs["shape0"] = 4; g.attrs["shape1"] = 4
        g["row"] = np.array(sum((f[0] for f in frames), []), np.uint16)
        g["col"] = np.array(sum((f[1] for f in frames), []), np.uint16)
        g["intensity"] = np.arange(10, 60, 10).astype(np.float32)
        g["nnz"] = np.array([len(f[0]) for f in frames], np.int32)

    class DS:
        scans = ["1.1"]
        omega = np.array([[10.0, 20.0, 30.0]])
        dty = np.zeros((1, 3))
    with contextlib.redirect_stdout(io.StringIO()):
        pk = PR.pks_table_from_scan(fn, DS, 0)
        merged = pk.pk2dmerge(DS.omega, DS.dty)
    assert sorted(merged["Number_of_pixels"].tolist()) == [1.0] * 5
    assert sorted(merged["sum_intensity"].tolist()) == [10.0, 20.0, 30.0, 40.0, 50.0]


def test_F20_column_assigned_from_another_column_is_its_own_data():
    from ImageD11 import columnfile as C
    for how in ("attr", "addcolumn", "setcolumn", "addnew"):
        cf = C.colfile_from_dict({"a": np.array([3.0, 1, 2, 0]), "b": np.array([10.0, 11, 12, 13]), "i": np.arange(4.0)})
        if how == "attr":
            cf.a = cf.b
        elif how == "addcolumn":
            cf.addcolumn(cf.b, "a")
        elif how == "setcolumn":
            cf.setcolumn(cf.b, "a")
        else:
            cf.addcolumn(cf.b, "c")
        cf.reorder(np.array([1, 2, 3, 0]))
        assert cf.i.tolist() == [1, 2, 3, 0]
        assert cf.b.tolist() == [11, 12, 13, 10], how
        other = cf.c if how == "addnew" else cf.a
        assert other.tolist() == [11, 12, 13, 10], how
        cf.b[0] = -1
        assert other[0] == 11


def test_F21_copyrows_with_a_slice_is_a_copy():
    from ImageD11 import columnfile as C
    cf = C.colfile_from_dict({"a": np.arange(6.0), "b": np.arange(6.0) * 10})
    part = cf.copyrows(slice(1, 4))
    assert part.nrows == 3 and part.a.tolist() == [1, 2, 3]
    assert not np.shares_memory(part.a, cf.a) and not np.shares_memory(part.b, cf.b)
    part.a[0] = -7
    assert cf.a[1] == 1


def test_F22_reorder_by_a_column_of_the_table():
    from ImageD11 import columnfile as C
    cf = C.colfile_from_dict({"a": np.array([1, 2, 3, 0]), "b": np.array([10.0, 11, 12, 13]), "i": np.arange(4.0)})
    cf.reorder(cf.a)
    assert cf.a.tolist() == [2, 3, 0, 1]
    assert cf.b.tolist() == [11, 12, 13, 10]
    assert cf.i.tolist() == [1, 2, 3, 0]


def test_F23_sorting_a_frame_whose_pixels_hold_row_and_col():
    # what SparseScan.getframe hands out: pixels = {'row': view of row, 'col': view of col, 'intensity': ...}
    from ImageD11 import sparseframe as sf
    row = np.array([3, 1, 2, 1], np.uint16)
    col = np.array([0, 5, 2, 1], np.uint16)
    inten = np.array([30.0, 15.0, 22.0, 11.0], np.float32)
    f = sf.sparse_frame(row[0:], col[0:], (5, 6), pixels={"row": row[0:], "col": col[0:], "intensity": inten})
    f.sort()
    assert f.row.tolist() == [1, 1, 2, 3] and f.col.tolist() == [1, 5, 2, 0]
    assert f.pixels["intensity"].tolist() == [11.0, 15.0, 22.0, 30.0]
    assert f.pixels["row"].tolist() == [1, 1, 2, 3] and f.pixels["col"].tolist() == [1, 5, 2, 0]
    d = f.to_dense("intensity")
    assert d[3, 0] == 30.0 and d[1, 5] == 15.0 and d[2, 2] == 22.0 and d[1, 1] == 11.0


def test_F24_integer_pixel_positions_are_not_truncated():
    from ImageD11 import transform as tr
    pix = np.array([[100, 200, 1500], [300, 400, 77]])
    kw = dict(y_center=1000.3, y_size=0.0475, tilt_y=0.01, z_center=1050.7, z_size=0.0523, tilt_z=-0.02, tilt_x=0.005, distance=151.2345)
    a = tr.compute_xyz_lab(pix, **kw)
    b = tr.compute_xyz_lab(pix.astype(float), **kw)
    assert np.allclose(a, b, rtol=0, atol=1e-9)
    assert np.abs(a[1:]).max() > 1.0          # not collapsed onto the beam axis
    assert pix.dtype.kind == "i" and pix[0, 0] == 100
