#!/usr/bin/env python3
"""diagnostic: run ONE shard of a property module in the build of the current tree and print its counters
usage: tools/shard.py C06 "('reassign', 0, 3)" """
import sys, os, subprocess
if sys.executable != "/venv/bin/python":
    os.execv("/venv/bin/python", ["/venv/bin/python"] + sys.argv)
sys.path.insert(0, os.path.dirname(os.path.dirname(os.path.abspath(__file__))))
from vt import build
root = build.ensure()
env = build.env_for(root)
code = """
import sys, importlib
m = importlib.import_module('vt.props.' + sys.argv[1].lower())
sh = m.run_shard(eval(sys.argv[2]))
print('evaluations', sh.evaluations, 'nontrivial', sh.nontrivial, 'borderline', sh.borderline, 'states', getattr(sh, 'states', 0), 'outcomes', sorted(map(str, sh.outcomes))[:6])
for v in sh.violations[:5]:
    print('VIOLATION', v.get('key'), str(v.get('case'))[:300], str(v.get('detail'))[:600])
print('violations', len(sh.violations))
"""
sys.exit(subprocess.call([sys.executable if False else "/venv/bin/python", "-c", code, sys.argv[1], sys.argv[2]], env=env))
