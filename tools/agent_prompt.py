#!/usr/bin/env python3
"""print the prompt given to an independent sub-agent asked to break one property (nothing from /verif is shown to it)"""
import json, sys
pid = sys.argv[1]
n = int(sys.argv[2]) if len(sys.argv) > 2 else 2
for l in open('/verif/properties.jsonl'):
    p = json.loads(l)
    if p['id'] == pid:
        break
wt = "/tmp/mut/%s" % pid
out = "/tmp/mutout/%s" % pid
# changes other engineers already produced for this property (so that new ones are different); these come from earlier
# sub-agents, not from the verification machinery
import glob, os
prev = []
for d in sorted(glob.glob("/verif/seeded/%s-*" % pid)):
    diff = os.path.join(d, "patch.diff")
    if os.path.exists(diff):
        files = sorted(set(l[6:].strip() for l in open(diff) if l.startswith("+++ b/")))
        notes = os.path.join(d, "notes.md")
        first = ""
        if os.path.exists(notes):
            txt = [l.strip() for l in open(notes) if l.strip() and not l.startswith("#")]
            first = " ".join(txt[:2])[:300]
        prev.append("  - in %s: %s" % (", ".join(files), first))
start = int(sys.argv[3]) if len(sys.argv) > 3 else 1
avoid = ""
if prev:
    avoid = "\nOther engineers have already produced these changes for this property; yours must be clearly different (other functions, other mechanisms, other triggers):\n" + "\n".join(prev) + "\n"
print(f"""You are a software engineer helping to evaluate a verification tool by seeding realistic bugs.

You work ONLY inside the scratch git worktree {wt} (a checkout of the ImageD11 repository: a Python/C toolkit for 3DXRD data) and write your results to {out}. Never read or write /repo or /verif, do not commit anything, and do not use `git stash` (the stash is shared by all worktrees of the repository).

Environment (no network):
- Python is /venv/bin/python. The package is installed from another directory, so ALWAYS run with `PYTHONPATH={wt}` so that the worktree shadows it, and check once with `PYTHONPATH={wt} /venv/bin/python -c "import ImageD11; print(ImageD11.__file__)"`.
- Build the C extension in the worktree (needed before the first run and after every change to src/*.c): `cd {wt} && /venv/bin/python setup.py -q build_ext --inplace` (a few seconds).
- Test suite: `cd {wt} && PYTHONPATH={wt} /venv/bin/python -m pytest -q -p no:cacheprovider --timeout=900 --continue-on-collection-errors test` takes about 2-3 minutes. On the clean tree 179 tests pass and 15 fail for environmental reasons (test_columnfile_pandas: no pandas; three test_fetch_data tests: no network). Those 15 must be the only failures with your change too.

The property of ImageD11 that the verification tool claims to check:

  {p['id']} - {p['title']}
  {p['statement']}
  Quantified over: {p['quantifier']['text']}
  Code it is anchored in: {', '.join(p['anchors']['files'])}

{avoid}
Your task: produce {n} different, realistic changes to the library source (C and/or Python under src/ or ImageD11/) that each BREAK this property while the code still compiles and the existing test suite still passes exactly as before. Think of the kind of slip a maintainer could plausibly make during a refactoring or optimisation (an off-by-one at a boundary, a reordered pair of statements, a missed case, a cache or scratch buffer that becomes shared, an update applied to all columns but one, ...). Each change must need something SPECIFIC to manifest - a particular thread interleaving, a multi-step sequence of operations, an unusual but legal input (a boundary size, a particular topology), or two cooperating sites that each look fine alone - not something that ordinary use would expose at once. Make the {n} changes as different from one another as you can (different functions / mechanisms). Small diffs are best.

For each change k = {start}..{start + n - 1} deliver in {out}/k/ :
  patch.diff   - `git diff` of the change relative to the clean worktree (apply-able with `git apply`)
  demo.py      - a small self-contained program (run as `PYTHONPATH=<tree> /venv/bin/python demo.py`) that exits 0 on the clean tree and exits non-zero (assertion failure) with the change applied, demonstrating the property violation through the public API. If the failure needs a particular thread schedule and cannot be shown deterministically, make the demo show it as reliably as you can (e.g. many repetitions / many threads) and say so.
  notes.md     - which part of the property it breaks, what exactly is needed for it to manifest, and the commands you ran.
You must verify everything yourself: (1) with the change the extension builds and the full test suite gives the same 179 passes; (2) demo.py fails with the change; (3) after `git checkout -- . ` (and a rebuild if you touched C) demo.py passes. Leave the worktree clean (change reverted, extension rebuilt) when you finish. Report briefly what you produced.""")
