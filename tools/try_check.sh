#!/bin/bash
# usage: try_check.sh <patch.diff> <PROP>   -- run the whole quick check against a scratch worktree of /repo with the patch applied
wt=/tmp/trycheck_$$
git -C /repo worktree add -q --detach $wt HEAD
trap "git -C /repo worktree remove --force $wt; git -C /repo worktree prune" EXIT
git -C $wt apply $1 || exit 3
VT_REPO=$wt VT_EVIDENCE_DIR=/tmp/trycheck_ev VT_REPLAY_DIR=/tmp/trycheck_rp /verif/check $2 --tier quick 2>&1 | grep "tier=\|key:\|ENGINE" | sort | uniq -c | sort -rn | head -8
