#!/usr/bin/env python3
"""Regenerate MANIFEST.json from the table below (single source of truth) and validate it."""
import json, os, subprocess, sys
HERE = os.path.dirname(os.path.dirname(os.path.abspath(__file__)))
sys.path.insert(0, HERE)
from tools.manifest_table import CHECKS, NOT_APPLICABLE, ENGINES, NOTES, ADDENDA

def main():
    checks = []
    for c in CHECKS:
        pid = c["id"]
        checks.append({
            "property_id": pid,
            "quick_cmd": "./check %s --tier quick" % pid,
            "thorough_cmd": "./check %s --tier thorough" % pid,
            "evidence_file": "/verif/evidence/%s.json" % pid,
            "replay_cmd_template": "./check %s --replay {path}" % pid,
            "engine": c["engine"],
            "level_claimed": {"category": c["level"], "text": c["text"] + (" " + ADDENDA[pid] if pid in ADDENDA else ""), "design_ref": c.get("design_ref", "DESIGN.md section 5, " + pid)},
            "level_note": c["note"],
            "technique": c["technique"],
        })
    props = [json.loads(l)["id"] for l in open(os.path.join(HERE, "properties.jsonl"))]
    claimed = {c["property_id"] for c in checks}
    na = [n for n in NOT_APPLICABLE if n["property_id"] not in claimed]
    missing = [p for p in props if p not in claimed and p not in {n["property_id"] for n in na}]
    assert not missing, missing
    m = {
        "version": 1,
        "setup_cmd": "/venv/bin/python -m vt.setup",
        "hooks": {
            "guard": "IMAGED11_VERIF",
            "enable": "no source hooks exist: scheduling points come from gcc -fsanitize=thread instrumentation of the unmodified sources linked against vt/c/vrt.c, from an AST transformation of the unmodified numba sources, and from substitution of executors inside the harness process; the guard name is reserved",
            "baseline_off_cmd": "cd /repo && /venv/bin/python setup.py -q build_ext --inplace && /venv/bin/python -m pytest -ra -q -p no:cacheprovider --timeout=900 --continue-on-collection-errors",
            "source_commits": [],
            "add_only": True,
        },
        "engines": ENGINES,
        "checks": checks,
        "notes": NOTES,
        "not_applicable": na,
    }
    with open(os.path.join(HERE, "MANIFEST.json"), "w") as fh:
        json.dump(m, fh, indent=1)
    code = ("import json,jsonschema;jsonschema.Draft202012Validator(json.load(open('%s/schemas/MANIFEST.schema.json')))"
            ".validate(json.load(open('%s/MANIFEST.json')))" % (HERE, HERE))
    subprocess.check_call(["python3-vt", "-c", code])
    print("MANIFEST.json written: %d checks, %d not_applicable" % (len(checks), len(na)))

if __name__ == "__main__":
    main()
