#!/bin/bash
# usage: seed_batch.sh C11 C12 ...   evaluates /tmp/mutout/<id>/<k> for k=1,2,...
for id in "$@"; do for d in /tmp/mutout/$id/[0-9]*; do k=$(basename $d); [ -f /verif/seeded/$id-$k/meta.json ] && continue; python3 /verif/tools/seed_eval.py $id $d $id-$k > /tmp/mutout/$id/eval_$k.log 2>&1; python3 -c "
import json; m=json.load(open('/verif/seeded/$id-$k/meta.json')); print('$id-$k', 'valid' if m['valid'] else 'INVALID', 'DETECTED' if m.get('detected') else 'MISSED', m.get('check_wall_s'))"; done; done
