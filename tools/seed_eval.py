#!/usr/bin/env python3
"""Evaluate one seeded property-breaking change produced by an independent sub-agent.

usage: seed_eval.py <PID> <dir with patch.diff demo.py notes.md> <name> [--skip-tests] [--tier quick]

1. in a scratch worktree (outside /repo and /verif): apply the patch, build, run the demo (must
   fail), run the repository's test suite (must give the baseline passes), revert, rebuild, run
   the demo (must pass);
2. in /repo: `git apply` the patch, run ./check <PID>, `git checkout -- .` straight afterwards;
3. store everything under /verif/seeded/<name>/ with meta.json.
"""
import json, os, shutil, subprocess, sys, time

PY = "/venv/bin/python"


def sh(cmd, cwd=None, env=None, timeout=3600):
    r = subprocess.run(cmd, cwd=cwd, env=env, shell=isinstance(cmd, str), stdout=subprocess.PIPE,
                       stderr=subprocess.STDOUT, text=True, timeout=timeout)
    return r.returncode, r.stdout


def main():
    pid, src, name = sys.argv[1], sys.argv[2], sys.argv[3]
    skip_tests = "--skip-tests" in sys.argv
    tier = "thorough" if "--thorough" in sys.argv else "quick"
    patch = os.path.join(src, "patch.diff")
    demo = os.path.join(src, "demo.py")
    meta = {"property": pid, "name": name, "source": "independent sub-agent (given only the property text and a scratch worktree)",
            "at": time.strftime("%Y-%m-%d %H:%M:%S")}
    wt = "/tmp/seedeval_%s" % name
    if os.path.exists(wt):
        sh(["git", "-C", "/repo", "worktree", "remove", "--force", wt])
    rc, out = sh(["git", "-C", "/repo", "worktree", "add", "--detach", wt, "HEAD", "-q"])
    assert rc == 0, out
    env = dict(os.environ, PYTHONPATH=wt, OMP_NUM_THREADS="4")
    try:
        rc, out = sh(["git", "apply", patch], cwd=wt)
        meta["patch_applies"] = rc == 0
        if rc != 0:
            meta["apply_error"] = out[-500:]
            print("PATCH DOES NOT APPLY", out)
        else:
            rc, out = sh([PY, "setup.py", "-q", "build_ext", "--inplace"], cwd=wt, env=env)
            meta["builds"] = rc == 0
            rc, out = sh([PY, demo], cwd=wt, env=env, timeout=1200)
            meta["demo_with_change_exit"] = rc
            meta["demo_with_change_tail"] = out[-600:]
            if not skip_tests:
                rc, out = sh([PY, "-m", "pytest", "-q", "-p", "no:cacheprovider", "--timeout=900", "-x" if False else "-q",
                              "--continue-on-collection-errors", "test"], cwd=wt, env=env, timeout=3600)
                tail = [l for l in out.splitlines() if " passed" in l or " failed" in l][-1:]
                meta["tests_with_change"] = tail[0] if tail else out[-300:]
                failed = sorted(l.split()[1] for l in out.splitlines() if l.startswith("FAILED") or l.startswith("ERROR"))
                meta["tests_failed_with_change"] = [f for f in failed if "pandas" not in f and "fetch_data" not in f]
            sh(["git", "checkout", "--", "."], cwd=wt)
            sh([PY, "setup.py", "-q", "build_ext", "--inplace"], cwd=wt, env=env)
            rc, out = sh([PY, demo], cwd=wt, env=env, timeout=1200)
            meta["demo_clean_exit"] = rc
            # --- our check against the change (the patched worktree is used as the repository to verify;
            #     equivalent to `git -C /repo apply`, but does not disturb /repo while other work goes on)
            if "--in-repo" not in sys.argv:
                rc, out = sh(["git", "apply", patch], cwd=wt)
                assert rc == 0, out
                cenv = dict(os.environ, VT_REPO=wt, VT_EVIDENCE_DIR="/tmp/seedeval_ev_%s" % name,
                            VT_REPLAY_DIR="/tmp/seedeval_rp_%s" % name)
                t0 = time.time()
                rc, out = sh(["./check", pid, "--tier", tier], cwd="/verif", env=cenv, timeout=7200)
                meta["check_exit"] = rc
                meta["check_wall_s"] = round(time.time() - t0, 1)
                vio = [l for l in out.splitlines() if l.startswith("VIOLATION") or l.startswith("  key:")]
                meta["check_output"] = vio[:12] + out.splitlines()[-2:]
                meta["detected"] = rc == 1 and any(l.startswith("VIOLATION") for l in out.splitlines())
                meta["check_tier"] = tier
                meta["check_mode"] = "VT_REPO=<patched scratch worktree>"
                shutil.rmtree("/tmp/seedeval_ev_%s" % name, ignore_errors=True)
                shutil.rmtree("/tmp/seedeval_rp_%s" % name, ignore_errors=True)
    finally:
        sh(["git", "-C", "/repo", "worktree", "remove", "--force", wt])
        shutil.rmtree(wt, ignore_errors=True)
    if meta.get("patch_applies") and "--in-repo" in sys.argv:
        rc, out = sh(["git", "-C", "/repo", "status", "--porcelain", "--untracked-files=no"])
        assert out.strip() == "", "/repo has uncommitted changes:\n" + out
        try:
            rc, out = sh(["git", "-C", "/repo", "apply", patch])
            assert rc == 0, out
            t0 = time.time()
            rc, out = sh(["./check", pid, "--tier", tier], cwd="/verif", timeout=7200)
            meta["check_exit"] = rc
            meta["check_wall_s"] = round(time.time() - t0, 1)
            vio = [l for l in out.splitlines() if l.startswith("VIOLATION") or l.startswith("  key:")]
            meta["check_output"] = vio[:12] + out.splitlines()[-2:]
            meta["detected"] = rc == 1 and any(l.startswith("VIOLATION") for l in out.splitlines())
            meta["check_tier"] = tier
            meta["check_mode"] = "git -C /repo apply"
        finally:
            sh(["git", "-C", "/repo", "checkout", "--", "."])
    dst = os.path.join("/verif/seeded", name)
    os.makedirs(dst, exist_ok=True)
    for f in ("patch.diff", "demo.py", "notes.md"):
        if os.path.exists(os.path.join(src, f)):
            shutil.copy(os.path.join(src, f), dst)
    meta["valid"] = bool(meta.get("patch_applies") and meta.get("demo_with_change_exit", 0) != 0 and meta.get("demo_clean_exit", 1) == 0
                         and (skip_tests or not meta.get("tests_failed_with_change")))
    with open(os.path.join(dst, "meta.json"), "w") as fh:
        json.dump(meta, fh, indent=1)
    print(json.dumps(meta, indent=1))


if __name__ == "__main__":
    main()
