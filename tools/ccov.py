#!/venv/bin/python
"""diagnostic (not a registered check): line coverage of the C sources under the quick tier of some checks.
usage: tools/ccov.py C11 C12 ...   Builds a gcov-instrumented copy of the f2py extension in a scratch directory outside /verif
(the overlay tree of the current build is copied, only the extension is replaced), runs `./check <ID>` for each id with that tree
first on PYTHONPATH (VT_TREE), then prints per source file the functions / line ranges never executed.  Kernels reached through
ctypes (sanitizer and schedule-exploration builds) are not counted."""
import sys, os, subprocess, shutil, sysconfig, glob, re
sys.path.insert(0, "/verif")
from vt import build
ids = [a.upper() for a in sys.argv[1:]]
root = build.ensure()
scratch = "/tmp/ccov"
shutil.rmtree(scratch, ignore_errors=True)
os.makedirs(scratch + "/build")
shutil.copytree(os.path.join(root, "tree"), scratch + "/tree")
import numpy, numpy.f2py
bdir = scratch + "/build"
shutil.copy(os.path.join(build.REPO, "src", "_cImageD11.pyf"), bdir)
subprocess.check_call([build.PY, "-m", "numpy.f2py", "_cImageD11.pyf"], cwd=bdir, stdout=subprocess.DEVNULL)
f2pyinc = os.path.join(os.path.dirname(numpy.f2py.__file__), "src")
inc = ["-I", os.path.join(build.REPO, "src"), "-I", numpy.get_include(), "-I", f2pyinc, "-I", sysconfig.get_paths()["include"]]
objs = []
for s in [os.path.join(bdir, "_cImageD11module.c"), os.path.join(f2pyinc, "fortranobject.c")] + [os.path.join(build.REPO, "src", c) for c in build.CSRC]:
    o = os.path.join(bdir, os.path.basename(s)[:-2] + ".o")
    cov = ["--coverage"] if "/src/" in s and s.startswith(build.REPO) else []
    subprocess.check_call(["gcc", "-fPIC", "-O0", "-g", "-fopenmp", "-fno-strict-aliasing", "-DNDEBUG", "-w"] + cov + inc + ["-c", s, "-o", o])
    objs.append(o)
ext = sysconfig.get_config_var("EXT_SUFFIX")
for old in glob.glob(scratch + "/tree/ImageD11/_cImageD11*.so"):
    os.remove(old)
subprocess.check_call(["gcc", "-shared", "-fopenmp", "--coverage"] + objs + ["-o", scratch + "/tree/ImageD11/_cImageD11" + ext, "-lm"])
env = dict(os.environ, VT_TREE=scratch + "/tree", VT_EVIDENCE_DIR=scratch + "/ev", VT_REPLAY_DIR=scratch + "/rp")
for i in ids:
    r = subprocess.run(["/verif/check", i], env=env, capture_output=True, text=True)
    print((r.stdout.strip().splitlines() or ["?"])[-1])
# gcov
for c in build.CSRC:
    r = subprocess.run(["gcov", "-b", "-o", bdir, os.path.join(build.REPO, "src", c)], cwd=bdir, capture_output=True, text=True)
    g = os.path.join(bdir, c + ".gcov")
    if not os.path.exists(g):
        continue
    miss, total = [], 0
    for line in open(g):
        m = re.match(r"\s*([#=\-0-9\*]+):\s*(\d+):", line)
        if not m or m.group(1) == "-":
            continue
        if m.group(1).startswith(("#", "=")):
            miss.append(int(m.group(2)))
        total += 1
    rng, out = [], []
    for n in miss:
        if rng and n <= rng[-1][1] + 2:
            rng[-1][1] = n
        else:
            rng.append([n, n])
    print("%s: %d of %d lines never executed: %s" % (c, len(miss), total, ", ".join("%d-%d" % (a, b) if a != b else str(a) for a, b in rng)))
