#!/bin/bash
# usage: try_seed.sh <patch.diff> <PROP> "<shard desc>"   -- run one shard against a scratch worktree of /repo with the patch applied
set -e
wt=/tmp/tryseed_$$
git -C /repo worktree add -q --detach $wt HEAD
trap "git -C /repo worktree remove --force $wt; git -C /repo worktree prune" EXIT
git -C $wt apply $1
VT_REPO=$wt /venv/bin/python /verif/tools/shard.py $2 "$3"
