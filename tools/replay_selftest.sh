#!/bin/bash
# For every seeded change: apply it in a scratch worktree, run the property's check (via VT_REPO), replay every violation file
# (must report VIOLATION), revert the change, replay again (must hold).  Usage: tools/replay_selftest.sh [seed-name ...]
cd /verif
WT=/tmp/replay_selftest_wt
names="$@"; [ -z "$names" ] && names=$(ls seeded | grep -v SUMMARY)
for name in $names; do
  pid=$(python3 -c "import json;print(json.load(open('seeded/$name/meta.json'))['property'])")
  git -C /repo worktree remove --force $WT 2>/dev/null; git -C /repo worktree add --detach $WT HEAD -q
  git -C $WT apply /verif/seeded/$name/patch.diff || { echo "$name patch does not apply"; continue; }
  export VT_REPO=$WT VT_EVIDENCE_DIR=/tmp/rs_ev VT_REPLAY_DIR=/tmp/rs_rp; rm -rf /tmp/rs_rp
  ./check $pid > /tmp/rs_out.txt 2>&1
  n=0; bad=0
  for f in /tmp/rs_rp/$pid/*.json; do [ -f "$f" ] || continue; n=$((n+1)); ./check $pid --replay $f 2>&1 | grep -q "^VIOLATION" || { bad=$((bad+1)); echo "  $name: replay of $(basename $f) did NOT reproduce: $(python3 -c "import json;print(json.load(open('$f'))['key'])")"; }; done
  git -C $WT checkout -- .
  held=0
  for f in /tmp/rs_rp/$pid/*.json; do [ -f "$f" ] || continue; ./check $pid --replay $f 2>&1 | grep -q "property holds" && held=$((held+1)); done
  echo "$name ($pid): $n replay files, $((n-bad)) reproduce with the change, $held hold after reverting"
  unset VT_REPO VT_EVIDENCE_DIR VT_REPLAY_DIR
done
git -C /repo worktree remove --force $WT 2>/dev/null; rm -rf /tmp/rs_ev /tmp/rs_rp
