"""Single source of truth for MANIFEST.json (tools/mkmanifest.py renders it)."""
PENDING = "check not built yet (work in progress in this session); no claim is made"

ENGINES = [
    {"name": "E0-build", "path": "vt/build.py", "serves_properties": ["*"],
     "kind_free_text": "rebuilds the f2py extension and five ctypes variants (plain, asan+ubsan, auto-init zero/pattern, tsan-instrumented for vrt) from /repo's working tree into /verif/.cache/<hash>"},
    {"name": "E3-vrt", "path": "vt/vrt.py + vt/c/vrt.c", "serves_properties": ["C13", "C07", "C20"],
     "kind_free_text": "stateless schedule explorer for the OpenMP kernels: gcc -fsanitize=thread instrumentation of the unmodified sources linked against our own GOMP/omp/__tsan runtime (ucontext coroutines on one OS thread), preemption-bounded DFS over choice prefixes, conflict-set fixpoint, region-boundary state hashing"},
    {"name": "E2-history", "path": "vt/props/c17.py (BFS), vt/runner.py", "serves_properties": ["C17", "C12", "C18"],
     "kind_free_text": "explicit-state BFS over operation histories: each transition replays the history on a fresh real object and applies one more real method call; canonical state hashing; invariant + reference model in every state"},
    {"name": "E1-explore", "path": "vt/runner.py", "serves_properties": ["C11", "C13"],
     "kind_free_text": "bounded exhaustive input/configuration enumeration against reference models, sharded over 16 processes, counted evidence, known-findings matching, replay files"},
]

CHECKS = [
    {"id": "C11", "engine": "E1-explore", "level": "exploration",
     "technique": "bounded exhaustive enumeration of all small images (2- and 3-letter pixel alphabets) against a flood-fill reference model",
     "text": "every two-valued image of every shape up to 4x4 (thorough: up to 20 pixels incl. 4x5, 2x10) and every three-valued sparse image up to 3x3/2x4 (thorough 3x4, 2x6) is run through the real dense, sparse, splat kernels and the Python wrappers for both connectivities, two thresholds conventions and two poison fills; plus a stated catalogue of adversarial generators at the boundary sizes (incl. >16384 provisional labels). Exhaustive within those bounds; nothing claimed outside.",
     "note": "trusted: the flood-fill oracle (cross-checked against scipy.ndimage.label on every case), numpy, the f2py wrapper generator; pixel values restricted to the stated alphabets"},
    {"id": "C13", "engine": "E3-vrt", "level": "model_checking",
     "technique": "stateless model checking: all OpenMP thread schedules of the real compiled kernel up to a preemption bound (CHESS-style iterative context bounding with conflict-directed scheduling points and region-boundary state caching), plus bounded exhaustive input enumeration against a steepest-ascent reference",
     "text": "localmaxlabel is compiled from /repo/src with tsan instrumentation and run on our own GOMP/tsan runtime (threads = coroutines). For all 720 orders of a 2x3 interior in a 4x5 frame (two border patterns, two poison fills) every schedule with T=2,3,4 threads and <=1 preemption (T=2: <=2; T=3 <=2 on a quarter of the images in quick, all in thorough; thorough adds T=2 bound 3, T=4 bound 2, 5x4 and 5x5 frames) is executed and compared with the oracle; dynamic-schedule row hand-out is part of the choices. Sequential semantics: all orders of interiors up to 3x3 in frames up to 5x5, all ordered sub-patterns of a 3x3 grid for the sparse kernel, dense/sparse agreement, real libgomp with 1..8 (thorough ..64) threads.",
     "note": "sequentially consistent interleavings of the -O0 loads/stores only; conflict set grown to a fixpoint over explored executions; states = schedule-tree nodes visited, every one executed on the real code (traces_validated = executions)"},
    {"id": "C07", "engine": "E3-vrt", "level": "model_checking",
     "technique": "bounded exhaustive enumeration of ordered grain lists x peak lists x tolerances against an arg-min reference, thread count as configuration, and stateless model checking of all OpenMP schedules of score_and_assign within a preemption bound",
     "text": "all 64 ordered non-empty sub-lists of a 4-grain alphabet (competing, twinned, unrelated) x peak lists of 1..8193 peaks (crossing the 4096 static chunk) x 4 tolerances through score_and_assign and indexer.fight_over_peaks against a numpy arg-min oracle with set-valued ties; 1..4 (thorough ..32) real OpenMP threads bit-identical; the tsan-instrumented kernel on the vrt runtime: every schedule for T=2,3 (thorough 4) within the preemption bound gives the single-thread result; the measured conflict set is empty (only the atomic reduction is shared).",
     "note": "refinegrains.assignlabels is exercised by C09's pipeline, not here; margin guard at tol^2 +- 1e-9 and exact ties accept either answer; SC interleavings of -O0 code"},
    {"id": "C17", "engine": "E2-history", "level": "model_checking",
     "technique": "explicit-state breadth-first exploration of operation histories on the real columnfile object with canonical-state de-duplication, against a reference model (ordered dict of lists)",
     "text": "BFS over all histories of depth <= 4 (thorough 5) over a 25-operation alphabet (addcolumn/setcolumn/item/attribute assignment scalar and array, in-place writes through each view, filter, removerows, sortby, reorder, copy, copyrows, get/set bigarray list and 2-D, chkarray, writefile) from four initial objects (addcolumn-built, text file, dict, HDF); every transition is executed on the implementation; after each one the rectangular/self-consistency invariant, model equality and copy independence are checked.",
     "note": "argument values fixed per operation (fresh arrays, one mask, one permutation); canonical state = titles, values, dtypes, representation kind, alias relation of attribute vs stored column, bigarray bookkeeping"},
    {"id": "C12", "engine": "E1-explore", "level": "exploration",
     "technique": "bounded exhaustive enumeration of all frame histories over all binary images of small shapes, driven through the real labelimage merge path, against a 3-D connected-component reference",
     "text": "every sequence of F<=3 frames over all 64 binary 2x3 images (266 304 histories incl. empty frames), all 512^2 two-frame 3x3 histories, all 16^4 2x2 and 256^2 2x4 histories (thorough: F=4 on 2x3, F=3 on 2x4, F=5 on 2x2, 3x4 pairs) plus a catalogue of 40-frame structured histories; pixel intensities are distinct powers of two so a peak's summed intensity identifies its voxel set; every output row is matched to a 3-D component and all 19 reported properties compared.",
     "note": "level is exploration, not state-based: every history is executed in full on the implementation; oracle = own 3-D flood fill cross-checked with scipy.ndimage.label; text output precision (4 decimals) bounds the comparison tolerances"},
    {"id": "C14", "engine": "E1-explore", "level": "exploration",
     "technique": "bounded exhaustive enumeration of all masks / permutations / ordered pairs of labelled frames against dictionary-count and numpy references",
     "text": "all 4095 non-empty masks over shapes up to 3x4 (thorough 4x4) x {uint16,uint32,float32} x cuts through from_data_mask/from_data_cut/tosparse_*/to_dense; sort()/sort_by() on all permutations of frames with <= 6 (7) pixels carrying two pixel arrays; 65534-wide/-tall shapes; all 255^2 ordered pairs of labelled frames over a 2x2 grid (labels absent,1,2,3; thorough all 4095^2 over 2x3; quick also a 1/64 slice of those) through overlaps_linear, overlaps_matrix, overlaps() and raw sparse_overlaps against a dict count.",
     "note": "empty frames (None in the library) excluded; nlabel fixed at 3"},
    {"id": "C16", "engine": "E1-explore", "level": "exploration",
     "technique": "exhaustive enumeration over group elements, element products, orbit members and an hkl box",
     "text": "for each of the ten named groups: every element (integer, det +1, inverse present, metric of two conventional conforming cells preserved), every ordered pair (closure), order; find_uniq_u on 6 generic UBIs x every element applied beforehand (canonical, idempotent, in orbit, same cell, right-handed) and refinegrains.makeuniq on the same; find_uniq_hkls on all 343 hkl in [-3,3]^3 x every element.",
     "note": "conforming cells = conventional settings (hexagonal axes gamma=120 for hexagonal and trigonal); trace ties to 1e-9 are borderline"},
    {"id": "C03", "engine": "E1-explore", "level": "exploration",
     "technique": "bounded exhaustive enumeration over a cell grid x centrings x limits against brute-force box enumeration with independent centring rules",
     "text": "quick: every cell of the grid a,b,c in {3,4,5} x alpha,beta,gamma in {60,75,90,100,120} with positive volume (about 3000 cells) plus 17 named cells, thorough: a,b,c in {2,3,5,8,13,30} x angles in {55,70,90,110,125}; x all 7 centrings x 2 (3) d* limits: hkl set, multiplicity one, d* = |B.hkl| to 1e-10, ascending; x 3 ring tolerances: rings ascending, partition, neighbours within tol, equal d* in one ring.",
     "note": "oracle box |h| <= floor(|a| d*)+1 is rigorous; limits chosen incommensurate, reflections within 1e-9 of the limit are borderline"},
    {"id": "C05", "engine": "E1-explore", "level": "exploration",
     "technique": "bounded exhaustive enumeration of lattices x rotations x ring pairs x all hkl pairs against the ground-truth orientation",
     "text": "13 lattices (cubic P/I/F, hexagonal, tetragonal, orthorhombic P/C, monoclinic, rhombohedral P and R-centred hexagonal, two triclinic, pseudo-cubic) x 3 (6) generic rotations x all ring pairs among the first 6 (9) rings x every hkl pair with |cos| < 0.98, in crange 1e-6, crange 0.004 and nearest-cosine mode: a candidate lattice-equivalent to the truth exists, all candidates right-handed with the cell's parameters, no two candidates equivalent; unambiguous pairs give the truth.",
     "note": "hkl lists from the brute-force oracle; ideal g-vectors; pairs with |cos| >= 0.98 only counted (library cut-off)"},
    {"id": "C04", "engine": "E1-explore", "level": "exploration",
     "technique": "bounded exhaustive enumeration of a UBI table and of all NaN masks of small maps against algebraic identities",
     "text": "12 cells x 8 rotations x 5 strains = 480 UBIs through grain, unitcell, indexing.ubito*, tensor_map guvectorised functions, TensorMap properties and point_by_point helpers against numpy identities (orthogonality, triangularity, U.B = inv(UBI), B^T.B = inv(mt), Rodrigues reconstruction, build-then-decompose); all 2^n NaN masks of maps with n <= 4 (6) voxels in several shapes x 3 fillings: masked voxels NaN, the others bit-identical to the unmasked map; the whole table as (n,), (1,1,n), (1,n/8,8), (2,n/16,8) maps voxel by voxel against grain.",
     "note": "Rodrigues convention: xfab's vector describes U^T; either convention accepted; 180 degree rotation skipped for Rod (singular)"},
    {"id": "C06", "engine": "E1-explore", "level": "exploration",
     "technique": "bounded exhaustive enumeration of all peak multisets over a 24-letter alphabet x UBIs x tolerances (and all label assignments) against a numpy/exact-integer re-expression of the definition",
     "text": "5 UBIs x 5 tolerances x all 20 475 (thorough 118 755) sub-multisets of size 0..4 (0..5) of a 24-peak alphabet (coplanar, collinear, |h|=1000, offsets up to exactly 0.5) through score, score_and_refine, indexing.calc_drlv2 and indexing.refine; refine_assigned over all 2^7 (2^9) label assignments; 10^5-peak structured lists. Count, mean squared error and refined matrix compared; exactly singular H (decided in integer arithmetic) must leave the matrix unchanged.",
     "note": "margin guard: squared error within 1e-9 of tol^2, rounding ties, det(H)=0 with entries beyond 2^53, cond(H) > 1e8 are borderline; matrix tolerance scales with cond(H).cond(UB)"},
    {"id": "C10", "engine": "E1-explore", "level": "exploration",
     "technique": "bounded exhaustive enumeration of reference cells x reference orientations x stretches x rotations x m against the closed-form Seth-Hill tensors",
     "text": "5 cells x 4 reference forms (cell, or another grain in 3 orientations) x 9 (14) stretches up to 10 % x 6 rotations x 7 values of m: grain-frame strain = (S^2m - I)/2m (log for m=0) independent of R, sample-frame strain = R E R^T, symmetric, exactly zero for S = I, m-dependence second order, e6 ordering; guvectorised Biot strains and TensorMap.eps_sample/eps_crystal (both access orders) voxel by voxel incl. NaN voxels.",
     "note": "the TensorMap rotation path (eps_sample from a cached eps_crystal) is only required to agree to second order in the strain"},
    {"id": "C01", "engine": "E1-explore", "level": "exploration",
     "technique": "bounded exhaustive enumeration of the full on/off product of the geometry parameters, every configuration evaluated on every implementation route against the Python reference formulas",
     "text": "all 16 384 on/off combinations (pixel-size signs, three tilts, 8 flips, wedge, chi, omega sign, three translation components) for one magnitude set chosen by the seed (thorough: four sets) x 12 (36) peaks: Ctransform sf2xyz/xyz2gv/sf2gv/xyz2geometry, columnfile.updateGeometry fast vs slow (nine columns, translation via parameters and explicit) and updateGV, point_by_point numba helpers, compute_gve (also with per-peak xpos) and get_local_gv, all against transform.compute_xyz_lab/compute_tth_eta_from_xyz/compute_k_vectors/compute_g_from_k.",
     "note": "the reference itself is trusted here and checked by laws in C02; dead parameters would be reported (every parameter is measured to be live)"},
    {"id": "C02", "engine": "E1-explore", "level": "exploration",
     "technique": "bounded exhaustive enumeration of angle/g-vector grids against reference-independent laws (Bragg, rigid rotation, inverse-then-forward, detector round trip) and an own Ewald-sphere test",
     "text": "2304 (tth, eta, omega) x 3 wavelengths x 16 (wedge, chi) x omega sign: |g| lambda = 2 sin theta for Python and C, |g| independent of omega/wedge/chi, g(omega+d) = Rz(-d) g, both inverse solutions map back to g and contain the generating omega; 720 constructed g per setting inside the blind cone and beyond 2/lambda must be flagged, never given angles; detector projection and back on 4096 (16 384) configurations x 192 rays.",
     "note": "cases within 1e-7 of the blind-cone boundary (e.g. eta = 0 or 180 exactly) are borderline"},
    {"id": "C18", "engine": "E1-explore", "level": "exploration",
     "technique": "bounded exhaustive enumeration of title sets, parameter dictionaries, grain lists and frames with short save/load/save histories against the documented print precision computed by the oracle",
     "text": "all 63 non-empty subsets of a 6-title pool (one per FORMATS class + unknown) in two orders x 14-row value tables through text (titles, order, header parameters with types, float(FORMAT % v)), HDF5 via three routes (exact, integer dtype for INT titles), second cycle fixed point, overwriting an HDF group with same/different length with and without chunking; all 4095 subsets of a 12-entry parameter pool; all 585 (thorough 4681) grain lists of length <= 3 (4) over 8 optional-field combinations through text and HDF5 incl. second write; 586 masks x 3 construction routes of sparse frames through to_hdf_group/from_hdf_group with metadata.",
     "note": "level exploration (histories are short and fixed: save-load-save-load, write-twice); numeric-looking strings and names with '-' excluded by documented design"},
    # --- END CHECKS
]

NOT_APPLICABLE = [
    {"property_id": "C%02d" % i, "reason": PENDING} for i in range(1, 21)
]

NOTES = ("All checks run ./check <ID> which rebuilds from /repo's working tree (vt/build.py, content-hash cache under "
         "/verif/.cache) and executes vt/props/<id>.py under /venv/bin/python. known_findings.json lists recorded "
         "findings and fixed defects. seeded/ holds property-breaking changes used to demonstrate detection.")
