"""Single source of truth for MANIFEST.json (tools/mkmanifest.py renders it)."""
PENDING = "check not built yet (work in progress in this session); no claim is made"

ENGINES = [
    {"name": "E0-build", "path": "vt/build.py", "serves_properties": ["*"],
     "kind_free_text": "rebuilds the f2py extension and five ctypes variants (plain, asan+ubsan, auto-init zero/pattern, tsan-instrumented for vrt) from /repo's working tree into /verif/.cache/<hash>"},
    {"name": "E1-explore", "path": "vt/runner.py", "serves_properties": ["C11"],
     "kind_free_text": "bounded exhaustive input/configuration enumeration against reference models, sharded over 16 processes, counted evidence, known-findings matching, replay files"},
]

CHECKS = [
    {"id": "C11", "engine": "E1-explore", "level": "exploration",
     "technique": "bounded exhaustive enumeration of all small images (2- and 3-letter pixel alphabets) against a flood-fill reference model",
     "text": "every two-valued image of every shape up to 4x4 (thorough: up to 20 pixels incl. 4x5, 2x10) and every three-valued sparse image up to 3x3/2x4 (thorough 3x4, 2x6) is run through the real dense, sparse, splat kernels and the Python wrappers for both connectivities, two thresholds conventions and two poison fills; plus a stated catalogue of adversarial generators at the boundary sizes (incl. >16384 provisional labels). Exhaustive within those bounds; nothing claimed outside.",
     "note": "trusted: the flood-fill oracle (cross-checked against scipy.ndimage.label on every case), numpy, the f2py wrapper generator; pixel values restricted to the stated alphabets"},
]

NOT_APPLICABLE = [
    {"property_id": "C%02d" % i, "reason": PENDING} for i in range(1, 21)
]

NOTES = ("All checks run ./check <ID> which rebuilds from /repo's working tree (vt/build.py, content-hash cache under "
         "/verif/.cache) and executes vt/props/<id>.py under /venv/bin/python. known_findings.json lists recorded "
         "findings and fixed defects. seeded/ holds property-breaking changes used to demonstrate detection.")
