#!/venv/bin/python
"""diagnostic (not a registered check): which lines of the Python files a property is anchored in are executed by that
property's quick-tier shards?  usage: tools/pycov.py C05 [budget_seconds]   -> prints missing line ranges per anchor file
and writes .work/pycov_<ID>.json.  Shards are run in-process, evenly sampled within the time budget."""
import sys, os, json, time, importlib
sys.path.insert(0, "/verif")
pid = sys.argv[1].upper()
budget = float(sys.argv[2]) if len(sys.argv) > 2 else 120.0
from vt import build
root = build.ensure()
env = build.env_for(root)
if os.environ.get("VT_COV_CHILD") != "1":
    env["VT_COV_CHILD"] = "1"
    env["VT_CHILD"] = "1"
    os.chdir("/verif")
    os.execve("/venv/bin/python", ["/venv/bin/python", "/verif/tools/pycov.py"] + sys.argv[1:], env)
import coverage
prop = [json.loads(l) for l in open("/verif/properties.jsonl") if json.loads(l)["id"] == pid][0]
import ImageD11
pkg = os.path.dirname(ImageD11.__file__)
cov = coverage.Coverage(include=[pkg + "/*"], data_file=None)
cov.start()
mod = importlib.import_module("vt.props." + pid.lower())
shards = mod.plan("quick", 0)
if hasattr(mod, "warm"):
    try:
        mod.warm()
    except Exception:
        pass
t0 = time.time()
done = 0
# even sampling: pass 1 every 16th shard, pass 2 every 8th ... until the budget is used
seen = set()
for step in (64, 32, 16, 8, 4, 2, 1):
    for k in range(0, len(shards), step):
        if k in seen:
            continue
        if time.time() - t0 > budget:
            break
        seen.add(k)
        try:
            mod.run_shard(shards[k])
        except Exception as e:
            print("shard failed", shards[k], repr(e)[:200])
        done += 1
cov.stop()
out = {}
for f in prop["anchors"]["files"]:
    if not f.endswith(".py") or not f.startswith("ImageD11/"):
        continue
    path = os.path.join(os.path.dirname(pkg), f)
    try:
        _, stmts, _, missing, fmt = cov.analysis2(path)
    except Exception as e:
        print(f, "no data", e)
        continue
    out[f] = {"statements": len(stmts), "missing": len(missing), "missing_lines": fmt}
    print("%s: %d/%d statements not executed" % (f, len(missing), len(stmts)))
    print("   ", fmt[:1500])
os.makedirs("/verif/.work", exist_ok=True)
json.dump({"property": pid, "shards_run": done, "shards_total": len(shards), "files": out}, open("/verif/.work/pycov_%s.json" % pid, "w"), indent=1)
print("shards run: %d of %d" % (done, len(shards)))
