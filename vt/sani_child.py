"""child of C20, run as `LD_PRELOAD=libasan.so python -m vt.sani_child <lib> <group> <tier> <start> <progress> <NPROPERTY> <NPROPERTY2D>`:
makes every call of the group on exactly sized heap blocks; the sanitizer aborts the process on the first error."""
import ctypes, os, sys
import numpy as np


def main():
    libpath, group, tier, start, progress, np3, np2 = sys.argv[1:8]
    from vt import sani
    sani.NP_["NPROPERTY"] = int(np3)
    sani.NP_["NPROPERTY2D"] = int(np2)
    lib = ctypes.CDLL(libpath)
    start = int(start)
    n = 0
    with open(progress, "w") as pf:
        for idx, call in enumerate(sani.calls_of(group, tier)):
            if idx < start:
                continue
            pf.seek(0)
            pf.write("%d\t%s\n" % (idx, call.describe()[:300]))
            pf.truncate()
            pf.flush()
            sani.invoke(lib, call, exact=True, poison=sani.POISON[0])
            n += 1
        pf.seek(0)
        pf.write("DONE\t%d\n" % n)
        pf.truncate()
    print("CHILD-DONE", n)


if __name__ == "__main__":
    main()
