"""E4: explicit-state exploration of a model extracted mechanically from numba `prange` kernels.

The machine code numba generates cannot be hooked, so the Python source of the kernel is re-read on
every run (inspect.getsource on the .py_func of the njit dispatcher) and transformed by an AST
pass: every `for v in numba.prange(E): BODY` becomes a generator factory `__bodyN(v, __red)` where
  * names assigned in BODY are locals of the generator (numba's privatisation),
  * `x += e` on a name that is only augmented-assigned in BODY is a reduction slot, combined after the loop,
  * every Subscript LOAD on an array that BODY also stores to becomes `__ld((yield ('r', name)), arr, idx)`
    (the yield happens BEFORE the load), every such STORE is preceded by a yield with the right-hand
    side already evaluated into a temporary, so that a load and the following store are two steps.
Arrays that BODY never stores to cannot conflict and are not scheduling points.  Serial code around
the loop runs once, unchanged.  Every iteration is its own task (maximal concurrency: a superset of
every chunking any numba threading layer can choose).
"""
from __future__ import annotations
import ast, inspect, textwrap, collections
import numpy as np


class _StoreFinder(ast.NodeVisitor):
    def __init__(self):
        self.stored = set()

    def visit_Subscript(self, node):
        if isinstance(node.ctx, ast.Store) and isinstance(node.value, ast.Name):
            self.stored.add(node.value.id)
        self.generic_visit(node)


class _BodyRewriter(ast.NodeTransformer):
    def __init__(self, shared, reductions):
        self.shared = shared
        self.red = reductions
        self.tmp = 0

    def visit_Subscript(self, node):
        self.generic_visit(node)
        if isinstance(node.ctx, ast.Load) and isinstance(node.value, ast.Name) and node.value.id in self.shared:
            y = ast.Yield(value=ast.Tuple(elts=[ast.Constant("r"), ast.Constant(node.value.id)], ctx=ast.Load()))
            return ast.Call(func=ast.Name("__ld", ast.Load()), args=[y, node.value, node.slice], keywords=[])
        return node

    def visit_Assign(self, node):
        node.value = self.visit(node.value)
        tgt = node.targets[0]
        if isinstance(tgt, ast.Subscript) and isinstance(tgt.value, ast.Name) and tgt.value.id in self.shared:
            self.tmp += 1
            t = "__t%d" % self.tmp
            tgt.slice = self.visit(tgt.slice)
            return [ast.Assign(targets=[ast.Name(t, ast.Store())], value=node.value),
                    ast.Expr(ast.Yield(value=ast.Tuple(elts=[ast.Constant("w"), ast.Constant(tgt.value.id)], ctx=ast.Load()))),
                    ast.Assign(targets=[tgt], value=ast.Name(t, ast.Load()))]
        return node

    def visit_AugAssign(self, node):
        node.value = self.visit(node.value)
        if isinstance(node.target, ast.Name) and node.target.id in self.red:
            return ast.AugAssign(target=ast.Subscript(value=ast.Name("__red", ast.Load()), slice=ast.Constant(node.target.id),
                                                      ctx=ast.Store()), op=node.op, value=node.value)
        if isinstance(node.target, ast.Subscript) and isinstance(node.target.value, ast.Name) and node.target.value.id in self.shared:
            # a[i] op= e  ->  load, then store (two steps)
            load = ast.Subscript(value=node.target.value, slice=node.target.slice, ctx=ast.Load())
            new = ast.Assign(targets=[node.target], value=ast.BinOp(left=load, op=node.op, right=node.value))
            return self.visit_Assign(ast.fix_missing_locations(new))
        return node


def extract(pyfunc):
    """Return (ast module, source text, info) of the schedulable model of `pyfunc` (a plain python function)."""
    src = textwrap.dedent(inspect.getsource(pyfunc))
    tree = ast.parse(src)
    fdef = tree.body[0]
    fdef.decorator_list = []
    newbody = []
    n_loops = 0
    info = []
    for st in fdef.body:
        if isinstance(st, ast.For) and isinstance(st.iter, ast.Call) and ast.unparse(st.iter.func).endswith("prange"):
            n_loops += 1
            sf = _StoreFinder()
            for s in st.body:
                sf.visit(s)
            shared = sf.stored
            assigned, aug = set(), set()
            for s in ast.walk(ast.Module(body=st.body, type_ignores=[])):
                if isinstance(s, ast.Assign):
                    for t in s.targets:
                        if isinstance(t, ast.Name):
                            assigned.add(t.id)
                if isinstance(s, ast.AugAssign) and isinstance(s.target, ast.Name):
                    aug.add(s.target.id)
            red = aug - assigned
            rw = _BodyRewriter(shared, red)
            body = []
            for s in st.body:
                r = rw.visit(s)
                body.extend(r if isinstance(r, list) else [r])
            gen = ast.FunctionDef(name="__body%d" % n_loops,
                                  args=ast.arguments(posonlyargs=[], args=[ast.arg(st.target.id), ast.arg("__red")], kwonlyargs=[],
                                                     kw_defaults=[], defaults=[]),
                                  body=body + [ast.Expr(ast.Yield(value=ast.Constant(None)))], decorator_list=[], type_params=[])
            newbody.append(gen)
            call = ast.Assign(targets=[ast.Name("__r", ast.Store())],
                              value=ast.Call(func=ast.Name("__par", ast.Load()),
                                             args=[st.iter.args[0], ast.Name("__body%d" % n_loops, ast.Load()),
                                                   ast.Constant(tuple(sorted(red))), ast.Constant(tuple(sorted(shared)))], keywords=[]))
            newbody.append(call)
            for r in sorted(red):
                newbody.append(ast.AugAssign(target=ast.Name(r, ast.Store()), op=ast.Add(),
                                             value=ast.Subscript(value=ast.Name("__r", ast.Load()), slice=ast.Constant(r), ctx=ast.Load())))
            info.append({"loop": n_loops, "shared_arrays": sorted(shared), "reductions": sorted(red)})
        else:
            newbody.append(st)
    fdef.body = newbody
    ast.fix_missing_locations(tree)
    return tree, ast.unparse(tree), info


class NeedChoice(Exception):
    def __init__(self, key, enabled):
        self.key = key
        self.enabled = enabled


class Model:
    """Executes a driver (a python callable using the extracted kernels) consuming scheduling choices from a history."""

    def __init__(self, pyfuncs, extra_ns=None):
        self.ns = {"np": np, "min": min, "max": max, "len": len, "range": range, "abs": abs, "int": int}
        if extra_ns:
            self.ns.update(extra_ns)
        self.info = {}
        self.sources = {}
        for f in pyfuncs:
            tree, code, info = extract(f)
            exec(compile(tree, "<extracted %s>" % f.__name__, "exec"), self.ns)
            self.info[f.__name__] = info
            self.sources[f.__name__] = code
        self.ns["__ld"] = lambda _y, arr, idx: arr[idx]
        self.ns["__par"] = self._par
        self.observe = None      # callable returning the hashable shared state (set by the driver)

    def _loc(self, g):
        fr = g.gi_frame
        if fr is None:
            return None
        # every scalar local is part of the task's state: integers (indices, labels) and floats (a value loaded but not yet stored)
        return (fr.f_lasti, tuple(sorted((k, int(v) if isinstance(v, (int, np.integer)) else float(v)) for k, v in fr.f_locals.items()
                                         if isinstance(v, (int, float, np.integer, np.floating)) and not k.startswith("__red"))))

    def _par(self, n, body, rednames, sharednames):
        red = {r: 0 for r in rednames}
        live = {k: body(k, red) for k in range(n)}
        while live:
            en = sorted(live)
            if len(en) > 1:
                if self.sequential:
                    c = en[0]
                elif self.pos < len(self.hist):
                    c = self.hist[self.pos]
                    self.pos += 1
                    if c not in live:
                        raise RuntimeError("history diverged: task %r not enabled" % (c,))
                else:
                    key = (self.phase, self.observe(), tuple(sorted(red.items())), tuple((k, self._loc(live[k])) for k in en))
                    raise NeedChoice(key, en)
            else:
                c = en[0]
            g = live[c]
            try:
                ev = next(g)
            except StopIteration:
                del live[c]
                continue
            if ev is None:
                del live[c]
            self.steps += 1
        return red

    def run(self, driver, history, sequential=False):
        self.hist = list(history)
        self.pos = 0
        self.phase = None
        self.sequential = sequential
        self.steps = 0
        return driver(self)


def explore(model, driver, max_states=2_000_000):
    """BFS over choice points. Returns dict(states, transitions, terminals, edges, capped, can_reach_terminal_all, cycles)."""
    seen = {}
    edges = collections.defaultdict(set)     # state id -> set of successor ids ("T", terminal) or state ids
    frontier = collections.deque([((), None)])
    terminals = set()
    transitions = 0
    capped = False
    while frontier:
        h, parent = frontier.popleft()
        try:
            res = model.run(driver, h)
            t = ("T", res)
            terminals.add(res)
            if parent is not None:
                edges[parent].add(t)
            transitions += 1
        except NeedChoice as nc:
            transitions += 1
            if nc.key in seen:
                if parent is not None:
                    edges[parent].add(seen[nc.key])
                continue
            sid = len(seen)
            seen[nc.key] = sid
            if parent is not None:
                edges[parent].add(sid)
            if len(seen) > max_states:
                capped = True
                break
            for c in nc.enabled:
                frontier.append((h + (c,), sid))
    # AG EF terminal: backward reachability from terminal edges
    rev = collections.defaultdict(set)
    good = set()
    for s, outs in edges.items():
        for o in outs:
            if isinstance(o, tuple):
                good.add(s)
            else:
                rev[o].add(s)
    work = list(good)
    while work:
        s = work.pop()
        for p in rev[s]:
            if p not in good:
                good.add(p)
                work.append(p)
    all_ok = capped or all(sid in good for sid in seen.values()) or not seen
    # cycles (possible livelock under an unfair scheduler): DFS colouring
    color = {}
    has_cycle = False
    for s0 in list(seen.values()):
        if s0 in color:
            continue
        stack = [(s0, iter([o for o in edges[s0] if not isinstance(o, tuple)]))]
        color[s0] = 1
        while stack:
            s, it = stack[-1]
            adv = False
            for o in it:
                if color.get(o) == 1:
                    has_cycle = True
                elif o not in color:
                    color[o] = 1
                    stack.append((o, iter([x for x in edges[o] if not isinstance(x, tuple)])))
                    adv = True
                    break
            if not adv:
                color[s] = 2
                stack.pop()
    return {"states": len(seen), "transitions": transitions, "terminals": terminals, "capped": capped,
            "all_states_can_terminate": all_ok, "has_cycle": has_cycle}
