"""E6: call specifications of the compiled kernels and the monitors used by C20.

A *call* is (kernel name, list of arguments, return type).  Arguments are
    ("a", ndarray, role)   array passed by pointer; role "in", "io" (content matters) or "out" (pure output,
                           poisoned before the call), optional 4th element = promised slice function of the return value
    ("i", int) ("f", float32) ("d", float64)  scalars
Monitors:
  asan   - the call is made in a python child running under LD_PRELOAD=libasan.so against libid11_asan.so with every array
           copied into an exactly sized heap block from the intercepted malloc (vt_alloc), so a one-element overrun of any
           argument lands in a red zone; UBSan is compiled in with -fno-sanitize-recover.
  diff   - the same call against the -ftrivial-auto-var-init=zero and =pattern builds: any difference in a promised output is a
           read of an uninitialised automatic variable; and twice against one build with two different poison fills of the pure
           outputs: promised outputs must not depend on the previous content.
"""
from __future__ import annotations
import ctypes, itertools, os, sys
import numpy as np

CT = {"i": ctypes.c_int, "f": ctypes.c_float, "d": ctypes.c_double}
POISON = (0x5A, 0xA7)


def A(arr, role="in", promised=None):
    return ("a", np.ascontiguousarray(arr), role, promised)


def I(v):
    return ("i", int(v))


def F(v):
    return ("f", float(v))


def D(v):
    return ("d", float(v))


class Call:
    def __init__(self, kernel, args, ret="i", note=""):
        self.kernel, self.args, self.ret, self.note = kernel, args, ret, note

    def describe(self):
        out = []
        for a in self.args:
            if a[0] == "a":
                arr = a[1]
                out.append("%s%s:%s" % (arr.dtype.name, list(arr.shape), a[2]))
            else:
                out.append("%s=%r" % (a[0], a[1]))
        return "%s(%s) %s" % (self.kernel, ", ".join(out), self.note)


def invoke(lib, call, exact=False, poison=None):
    """Run one call. Returns (ret, [output arrays after the call in arg order for io/out roles])."""
    fn = getattr(lib, call.kernel)
    fn.restype = {"i": ctypes.c_int, "d": ctypes.c_double, "v": None}[call.ret]
    cargs, work, blocks = [], [], []
    for a in call.args:
        if a[0] == "a":
            arr = a[1].copy()
            if a[2] == "out" and poison is not None:
                arr.view(np.uint8).reshape(-1)[:] = poison
            if exact:
                n = arr.nbytes
                lib.vt_alloc.restype = ctypes.c_void_p
                p = lib.vt_alloc(ctypes.c_size_t(n))
                if n:
                    ctypes.memmove(p, arr.ctypes.data, n)
                blocks.append((p, arr))
                cargs.append(ctypes.c_void_p(p))
            else:
                cargs.append(arr.ctypes.data_as(ctypes.c_void_p))
            work.append((a, arr))
        else:
            cargs.append(CT[a[0]](a[1]))
    ret = fn(*cargs)
    if exact:
        for p, arr in blocks:
            if arr.nbytes:
                ctypes.memmove(arr.ctypes.data, p, arr.nbytes)
            lib.vt_free(ctypes.c_void_p(p))
    outs = []
    for a, arr in work:
        if a[2] in ("io", "out"):
            prom = a[3]
            if prom is not None:
                sl = prom(ret, arr)
                outs.append(np.array(arr.reshape(-1)[sl]) if not isinstance(sl, np.ndarray) else np.array(arr.reshape(-1)[sl]))
            else:
                outs.append(arr)
    return ret, outs


# ------------------------------------------------------------------------------------------------ case tables
def small_images(tier="quick"):
    for shp in ((2, 2), (2, 3), (3, 2), (3, 3)) + (((3, 4), (4, 3), (2, 5), (5, 2), (2, 6), (6, 2)) if tier == "thorough" else ()):
        n = shp[0] * shp[1]
        for x in range(1 << n):
            yield np.array([(x >> k) & 1 for k in range(n)], np.float32).reshape(shp)
    for shp in ((2, 17), (17, 2), (3, 40), (64, 5)):
        I_, J_ = np.mgrid[0:shp[0], 0:shp[1]]
        for pat in ((I_ + J_) % 2 == 0, (I_ * 3 + J_) % 5 < 2, np.ones(shp, bool), np.zeros(shp, bool), J_ % 2 == 0, I_ % 2 == 1):
            yield pat.astype(np.float32)


def big_images(tier):
    sizes = [182, 300] if tier == "quick" else [182, 256, 300, 400]
    for s in sizes:
        I_, J_ = np.mgrid[0:s, 0:s]
        yield ((I_ + J_) % 2 == 0).astype(np.float32)          # > 16384 provisional labels for 4-connectivity
        yield ((I_ % 2 == 0) & (J_ % 2 == 0)).astype(np.float32)


def growth_images():
    """frames of isolated pixels arranged so that the provisional label which makes the labelling's bookkeeping table grow (the
    16382nd; with 32 blobs per row the 32766th falls in the same column 512 rows later) is born in a chosen place: the first column
    of a row, the last column, the first row, an interior column"""
    def build(W, k):
        cols = np.arange(0, W, 2)
        nper = len(cols)
        q, r = divmod(16381 - k, nper)
        rows = ([cols[:r]] if r else []) + [cols] * (q + 1 + 513)
        im = np.zeros((2 * len(rows), W), np.float32)
        for n_, c in enumerate(rows):
            im[2 * n_, c] = 1.0
        return im
    yield build(64, 0)      # born in column 0
    yield build(65, 32)     # born in the last column (64)
    yield build(64, 17)     # interior
    im = np.zeros((2, 40000), np.float32)
    im[0, ::2] = 1.0
    yield im                # born in the first row
    im = np.zeros((40000, 2), np.float32)
    im[::2, 0] = 1.0
    yield im                # every blob born in column 0


def sparse_patterns(with_empty=False):
    """(shape, rows, cols) for all subsets of a 3x3 grid, plus edge coordinates"""
    if with_empty:
        yield (3, 3), np.zeros(0, np.uint16), np.zeros(0, np.uint16)
    for x in range(1, 512):
        m = np.array([(x >> k) & 1 for k in range(9)], bool).reshape(3, 3)
        i, j = np.nonzero(m)
        yield (3, 3), i.astype(np.uint16), j.astype(np.uint16)
    for pts in ([(0, 0)], [(65533, 65533)], [(0, 65533), (65533, 0)], [(0, 0), (0, 1), (2, 0)], [(5, 7), (5, 8), (6, 6), (6, 9), (9, 9)],
                [(0, 0), (1, 1), (2, 2), (3, 3)], [(0, 2), (1, 1), (2, 0)], [(10, 10), (10, 12), (11, 11), (12, 10), (12, 12)]):
        pts = sorted(pts)
        yield (65534, 65534), np.array([p[0] for p in pts], np.uint16), np.array([p[1] for p in pts], np.uint16)


def peak_counts(tier):
    return (0, 1, 2, 5, 4095, 4096, 4097) if tier == "quick" else (0, 1, 2, 5, 4095, 4096, 4097, 8192, 8193, 20000)


def gvecs(n, k=0):
    ub = np.eye(3) / 4.0
    hk = np.array([[(q * 7 + k) % 9 - 4, (q * 3 + 1) % 7 - 3, (q * 5 + 2) % 5 - 2] for q in range(n)], float).reshape(n, 3)
    off = 0.02 * np.sin(np.arange(n * 3)).reshape(n, 3)
    return np.dot(hk + off, ub.T)


NP_ = {"NPROPERTY": 36, "NPROPERTY2D": 11}


def specs(tier):
    """yield (kernel, generator of Call)"""
    NP3, NP2 = NP_["NPROPERTY"], NP_["NPROPERTY2D"]

    def g_connectedpixels():
        for im in itertools.chain(small_images(tier), big_images(tier), growth_images()):
            for c8 in (1, 0):
                yield Call("connectedpixels", [A(im), A(np.zeros(im.shape, np.int32), "out"), F(0.5), I(0), I(c8), I(im.shape[0]), I(im.shape[1])])
    yield "connectedpixels", g_connectedpixels

    def g_blobproperties():
        for im in small_images(tier):
            lab = np.cumsum(im.ravel() > 0).reshape(im.shape).astype(np.int32) * (im > 0)       # every pixel its own blob
            npk = int(lab.max())
            for n_given in {npk, max(npk, 1), npk + 2}:
                yield Call("blobproperties", [A(im * 3 + 1), A(lab.astype(np.int32)), I(n_given), F(1.5), I(0), I(im.shape[0]), I(im.shape[1]),
                                              A(np.zeros((max(n_given, 0), NP3)), "out")], ret="v")
    yield "blobproperties", g_blobproperties

    def g_bloboverlaps():
        ims = [im for im in small_images() if im.shape == (3, 3)]
        for a in ims[::7]:
            for b in ims[::11]:
                la = (np.cumsum(a.ravel() > 0).reshape(a.shape) * (a > 0)).astype(np.int32)
                lb = (np.cumsum(b.ravel() > 0).reshape(b.shape) * (b > 0)).astype(np.int32)
                n1, n2 = int(la.max()), int(lb.max())
                if n1 == 0 or n2 == 0:
                    continue        # the python caller never calls with an empty frame
                r1 = np.zeros((n1, NP3)); r2 = np.zeros((n2, NP3))
                r1[:, 0] = 1; r2[:, 0] = 1
                yield Call("bloboverlaps", [A(la, "io"), I(n1), A(r1, "io"), A(lb, "io"), I(n2), A(r2, "io"), I(0), I(3), I(3)])
    yield "bloboverlaps", g_bloboverlaps

    def g_blob_moments():
        for n in (0, 1, 2, 7):
            r = np.zeros((n, NP3))
            r[:, :13] = 1.0 + np.arange(n * 13).reshape(n, 13)
            if n > 1:
                r[1, 0] = 0          # an emptied blob
            yield Call("blob_moments", [A(r, "io"), I(n)], ret="v")
    yield "blob_moments", g_blob_moments

    def g_clean_mask():
        for im in small_images(tier):
            yield Call("clean_mask", [A(im.astype(np.int8)), A(np.zeros(im.shape, np.int8), "out"), I(im.shape[0]), I(im.shape[1])])
    yield "clean_mask", g_clean_mask

    def g_make_clean_mask():
        for im in small_images(tier):
            yield Call("make_clean_mask", [A(im), F(0.5), A(np.zeros(im.shape, np.int8), "out"), A(np.zeros(im.shape, np.int8), "out"), I(im.shape[0]),
                                           I(im.shape[1])])
    yield "make_clean_mask", g_make_clean_mask

    def g_localmaxlabel():
        for shp in ((3, 3), (3, 4), (4, 3), (4, 4), (3, 17), (17, 3), (5, 5), (2, 2), (2, 3), (3, 2), (2, 5), (5, 2), (4, 2), (2, 17), (17, 2)):
            n = shp[0] * shp[1]
            perms = itertools.islice(itertools.permutations(range(n)), 0, None, max(1, int(np.prod(range(1, min(n, 9) + 1)) // 300))) if n <= 9 else \
                [tuple((np.arange(n) * s + o) % n) for s in (1, 5, 7, 11, 13) for o in (0, 3) if np.gcd(s, n) == 1]
            for k_, p in enumerate(perms):
                if k_ > 400:
                    break
                yield Call("localmaxlabel", [A(np.array(p, np.float32).reshape(shp)), A(np.zeros(shp, np.int32), "out"), A(np.zeros(shp, np.uint8), "out"),
                                             I(shp[0]), I(shp[1])])
    yield "localmaxlabel", g_localmaxlabel

    def g_mask_to_coo():
        for im in small_images(tier):
            nnz = int((im > 0).sum())
            if nnz == 0:
                continue            # an empty mask is not a well-formed call (the library represents empty frames as None)
            yield Call("mask_to_coo", [A(im.astype(np.int8)), I(im.shape[0]), I(im.shape[1]), A(np.zeros(nnz, np.uint16), "out"),
                                       A(np.zeros(nnz, np.uint16), "out"), I(nnz), A(np.zeros(im.shape[0], np.int32), "out", lambda r, a: slice(0, 0))])
        # masks with NEGATIVE int8 values (a 0/255 mask seen as int8, the difference of two masks): with nnz = the number of non-zero
        # pixels the call is served, with nnz = the number of positive pixels it is refused (return 4) - either way nothing is written
        # outside i[] / j[]; on a refusal nothing is promised
        for shp in ((2, 2), (2, 3), (3, 3), (2, 17), (17, 2), (5, 7)):
            n = shp[0] * shp[1]
            for variant in range(3):
                im = (((np.arange(n) * (3 + variant)) % 5) - 2).astype(np.int8).reshape(shp)      # values -2 .. 2, every row mixed
                if variant == 2:
                    im[im == 2] = 127
                    im[im == -2] = -128
                for nnz in sorted(set((int((im > 0).sum()), int((im != 0).sum())))):
                    if nnz < 1:
                        continue
                    ok_only = lambda r, a: slice(0, len(a) if r == 0 else 0)
                    yield Call("mask_to_coo", [A(im.copy()), I(shp[0]), I(shp[1]), A(np.zeros(nnz, np.uint16), "out", ok_only),
                                               A(np.zeros(nnz, np.uint16), "out", ok_only), I(nnz), A(np.zeros(shp[0], np.int32), "out", lambda r, a: slice(0, 0))])
    yield "mask_to_coo", g_mask_to_coo

    def g_sparse():
        for shp, i, j in sparse_patterns(with_empty=True):
            nnz = len(i)
            v = (1.0 + ((np.arange(nnz) * 5) % 7)).astype(np.float32)
            yield Call("sparse_is_sorted", [A(i), A(j), I(nnz)])
            if nnz == 0:
                continue            # the f2py interface of the remaining kernels needs at least one pixel (checked separately)
            yield Call("sparse_connectedpixels", [A(v), A(i), A(j), I(nnz), F(2.5), A(np.zeros(nnz, np.int32), "out")])
            if shp == (3, 3):
                yield Call("sparse_connectedpixels_splat", [A(v), A(i), A(j), I(nnz), F(2.5), A(np.zeros(nnz, np.int32), "io"),
                                                            A(np.zeros(5 * 5, np.int32), "out", lambda r, a: slice(0, 0)), I(3), I(3)])
            lab = ((np.arange(nnz) % 3) + 1).astype(np.int32)
            yield Call("sparse_blob2Dproperties", [A(v), A(i), A(j), I(nnz), A(lab), A(np.zeros((3, NP2)), "out"), I(3)], ret="v")
            yield Call("sparse_smooth", [A(v), A(i), A(j), I(nnz), A(np.zeros(nnz, np.float32), "out")], ret="v")
            vv = (np.argsort(np.argsort((np.arange(nnz) * 37) % 101)) + 1).astype(np.float32)
            yield Call("sparse_localmaxlabel", [A(vv), A(i), A(j), I(nnz), A(np.zeros(nnz, np.float32), "out"), A(np.zeros(nnz, np.int32), "out"),
                                                A(np.zeros(nnz, np.int32), "out")])
            # an isolated pixel (two rows below everything else) holding a bad-pixel marker: a huge negative number, -inf, NaN
            if nnz and int(i.max()) < 60000:
                i2 = np.concatenate([i, [int(i.max()) + 2]]).astype(np.uint16); j2 = np.concatenate([j, [1]]).astype(np.uint16)
                for badv in (-1e30, -np.inf, np.nan):
                    v2 = np.concatenate([vv, [badv]]).astype(np.float32)
                    yield Call("sparse_localmaxlabel", [A(v2), A(i2), A(j2), I(nnz + 1), A(np.zeros(nnz + 1, np.float32), "out"),
                                                        A(np.zeros(nnz + 1, np.int32), "out"), A(np.zeros(nnz + 1, np.int32), "out")],
                               note="isolated pixel = %r" % badv)
        # more isolated pixels than the labelling's bookkeeping table initially holds (16384): the table has to grow inside the call
        for side, step_ in ((262, 2), (400, 2)):
            I_, J_ = np.mgrid[0:side:step_, 0:side:step_]
            i = I_.ravel().astype(np.uint16); j = J_.ravel().astype(np.uint16)
            nnz = len(i)
            v = np.full(nnz, 5.0, np.float32)
            yield Call("sparse_connectedpixels", [A(v), A(i), A(j), I(nnz), F(2.5), A(np.zeros(nnz, np.int32), "out")])
            yield Call("sparse_connectedpixels_splat", [A(v), A(i), A(j), I(nnz), F(2.5), A(np.zeros(nnz, np.int32), "io"),
                                                        A(np.zeros((side + 2) * (side + 2), np.int32), "out", lambda r, a: slice(0, 0)), I(side), I(side)])
    yield "sparse_kernels", g_sparse

    def g_overlaps():
        pats = [p for p in sparse_patterns()]
        sel = pats[::9] + pats[-8:]
        for (s1, i1, j1) in sel:
            for (s2, i2, j2) in sel[::3]:
                if s1 != s2:
                    continue
                l1 = ((np.arange(len(i1)) % 3) + 1).astype(np.int32)
                l2 = ((np.arange(len(i2)) % 2) + 1).astype(np.int32)
                yield Call("sparse_overlaps", [A(i1), A(j1), A(np.zeros(len(i1), np.int32), "out"), I(len(i1)), A(i2), A(j2),
                                               A(np.zeros(len(i2), np.int32), "out"), I(len(i2))])
                yield Call("coverlaps", [A(i1), A(j1), A(l1), I(len(i1)), A(i2), A(j2), A(l2), I(len(i2)), A(np.zeros((3, 2), np.int32), "out"), I(3), I(2),
                                         A(np.zeros(3 * 6, np.int32), "out", lambda r, a: slice(0, 3 * r))])
        # ALL label-pair sequences of length <= 3 (thorough 4) over labels 1..4, histogram scratch at exact capacity (nt = max + 1)
        for n in (1, 2, 3) if tier == "quick" else (1, 2, 3, 4):
            for seq in itertools.product(range(16), repeat=n):
                li = np.array([q // 4 + 1 for q in seq], np.int32)
                lj = np.array([q % 4 + 1 for q in seq], np.int32)
                nt = int(max(li.max(), lj.max())) + 1
                yield Call("compress_duplicates", [A(li, "io", lambda r, a: slice(0, r)), A(lj, "io", lambda r, a: slice(0, r)),
                                                   A(np.zeros(n, np.int32), "out", lambda r, a: slice(0, r)), A(np.zeros(n, np.int32), "out", lambda r, a: slice(0, 0)),
                                                   A(np.zeros(nt, np.int32), "out", lambda r, a: slice(0, 0)), I(n), I(nt)])
        for n in (1, 2, 3, 7, 50):
            for nt_extra in (1, 3):
                li = ((np.arange(n) * 3) % 4 + 1).astype(np.int32)
                lj = ((np.arange(n) * 5) % 3 + 1).astype(np.int32)
                nt = int(max(li.max(), lj.max())) + nt_extra            # label == nt - 1 when nt_extra == 1 (capacity)
                yield Call("compress_duplicates", [A(li, "io", lambda r, a: slice(0, r)), A(lj, "io", lambda r, a: slice(0, r)),
                                                   A(np.zeros(n, np.int32), "out", lambda r, a: slice(0, r)), A(np.zeros(n, np.int32), "out", lambda r, a: slice(0, 0)),
                                                   A(np.zeros(nt, np.int32), "out", lambda r, a: slice(0, 0)), I(n), I(nt)])
    yield "overlap_kernels", g_overlaps

    def g_tosparse():
        for im in small_images(tier):
            for cut in (0, 1):
                msk = np.ones(im.shape, np.uint8)
                msk.flat[0] = 0
                n = im.size
                for name, dt, cutarg in (("tosparse_u16", np.uint16, I(cut)), ("tosparse_u32", np.uint32, I(cut)), ("tosparse_f32", np.float32, F(cut - 0.5))):
                    img = (im * 2 + (np.arange(n).reshape(im.shape) % 2)).astype(dt)
                    yield Call(name, [A(img), A(msk), A(np.zeros(im.shape, np.uint16), "out", lambda r, a: slice(0, r)),
                                      A(np.zeros(im.shape, np.uint16), "out", lambda r, a: slice(0, r)),
                                      A(np.zeros(im.shape, dt), "out", lambda r, a: slice(0, r)), cutarg, I(im.shape[0]), I(im.shape[1])])
    yield "tosparse", g_tosparse

    def g_scoring():
        ubi = np.eye(3) * 4.0
        for n in peak_counts(tier):
            gv = gvecs(n)
            yield Call("score", [A(ubi), A(gv), D(0.1), I(n)])
            yield Call("score_and_refine", [A(ubi, "io"), A(gv), D(0.1), A(np.zeros(1, np.int32), "out"), A(np.zeros(1), "out"), I(n)], ret="v")
            yield Call("score_and_assign", [A(ubi), A(gv), D(0.1), A(np.full(n, 2.0), "io"), A(np.full(n, -1, np.int32), "io"), I(3), I(n)])
            lab = ((np.arange(n) % 2) * 3).astype(np.int32)
            yield Call("refine_assigned", [A(ubi, "io"), A(gv), A(lab), I(3), A(np.zeros(1, np.int32), "out"), A(np.zeros(1), "out"), I(n)], ret="v")
            yield Call("score_gvec_z", [A(ubi), A(np.linalg.inv(ubi)), A(gv), A(np.zeros((n, 3)), "out"), A(np.zeros((n, 3)), "out"), A(np.zeros((n, 3)), "out"),
                                        A(np.zeros((n, 3)), "out"), I(1), I(n)], ret="v")
        for nv in (1, 2, 3, 17):
            for dim in (1, 2, 3):
                x = np.sin(np.arange(nv * dim) * 1.7).reshape(nv, dim)
                yield Call("closest_vec", [A(x), I(dim), I(nv), A(np.zeros(nv, np.int32), "out")], ret="v")
        for nx, nv in ((1, 1), (2, 3), (50, 4)):
            yield Call("closest", [A(np.cos(np.arange(nx) * 0.3)), A(np.cos(np.arange(nv) * 0.9)), A(np.zeros(1, np.int32), "out"), A(np.zeros(1), "out"), I(nx), I(nv)], ret="v")
        for n in (1, 2, 5, 40):
            ar = np.sort(np.round(np.sin(np.arange(n)) * 3, 1))
            yield Call("cluster1d", [A(ar), I(n), A(np.arange(n, dtype=np.int32)), D(0.15), A(np.zeros(1, np.int32), "out"),
                                     A(np.zeros(n, np.int32), "out", lambda r, a: slice(0, 0)), A(np.zeros(n), "out", lambda r, a: slice(0, 0))], ret="v")
        u1 = np.eye(3)
        c, s = np.cos(0.3), np.sin(0.3)
        u2 = np.array([[c, -s, 0], [s, c, 0], [0, 0, 1.0]])
        for k in ("misori_cubic", "misori_orthorhombic", "misori_tetragonal", "misori_monoclinic"):
            yield Call(k, [A(u1), A(u2)], ret="d")
        for ni, nj in ((0, 0), (1, 0), (0, 3), (1, 1), (5, 7), (30, 30)):
            yield Call("count_shared", [A(np.arange(ni, dtype=np.int32) * 2), I(ni), A(np.arange(nj, dtype=np.int32) * 3), I(nj)])
        for n, m in ((0, 4), (1, 1), (5, 3), (100, 10)):
            for k, dt in (("put_incr64", np.int64), ("put_incr32", np.int32)):
                ind = (np.arange(n) * 7 % m).astype(dt)
                yield Call(k, [A(np.zeros(m, np.float32), "io"), A(ind), A(np.ones(n, np.float32)), I(0), I(n), I(m)], ret="v")
                bad = ind.copy()
                if n:
                    bad[0] = m + 5            # out of range index with bounds checking ON must be ignored, not written
                    yield Call(k, [A(np.zeros(m, np.float32), "io"), A(bad), A(np.ones(n, np.float32)), I(1), I(n), I(m)], ret="v", note="boundscheck=1")
                    for edge in (m, -1, m + 1, -m - 1):          # the first index past either end, and its neighbours
                        bad2 = ind.copy()
                        bad2[n - 1] = edge
                        yield Call(k, [A(np.zeros(m, np.float32), "io"), A(bad2), A(np.ones(n, np.float32)), I(1), I(n), I(m)], ret="v", note="boundscheck=1 edge %d" % edge)
    yield "scoring_kernels", g_scoring

    def g_geometry():
        for n in peak_counts(tier):
            xyz = np.ascontiguousarray(np.array([np.full(n, 1e5), 3e3 * np.sin(np.arange(n)), 4e3 * np.cos(np.arange(n) * 1.3)]).T)
            om = np.arange(n) * 0.37
            t = np.array([10.0, -20.0, 30.0])
            yield Call("compute_gv", [A(xyz), A(om), D(-1.0), D(0.3), D(1.5), D(-0.7), A(t), A(np.zeros((n, 3)), "out"), I(n)], ret="v")
            yield Call("compute_geometry", [A(xyz), A(om), D(1.0), D(0.3), D(1.5), D(-0.7), A(t), A(np.zeros((n, 6)), "out"), I(n)], ret="v")
            yield Call("compute_xlylzl", [A(np.arange(n) * 1.5), A(np.arange(n) * 0.5), A(np.array([1000.0, 1000.0, 50.0, 50.0])), A(np.eye(3).ravel()),
                                          A(np.array([1e5, 0, 0.0])), A(np.zeros((n, 3)), "out"), I(n)], ret="v")
        # degenerate rows: a spot exactly at the grain origin (zero-padded tables), on the beam axis, omega of 1e6 degrees
        for tvec in (np.zeros(3), np.array([10.0, -20.0, 30.0])):
            xyz = np.ascontiguousarray(np.array([[1e5, 0.0, 0.0], tvec, [0.0, 0.0, 0.0], [1e5, 3e3, -4e3], [-1e5, 0.0, 0.0]]))
            om = np.array([0.0, 90.0, 1e6, -33.0, 180.0])
            yield Call("compute_gv", [A(xyz), A(om), D(1.0), D(0.3), D(0.0), D(0.0), A(tvec), A(np.zeros((5, 3)), "out"), I(5)], ret="v")
            yield Call("compute_geometry", [A(xyz), A(om), D(1.0), D(0.3), D(0.0), D(0.0), A(tvec), A(np.zeros((5, 6)), "out"), I(5)], ret="v")
        ubi = np.array([[1.0, 0, 0], [0, 1.0, 0], [0, 0, 0.0]])
        yield Call("quickorient", [A(ubi, "io"), A(np.eye(3))], ret="v")
    yield "geometry_kernels", g_geometry

    def g_darkflat():
        for npx in (1, 2, 7, 16, 17, 1000):
            img = (np.arange(npx) % 13).astype(np.float32)
            yield Call("uint16_to_float_darksub", [A(np.zeros(npx, np.float32), "out"), A(img * 0.1), A((np.arange(npx) % 50).astype(np.uint16)), I(npx)], ret="v")
            yield Call("uint16_to_float_darkflm", [A(np.zeros(npx, np.float32), "out"), A(img * 0.1), A(np.ones(npx, np.float32)), A((np.arange(npx) % 50).astype(np.uint16)),
                                                   I(npx)], ret="v")
            yield Call("array_mean_var_cut", [A(img), I(npx), A(np.zeros(1, np.float32), "out"), A(np.zeros(1, np.float32), "out"), I(3), F(3.0), I(0)], ret="v")
            yield Call("array_mean_var_msk", [A(img), A(np.ones(npx, np.uint8), "io"), I(npx), A(np.zeros(1, np.float32), "out"), A(np.zeros(1, np.float32), "out"), I(3), F(3.0),
                                              I(0)], ret="v")
            yield Call("array_stats", [A(img), I(npx), A(np.zeros(1, np.float32), "out"), A(np.zeros(1, np.float32), "out"), A(np.zeros(1, np.float32), "out"),
                                       A(np.zeros(1, np.float32), "out")], ret="v")
            for nh in (1, 2, 16):
                vals = np.concatenate([img, np.array([-5.0, 0.0, 12.0, 12.000001, 99.0], np.float32)])     # below, on, inside, on, above the range
                yield Call("array_histogram", [A(vals), I(len(vals)), F(0.0), F(12.0), A(np.zeros(nh, np.int32), "io"), I(nh)], ret="v")
            # pixels one float below the upper limit (and one above the lower): in range, but the scaled value may round up to nhist
            for lo_, hi_, nh in ((0.0, 7.0, 10), (0.0, 255.0, 16), (10.0, 100.0, 50), (-1.0, 1.0, 10), (0.0, 1.0, 3), (-0.3, 0.7, 7), (5.0, 65535.0, 1000)):
                e = np.array([np.nextafter(np.float32(hi_), np.float32(-np.inf)), np.nextafter(np.float32(lo_), np.float32(np.inf)), lo_, hi_,
                              np.nextafter(np.float32(lo_), np.float32(-np.inf)), np.nextafter(np.float32(hi_), np.float32(np.inf))], np.float32)
                mids = (lo_ + (hi_ - lo_) * (np.arange(1, nh) / nh)).astype(np.float32)      # the interior bin edges, and their float neighbours
                vals = np.concatenate([e, mids, np.nextafter(mids, np.float32(-np.inf)), np.nextafter(mids, np.float32(np.inf))]).astype(np.float32)
                yield Call("array_histogram", [A(vals), I(len(vals)), F(lo_), F(hi_), A(np.zeros(nh, np.int32), "io"), I(nh)], ret="v")
            adr = ((np.arange(npx) * 7) % npx).astype(np.uint32) if np.gcd(7, npx) == 1 else np.arange(npx, dtype=np.uint32)[::-1].copy()
            yield Call("reorder_u16_a32", [A(img.astype(np.uint16)), A(adr), A(np.zeros(npx, np.uint16), "out"), I(npx)], ret="v")
            yield Call("reorder_f32_a32", [A(img), A(adr), A(np.zeros(npx, np.float32), "out"), I(npx)], ret="v")
            yield Call("reorderlut_u16_a32", [A(img.astype(np.uint16)), A(adr), A(np.zeros(npx, np.uint16), "out"), I(npx)], ret="v")
            yield Call("reorderlut_f32_a32", [A(img), A(adr), A(np.zeros(npx, np.float32), "out"), I(npx)], ret="v")
        for shp in ((2, 2), (2, 3), (3, 2), (5, 17), (17, 5)):
            img = ((np.arange(shp[0] * shp[1]) * 5) % 11).astype(np.float32).reshape(shp)
            yield Call("frelon_lines", [A(img, "io"), I(shp[0]), I(shp[1]), F(4.0)], ret="v")
            yield Call("frelon_lines_sub", [A(img, "io"), A(img * 0.1, "in"), I(shp[0]), I(shp[1]), F(4.0)], ret="v")
            yield Call("bgcalc", [A(img), A(np.zeros(shp, np.float32), "out"), A(np.zeros(shp, np.uint8), "out"), I(shp[0]), I(shp[1]), F(1.0), F(0.5), F(3.0)], ret="v")
            # only the first line has pixels below the cut: every other line (whichever thread gets it) falls back on the start value
            bright = np.full(shp, 50.0, np.float32)
            bright[0] = np.arange(shp[1], dtype=np.float32) % 3 + 1
            yield Call("frelon_lines", [A(bright, "io"), I(shp[0]), I(shp[1]), F(4.0)], ret="v")
            yield Call("frelon_lines_sub", [A(bright, "io"), A(bright * 0.1, "in"), I(shp[0]), I(shp[1]), F(4.0)], ret="v")
            ns, nf = shp
            # destination = a0[row] + running sum of a1[row, :]: rows written backwards (first) and forwards (second); a bijection
            for a0, step in (((np.arange(ns, dtype=np.uint32)[::-1] * nf + nf - 1).copy(), -1), ((np.arange(ns, dtype=np.uint32) * nf).copy(), 1)):
                a1 = np.full((ns, nf), step, np.int16)
                a1[:, 0] = 0
                yield Call("reorder_u16_a32_a16", [A(img.astype(np.uint16)), A(a0), A(a1), A(np.zeros(shp, np.uint16), "out"), I(ns), I(nf)], ret="v")
    yield "darkflat_kernels", g_darkflat

    def g_splat():
        for ng in (0, 1, 5, 200):
            for w, h in ((2, 2), (3, 7), (16, 16)):
                g = np.ascontiguousarray(np.array([np.sin(np.arange(ng)), np.cos(np.arange(ng) * 1.3), np.sin(np.arange(ng) * 0.7)]).T) * 0.9
                u = (np.eye(3) * min(w, h) / 2.5).ravel()
                yield Call("splat", [A(np.zeros((h, w, 4), np.uint8), "io"), I(w), I(h), A(g.reshape(ng, 3)), I(ng), A(u), I(1)], ret="v")
    yield "splat", g_splat


def group_names(tier):
    return [name for name, _ in specs(tier)]


def calls_of(group, tier):
    for name, gen in specs(tier):
        if name == group:
            return gen()
    raise KeyError(group)


THREADSAFE = ("score_and_refine", "refine_assigned", "closest", "blobproperties", "bloboverlaps", "blob_moments", "sparse_is_sorted", "sparse_connectedpixels", "sparse_connectedpixels_splat",
              "sparse_blob2Dproperties", "sparse_smooth", "sparse_localmaxlabel", "sparse_overlaps", "compress_duplicates", "coverlaps",
              "tosparse_u16", "tosparse_u32", "tosparse_f32")


def threadsafe_pairs(groups, kernels, per_kernel=6, tier="quick", max_bytes=4096):
    """pairs of DIFFERENT well-formed calls of the same kernel (declared `threadsafe` in the f2py interface: the GIL is released, two
    python threads can be inside it at once) taken from the call tables: for each kernel the first `per_kernel` small calls with
    distinct argument content, paired (0,1), (1,2), ..."""
    out = []
    for gname, gen in specs(tier):
        if gname not in groups:
            continue
        got = {}
        for c in gen():
            if c.kernel not in kernels or c.kernel not in THREADSAFE:
                continue
            if sum(a[1].nbytes for a in c.args if a[0] == "a") > max_bytes:
                continue
            L = got.setdefault(c.kernel, [])
            key = tuple(a[1].tobytes() if a[0] == "a" else repr(a[1]) for a in c.args)
            if len(L) < per_kernel * 7 and key not in [k for k, _ in L]:
                L.append((key, c))
        for k, L in got.items():
            L = [c for _, c in L][::7][:per_kernel] if len(L) >= per_kernel * 7 else [c for _, c in L][:per_kernel]
            out += [(L[q], L[q + 1]) for q in range(len(L) - 1)]
    return out
