"""C05 - two indexed reflections determine the correct orientation (Busing-Levy).

Bounded exhaustive exploration: a list of lattices (cubic P/I/F, hexagonal, tetragonal,
orthorhombic, monoclinic, rhombohedral, two triclinic, pseudo-cubic) x generic rotations x ALL ring
pairs (r1 <= r2) among the first rings x ALL hkl pairs on those rings with |cos| < 0.98 (the
library's own collinearity cut-off).  The hkl lists come from the brute-force oracle of C03.
Oracle: the ground-truth UBI.  orient(..., crange>0): some member of UBIlist is lattice-equivalent
to the truth, every member is right-handed with the cell's parameters and indexes g1, g2 with
integers, no two members are lattice-equivalent.  Default nearest-cosine mode: .UBI is
right-handed, has the cell parameters and gives integer hkl to g1 and g2.
"""
from __future__ import annotations
import itertools, os
import numpy as np
from vt.runner import Shard
from vt import oracles as O

LEVEL = "exploration"
RULE = ("cases = (lattice, rotation, ring pair, hkl pair, mode) all enumerated; non-trivial = the pair's cosine class holds "
        ">= 4 hkl pairs or >= 2 candidates are returned (so the duplicate filter is exercised beyond the h,-h symmetry)")
ASSUMPTIONS = ["hkl pairs with |cos| >= 0.98 are outside the supported range (library cut-off) and only counted",
               "ideal (noise-free) g-vectors; lattices and rotations from the stated tables"]

LATTICES = [
    ([4.0, 4.0, 4.0, 90, 90, 90], "P"), ([2.87, 2.87, 2.87, 90, 90, 90], "I"), ([3.6, 3.6, 3.6, 90, 90, 90], "F"),
    ([3.0, 3.0, 5.0, 90, 90, 120], "P"), ([4.0, 4.0, 5.5, 90, 90, 90], "P"), ([3.0, 4.0, 5.0, 90, 90, 90], "P"),
    ([3.0, 4.0, 5.0, 90, 100, 90], "P"), ([5.0, 5.0, 5.0, 60, 60, 60], "P"), ([4.1, 5.2, 6.3, 80, 95, 105], "P"),
    ([3.0, 4.0, 5.0, 70, 80, 110], "P"), ([4.0, 4.0, 4.0002, 90, 90, 90], "P"), ([5.0, 5.0, 13.0, 90, 90, 120], "R"),
    ([3.0, 4.0, 5.0, 90, 90, 90], "C"),
    # large (protein-size) cells: g-vectors of 1e-2 .. 1e-3 per Angstrom, cross products down to 1e-5
    ([150.0, 150.0, 150.0, 90, 90, 90], "P"), ([130.0, 140.0, 400.0, 90, 90, 90], "P"),
    # pseudo-cubic with ring splittings of 1e-3 .. 4e-3 (between the default ring tolerance and the ones users set)
    ([4.0, 4.0, 4.02, 90, 90, 90], "P"),
]


def plan(tier, seed):
    nr = 6 if tier == "quick" else 9
    nrot = 3 if tier == "quick" else 6
    shards = []
    for li in range(len(LATTICES)):
        for ri in range(nrot):
            for r1 in range(nr):
                shards.append(("pairs", li, ri, r1, nr))
    for ri in range(3):
        shards.append(("farout", ri))
    k = seed % len(shards)
    return shards[k:] + shards[:k]


def seed_of():
    return int(os.environ.get("VERIF_SEED", "0") or 0)


_cache = {}


def setup(li, nr):
    from ImageD11 import unitcell as ucm
    key = (li, nr)
    if key in _cache:
        return _cache[key]
    cell, sym = LATTICES[li]
    # pick a limit that yields at least nr rings
    B = O.cell_to_B(cell)
    scale = 1.0 if min(cell[:3]) < 20 else 4.0 / min(cell[:3])
    dsmax = 0.3 * scale
    while True:
        want, _ = O.brute_hkls(cell, sym, dsmax)
        ds_sorted = sorted(set(round(d / scale, 5) for d in want.values()))
        if len(ds_sorted) >= nr + 1:
            break
        dsmax += 0.05 * scale
    tol = 1e-4 * scale
    uc = ucm.unitcell(cell, sym)
    uc.makerings(dsmax, tol)
    rings = []
    for r in range(min(nr, len(uc.ringds))):
        d = uc.ringds[r]
        rings.append([h for h, dd in want.items() if abs(dd - d) < tol + 1e-12 and d - 1e-12 <= dd])
    _cache[key] = (uc, rings, B)
    return _cache[key]


RINGTOL = 1e-4


def check_candidate(ubi, cell, g1, g2, need_integer=True):
    if np.linalg.det(ubi) <= 0:
        return "left-handed"
    cp = O.metric_to_cell(np.dot(ubi, ubi.T))
    if np.abs(cp - np.array(cell)).max() > 1e-6:
        return "wrong-cell"
    if need_integer:
        for g in (g1, g2):
            h = np.dot(ubi, g)
            # reflections merged into one ring may differ in d* by up to the ring tolerance: the assigned hkl then
            # has a slightly different length than the observed g (pseudo-symmetric cells)
            slack = 1e-6 + np.abs(h).max() * RINGTOL / np.sqrt(np.dot(g, g))
            if np.abs(h - np.round(h)).max() > slack:
                return "non-integer-hkl"
    return None


def _run_farout(desc):
    """reflections from the OUTERMOST rings of a hexagonal cell at a limit where the Miller indices reach 10 (a quartz-like cell, d* up to
    2.07): pairs across the last rings and within one ring; the candidate list holds the true orientation.  (An index box that is too
    small silently thins out exactly these rings.)"""
    _, ri = desc
    from ImageD11 import unitcell as ucm
    sh = Shard()
    cell, sym, limit, tol = [4.913, 4.913, 5.405, 90, 90, 120], "P", 2.07, 1e-4
    want, B = O.brute_hkls(cell, sym, limit + tol)
    uc = ucm.unitcell(cell, sym)
    uc.makerings(limit, tol)
    ringds = np.array(uc.ringds)
    U = O.generic_rotations(seed_of())[ri]
    UB = np.dot(U, B)
    ubi_true = np.linalg.inv(UB)
    # the rings by the oracle: classes of equal d* (to the ring tolerance) among the last 40 reflections' d*, the six outermost with >= 4 members
    dss = sorted(set(round(d, 6) for d in want.values()))
    outer = []
    for d in reversed(dss):
        mem = [h for h, x in want.items() if abs(x - d) < tol]
        if len(mem) >= 4 and d < limit - 2 * tol:
            outer.append((d, mem))
        if len(outer) >= 6:
            break
    for a in range(len(outer)):
        for b in range(a, min(a + 2, len(outer))):
            (d1, H1), (d2, H2) = outer[a], outer[b]
            r1, r2 = int(np.argmin(np.abs(ringds - d1))), int(np.argmin(np.abs(ringds - d2)))
            for i1 in range(0, len(H1), 5):
                for i2 in range(1, len(H2), 7):
                    h1, h2 = H1[i1], H2[i2]
                    g1, g2 = np.dot(UB, h1), np.dot(UB, h2)
                    c = float(np.dot(g1, g2) / np.sqrt(np.dot(g1, g1) * np.dot(g2, g2)))
                    if abs(c) >= 0.97:
                        continue
                    case = {"kind": "farout", "rot": ri, "h1": list(h1), "h2": list(h2), "ring1": r1, "ring2": r2, "seed": seed_of()}
                    if abs(ringds[r1] - d1) > tol or abs(ringds[r2] - d2) > tol:
                        sh.violation("makerings:outer-ring-missing", case, {"ds": [d1, d2]})
                        continue
                    uc.orient(r1, g1, r2, g2, crange=1e-4)
                    cands = list(uc.UBIlist)
                    if not cands:
                        sh.violation("orient:empty-candidate-list", dict(case, crange=1e-4), {})
                    elif not any(O.lattice_equivalent(u, ubi_true) for u in cands):
                        sh.violation("orient:true-orientation-not-among-candidates", dict(case, crange=1e-4), {"n_candidates": len(cands)})
                    sh.evaluations += 1
                    sh.nontrivial += 1
    sh.outcomes.add(("farout", ri))
    sh.sample({"kind": "farout", "rot": ri, "max_index": int(max(max(abs(x) for x in h) for d, H in outer for h in H))}, limit=1)
    return sh


def run_shard(desc):
    if desc[0] == "farout":
        return _run_farout(desc)
    _, li, ri, r1, nr = desc
    sh = Shard()
    uc, rings, B = setup(li, nr)
    cell, sym = LATTICES[li]
    U = O.generic_rotations(seed_of())[ri]
    UB = np.dot(U, B)
    ubi_true = np.linalg.inv(UB)
    gi = np.linalg.inv(O.cell_metric(cell))
    if r1 >= len(rings):
        return sh
    kept = kept_copy = None
    for r2 in range(r1, len(rings)):
        H1, H2 = rings[r1], rings[r2]
        # multiplicity of each cosine class (to count non-trivial cases)
        a1 = np.array(H1, float); a2 = np.array(H2, float)
        n1 = np.sqrt(np.einsum("ij,jk,ik->i", a1, gi, a1)); n2 = np.sqrt(np.einsum("ij,jk,ik->i", a2, gi, a2))
        cosm = np.dot(a1, np.dot(gi, a2.T)) / np.outer(n1, n2)
        flat = np.sort(cosm.ravel())
        for i1, h1 in enumerate(H1):
            for i2, h2 in enumerate(H2):
                c = cosm[i1, i2]
                if abs(c) >= 0.98:
                    sh.count("pairs_outside_supported_range")
                    continue
                if 0.98 - abs(c) < 1e-7:
                    sh.borderline += 1
                    continue
                g1 = np.dot(UB, h1); g2 = np.dot(UB, h2)
                g1_in, g2_in, B_in = g1.copy(), g2.copy(), np.array(uc.B, float).copy()
                mult = int(np.searchsorted(flat, c + 5e-9) - np.searchsorted(flat, c - 5e-9))
                case = {"lattice": li, "cell": cell, "sym": sym, "rot": ri, "ring1": r1, "ring2": r2, "h1": list(h1), "h2": list(h2),
                        "seed": seed_of()}
                for crange in (1e-6, 0.004) + ((0.3,) if (r2 <= 3 and (i1 + i2) % 3 == 0) else ()):
                    # 0.3: a window wide enough to hold several different angle classes (many candidates, repeats among them)
                    uc.orient(r1, g1, r2, g2, crange=crange)
                    cands = list(uc.UBIlist)
                    cc = dict(case, crange=crange)
                    if not cands:
                        sh.violation("orient:empty-candidate-list", cc, {})
                        continue
                    bad = None
                    for u in cands:
                        bad = check_candidate(u, cell, g1, g2, need_integer=False)
                        if bad:
                            sh.violation("orient:candidate-" + bad, cc, {"ubi": u})
                            break
                    if bad:
                        continue
                    if not any(O.lattice_equivalent(u, ubi_true) for u in cands):
                        hk = [np.round(np.dot(u, np.dot(UB, [1.0, 2.0, 3.0])), 3) for u in cands[:3]]
                        sh.violation("orient:true-orientation-not-among-candidates", cc,
                                     {"n_candidates": len(cands), "hkl_of_true_(1,2,3)_in_first_candidates": hk})
                        continue
                    dup = False
                    for a, b in itertools.combinations(range(len(cands)), 2):
                        if O.lattice_equivalent(cands[a], cands[b]):
                            sh.violation("orient:two-candidates-describe-the-same-lattice", cc, {"a": cands[a], "b": cands[b]})
                            dup = True
                            break
                    sh.evaluations += 1
                    if mult >= 4 or len(cands) >= 2:
                        sh.nontrivial += 1
                    sh.outcomes.add((len(cands) if len(cands) < 6 else 6, crange))
                    if crange > 1e-3:
                        kept, kept_copy = cands, [u.copy() for u in cands]
                # the same two reflections presented in the other ring order, on the same unitcell object (its pair cache
                # must keep the two orders apart)
                if r1 != r2:
                    uc.orient(r2, g2, r1, g1, crange=1e-6)
                    cands = list(uc.UBIlist)
                    cc = dict(case, crange=1e-6, order="ring2-first")
                    if not cands or any(check_candidate(u, cell, g1, g2, need_integer=False) for u in cands):
                        sh.violation("orient[reversed ring order]:bad-candidate", cc, {"n": len(cands)})
                    elif not any(O.lattice_equivalent(u, ubi_true) for u in cands):
                        sh.violation("orient[reversed ring order]:true-orientation-not-among-candidates", cc, {"n_candidates": len(cands)})
                    sh.evaluations += 1
                    if mult >= 4:
                        sh.nontrivial += 1
                # the documented Busing-Levy construction in python (orient_BL) and the C fast path (quickorient with the cached
                # BT matrix) must give the same matrix for the same indexed pair
                from ImageD11 import unitcell as _ucm, cImageD11 as _cI
                ubi_bl, ub_bl = _ucm.orient_BL(uc.B, np.array(h1, float), np.array(h2, float), g1, g2)
                BT = _ucm.BTmat(np.array(h1, float), np.array(h2, float), uc.B, np.linalg.inv(uc.B))
                ubi_q = np.zeros((3, 3)); ubi_q[0] = g1; ubi_q[1] = g2
                _cI.quickorient(ubi_q, BT)
                if np.abs(ubi_q - ubi_bl).max() > 1e-9 * np.abs(ubi_bl).max() or not O.lattice_equivalent(ubi_bl, ubi_true):
                    sh.violation("quickorient-differs-from-orient_BL-or-truth", case, {"quickorient": ubi_q, "orient_BL": ubi_bl})
                # default nearest-cosine mode
                uc.orient(r1, g1, r2, g2)
                bad = check_candidate(uc.UBI, cell, g1, g2)
                if bad:
                    sh.violation("orient-default:" + bad, dict(case, crange=-1), {"ubi": uc.UBI})
                elif mult == 1 and not O.lattice_equivalent(uc.UBI, ubi_true):
                    sh.violation("orient-default:unambiguous-pair-gives-wrong-orientation", dict(case, crange=-1), {"ubi": uc.UBI})
                sh.evaluations += 1
                if mult >= 4:
                    sh.nontrivial += 1
                # none of these calls may write into the caller's g-vectors or into the cell's B matrix
                if not (np.array_equal(g1, g1_in) and np.array_equal(g2, g2_in) and np.array_equal(np.array(uc.B, float), B_in)):
                    sh.violation("orient:modifies-the-g-vectors-it-is-given-or-the-B-matrix", case,
                                 {"g_changed": not (np.array_equal(g1, g1_in) and np.array_equal(g2, g2_in))})
                    g1[...] = g1_in; g2[...] = g2_in
                # history: a candidate list the caller kept from an earlier call is not rewritten by later calls on the same object
                if kept is not None and any(not np.array_equal(a, b) for a, b in zip(kept, kept_copy)):
                    sh.violation("orient:candidate-list-from-an-earlier-call-was-overwritten-by-later-calls", dict(case, crange=0.004), {"n": len(kept)})
                    kept = None
        sh.sample({"lattice": LATTICES[li], "ring_pair": [r1, r2], "pairs": len(H1) * len(H2)}, limit=1)
    # history: the ring table of the SAME unitcell object is rebuilt with another limit and ring tolerance (the pair cache must be
    # invalidated), then some pairs are oriented again
    if r1 == 0 and len(rings) >= 2:
        from ImageD11 import unitcell as _ucm2
        uc2 = _ucm2.unitcell(cell, sym)
        lim0 = uc.ringds[min(len(uc.ringds) - 1, nr)] + 1e-3
        for (lim, tol) in ((lim0, 1e-4), (lim0 * 0.8, 2e-3), (lim0 * 1.1, 1e-5), (lim0, 1e-4), (lim0, 5e-3), (lim0, 5e-3), (lim0, 5e-3)):
            uc2.makerings(lim, tol)
            for ra in range(min(2, len(uc2.ringds))):
                for rb in range(ra, min(3, len(uc2.ringds))):
                    Ha = [tuple(int(x) for x in h) for h in uc2.ringhkls[uc2.ringds[ra]]]
                    Hb = [tuple(int(x) for x in h) for h in uc2.ringhkls[uc2.ringds[rb]]]
                    for h1 in Ha[:4]:
                        for h2 in Hb[:6]:
                            a1, a2 = np.array(h1, float), np.array(h2, float)
                            c = np.dot(a1, np.dot(gi, a2)) / np.sqrt(np.dot(a1, np.dot(gi, a1)) * np.dot(a2, np.dot(gi, a2)))
                            if abs(c) >= 0.979:
                                continue
                            g1, g2 = np.dot(UB, a1), np.dot(UB, a2)
                            uc2.orient(ra, g1, rb, g2, crange=1e-6)
                            cands = list(uc2.UBIlist)
                            if not any(O.lattice_equivalent(u, ubi_true) for u in cands):
                                sh.violation("orient[after ring table rebuilt]:true-orientation-not-among-candidates",
                                             {"lattice": li, "cell": cell, "sym": sym, "rot": ri, "ring1": ra, "ring2": rb, "h1": list(h1), "h2": list(h2),
                                              "seed": seed_of(), "history": "makerings(%g,%g) after earlier tables" % (lim, tol)}, {"n_candidates": len(cands)})
                            sh.evaluations += 1
                            sh.nontrivial += 1
    # history across OBJECTS: another unit cell with the same six parameters but a different centring is used first (same process, same
    # ring numbers, default ring tolerance); the ring numbers of the two objects mean different reflections
    if r1 == 0 and len(rings) >= 2:
        from ImageD11 import unitcell as _ucm3
        other = {"P": "I", "I": "F", "F": "P", "C": "P", "R": "P", "A": "P", "B": "P"}[sym]
        lim0 = uc.ringds[min(len(uc.ringds) - 1, nr)] + 1e-3
        ua = _ucm3.unitcell(cell, other)
        ua.makerings(lim0)
        for ra in range(min(2, len(ua.ringds))):
            for rb in range(ra, min(3, len(ua.ringds))):
                ha = np.array(ua.ringhkls[ua.ringds[ra]][0], float); hb = np.array(ua.ringhkls[ua.ringds[rb]][-1], float)
                try:
                    ua.orient(ra, np.dot(UB, ha), rb, np.dot(UB, hb), crange=1e-6)
                except Exception:
                    pass
        ub_ = _ucm3.unitcell(cell, sym)
        ub_.makerings(lim0)
        for ra in range(min(2, len(ub_.ringds))):
            for rb in range(ra, min(3, len(ub_.ringds))):
                Ha = [tuple(int(x) for x in h) for h in ub_.ringhkls[ub_.ringds[ra]]]
                Hb = [tuple(int(x) for x in h) for h in ub_.ringhkls[ub_.ringds[rb]]]
                for h1 in Ha[:3]:
                    for h2 in Hb[:4]:
                        a1, a2 = np.array(h1, float), np.array(h2, float)
                        c = np.dot(a1, np.dot(gi, a2)) / np.sqrt(np.dot(a1, np.dot(gi, a1)) * np.dot(a2, np.dot(gi, a2)))
                        if abs(c) >= 0.979:
                            continue
                        ub_.orient(ra, np.dot(UB, a1), rb, np.dot(UB, a2), crange=1e-6)
                        if not any(O.lattice_equivalent(u, ubi_true) for u in ub_.UBIlist):
                            sh.violation("orient[after another centring of the same cell was used]:true-orientation-not-among-candidates",
                                         {"lattice": li, "cell": cell, "sym": sym, "rot": ri, "ring1": ra, "ring2": rb, "h1": list(h1), "h2": list(h2), "seed": seed_of(),
                                          "history": "unitcell(cell, %r) used first" % other}, {"n_candidates": len(ub_.UBIlist)})
                        sh.evaluations += 1
                        sh.nontrivial += 1
    return sh


def replay(case):
    if case.get("kind") == "farout":
        os.environ["VERIF_SEED"] = str(case.get("seed", 0))
        r = _run_farout(("farout", case["rot"]))
        v = [x for x in r.violations if x["case"]["h1"] == case["h1"] and x["case"]["h2"] == case["h2"]]
        return (not v), {"violations": v[:2]}
    os.environ["VERIF_SEED"] = str(case.get("seed", 0))
    r = run_shard(("pairs", case["lattice"], case["rot"], case["ring1"], 9 if case["ring2"] >= 6 else 6))
    v = [x for x in r.violations if x["case"]["h1"] == case["h1"] and x["case"]["h2"] == case["h2"] and x["case"]["ring2"] == case["ring2"]]
    return (not v), {"violations": v[:3]}
