"""C14 - sparse images round-trip and overlap counting is exact.

Bounded exhaustive exploration:
 (i)   ALL masks with >= 1 pixel over shapes up to 3x4 x dtype {uint16, uint32, float32} x cuts:
       from_data_mask, from_data_cut, tosparse_*, mask_to_coo, to_dense; coordinates row-major
       sorted without duplicates (own check and sparse_is_sorted); exact values.
 (ii)  sort() / sort_by() on ALL permutations of frames with <= 6 pixels (two pixel arrays attached).
 (iii) shape edges: 2 x 65534 and 65534 x 2 with pixels in the first/last column/row.
 (iv)  overlaps: ALL ordered pairs of labelled frames over a 2x2 grid with labels in
       {absent,1,2,3} (quick) and over 2x3 (thorough) through overlaps_linear, overlaps_matrix,
       overlaps() and the raw kernels, against a Python dict count.
"""
from __future__ import annotations
import itertools, os
import numpy as np
from vt.runner import Shard

LEVEL = "exploration"
RULE = ("cases enumerated completely over the stated alphabets; non-trivial: (i) masks with >= 2 pixels in >= 2 rows; "
        "(ii) permutations that are not already sorted; (iv) frame pairs sharing >= 2 distinct label pairs")
ASSUMPTIONS = ["empty frames (no pixel) are outside the alphabet: the library represents them as None",
               "labels are 1..3 with nlabel = 3; pixel coordinates < 65535"]


def plan(tier, seed):
    shards = []
    shapes = [(1, 1), (1, 2), (2, 1), (2, 2), (2, 3), (3, 2), (3, 3), (2, 4), (3, 4)] if tier == "quick" else \
        [(1, 1), (1, 2), (2, 1), (2, 2), (2, 3), (3, 2), (3, 3), (2, 4), (4, 2), (3, 4), (4, 3), (2, 6), (4, 4)]
    for shp in shapes:
        n = shp[0] * shp[1]
        nch = max(1, (1 << n) // 1024)
        for c in range(nch):
            shards.append(("round", shp, c, nch))
    for k in range(1, 7 if tier == "quick" else 8):
        shards.append(("sort", k))
    shards.append(("edge",))
    grid = (2, 2) if tier == "quick" else (2, 3)
    nfr = 4 ** (grid[0] * grid[1])
    nch = 16 if tier == "quick" else 256
    for c in range(nch):
        shards.append(("overlap", grid, c, nch))
    for c in range(4):
        shards.append(("overlap_tall", c, 4))
    for c in range(4):
        shards.append(("sched", c, 4, tier))
    shards.append(("overlap_realloc",))
    shards.append(("overlap_large",))
    shards.append(("is_sorted",))
    shards.append(("callers",))
    for c in range(4):
        shards.append(("scanpairs", c, 4, tier))
    for c in range(4):
        shards.append(("scanpairs5", c, 4, tier))
    shards.append(("threads", 1 if tier == "quick" else 2))
    if tier == "quick":
        # a slice of the 2x3 pair space as well (every 64th first frame)
        for c in range(16):
            shards.append(("overlap23", c, 16))
    k = seed % len(shards)
    return shards[k:] + shards[:k]


def sorted_nodup(row, col):
    key = row.astype(np.int64) * 70000 + col.astype(np.int64)
    return bool((np.diff(key) > 0).all())


# --------------------------------------------------------------------------------------------- round trip
def _run_round(desc):
    _, shp, c, nch = desc
    from ImageD11 import sparseframe as sf, cImageD11 as cI
    sh = Shard()
    n = shp[0] * shp[1]
    base = (np.arange(n).reshape(shp) * 37 + 11) % 251 + 5          # distinct-ish positive values >= 5
    for x in range(1 + c, 1 << n, nch):
        mask = np.array([(x >> k) & 1 for k in range(n)], bool).reshape(shp)
        for dt in (np.uint16, np.uint32, np.float32):
            data = base.astype(dt)
            case = {"kind": "round", "shape": list(shp), "mask": x, "dtype": np.dtype(dt).name}
            # --- from_data_mask
            if dt != np.uint32:
                ok = True
                # a mask is "everything > 0": 0/1, bool and other positive flag values select the same pixels
                for flavour, mk in (("int8 0/1", mask.astype(np.int8)), ("bool", mask.copy()), ("int16 0/1", mask.astype(np.int16)), ("int32 0/300", (mask * 300).astype(np.int32)),
                                    ("int64 0/1", mask.astype(np.int64)), ("uint8 0/255", (mask * 255).astype(np.uint8)), ("int8 0/7", (mask * 7).astype(np.int8)),
                                    ("int8 0/127", (mask * 127).astype(np.int8)), ("int8 mixed", (mask * (1 + (np.arange(n).reshape(shp) % 5))).astype(np.int8))):
                    mk_in = mk.copy()
                    spf = sf.from_data_mask(mk, data, {"threshold": 1})
                    if not (np.array_equal(mk, mk_in) and np.array_equal(data, base.astype(dt))):
                        sh.violation("from_data_mask[%s]:modifies-the-image-or-the-mask-it-is-given" % flavour, case, {})
                        mk[...] = mk_in; data[...] = base.astype(dt)
                    ok = _check_frame(sh, "from_data_mask[%s]" % flavour, case, spf, mask, data, cI)
                    if not ok:
                        break
                if not ok:
                    continue
            # --- from_data_cut: cut so that exactly the mask pixels survive: put low values outside the mask
            for cutname, cut in (("middle", 4), ("below_all", 0)):
                d2 = np.where(mask, data, dt(1) if cutname == "middle" else dt(0)).astype(dt)
                want = d2 > cut
                if not want.any():
                    continue
                if dt == np.uint32:
                    row = np.empty(shp, np.uint16); col = np.empty(shp, np.uint16); val = np.empty(shp, np.uint32)
                    nnz = cI.tosparse_u32(d2, np.ones(shp, bool), row, col, val, cut)
                    spf = sf.sparse_frame(row.ravel()[:nnz].copy(), col.ravel()[:nnz].copy(), shp)
                    spf.set_pixels("intensity", val.ravel()[:nnz].copy())
                else:
                    d2_in = d2.copy()
                    spf = sf.from_data_cut(d2, cut)
                    if not np.array_equal(d2, d2_in):
                        sh.violation("from_data_cut:modifies-the-image-it-is-given", dict(case, cut=cut), {})
                        d2[...] = d2_in
                _check_frame(sh, "from_data_cut[%s]" % cutname, dict(case, cut=cut), spf, want, d2, cI)
                # a NaN pixel (dead pixel after flat-field division) is not above any cut
                if dt == np.float32 and want.sum() >= 2 and x % 3 == 0:
                    d3 = d2.copy()
                    d3[tuple(np.argwhere(want)[0])] = np.nan
                    w3 = d3 > cut
                    _check_frame(sh, "from_data_cut[NaN pixel]", dict(case, cut=cut), sf.from_data_cut(d3, cut), w3, np.where(w3, d3, 0).astype(np.float32), cI)
                # detector mask: only pixels allowed by msk may survive
                if dt != np.uint32:
                    dm = np.ones(shp, bool)
                    dm.flat[0] = False
                    if (want & dm).any():
                        spf = sf.from_data_cut(d2, cut, detectormask=dm)
                        _check_frame(sh, "from_data_cut[detectormask]", dict(case, cut=cut), spf, want & dm, d2, cI)
            if dt == np.uint32 and (x % 5 == 0 or n <= 6):
                # 32-bit pixel values beyond 2^24 (not representable as float32): the cut is an integer comparison
                for cut in (2 ** 24 + 2, 2 ** 24 + 4, 2 ** 25 + 8, 2 ** 28, 2 ** 31):
                    inside = (cut + 1 + (np.arange(n).reshape(shp) % 3)).astype(np.uint64)
                    outside = (cut - (np.arange(n).reshape(shp) % 2)).astype(np.uint64)
                    d2 = np.where(mask, inside, outside).astype(np.uint32)
                    want = d2.astype(np.int64) > cut
                    row = np.empty(shp, np.uint16); col = np.empty(shp, np.uint16); val = np.empty(shp, np.uint32)
                    nnz = cI.tosparse_u32(d2, np.ones(shp, bool), row, col, val, cut)
                    if nnz != int(want.sum()):
                        sh.violation("tosparse_u32[large values]:nnz", dict(case, cut=cut), {"nnz": int(nnz), "expected": int(want.sum())})
                        break
                    spf = sf.sparse_frame(row.ravel()[:nnz].copy(), col.ravel()[:nnz].copy(), shp)
                    spf.set_pixels("intensity", val.ravel()[:nnz].copy())
                    if not _check_frame(sh, "tosparse_u32[large values]", dict(case, cut=cut), spf, want, d2, cI):
                        break
            sh.evaluations += 1
            if mask.sum() >= 2 and mask.any(axis=1).sum() >= 2:
                sh.nontrivial += 1
        sh.outcomes.add(int(mask.sum()))
    sh.sample(case, limit=1)
    return sh


def _check_frame(sh, key, case, spf, mask, data, cI):
    if spf.nnz != int(mask.sum()):
        sh.violation(key + ":nnz", case, {"nnz": spf.nnz, "expected": int(mask.sum())})
        return False
    if not sorted_nodup(spf.row, spf.col):
        sh.violation(key + ":not-sorted-or-duplicates", case, {"row": spf.row, "col": spf.col})
        return False
    if cI.sparse_is_sorted(spf.row, spf.col) != 0:
        sh.violation(key + ":sparse_is_sorted-disagrees", case, {"row": spf.row, "col": spf.col})
        return False
    ii, jj = np.nonzero(mask)
    if not (np.array_equal(spf.row, ii) and np.array_equal(spf.col, jj)):
        sh.violation(key + ":coordinates", case, {"row": spf.row, "col": spf.col})
        return False
    if not np.array_equal(spf.pixels["intensity"], data[mask]):
        sh.violation(key + ":values", case, {"values": spf.pixels["intensity"], "expected": data[mask]})
        return False
    dense = spf.to_dense("intensity")
    want = np.where(mask, data, 0).astype(data.dtype)
    if dense.shape != tuple(data.shape) or not np.array_equal(np.asarray(dense), want):
        sh.violation(key + ":to_dense", case, {"dense": np.asarray(dense), "expected": want})
        return False
    # history: a caller-supplied output array still holding another frame must give the same image
    work = np.full(data.shape, 77, spf.pixels["intensity"].dtype)
    d2 = spf.to_dense("intensity", out=work)
    if not np.array_equal(np.asarray(d2), want) or not np.array_equal(np.asarray(work), want):
        sh.violation(key + ":to_dense-with-reused-out-array", case, {"dense": np.asarray(d2), "expected": want})
        return False
    return True


# --------------------------------------------------------------------------------------------- sort
def _run_sort(desc):
    _, k = desc
    from ImageD11 import sparseframe as sf, cImageD11 as cI
    sh = Shard()
    for shp, allcells in (((3, 4), [(0, 0), (0, 3), (1, 1), (1, 2), (2, 0), (2, 3), (0, 1), (2, 2)]),
                          # a frame much wider than high (pixels at columns beyond the number of rows) and a tall one
                          ((3, 40), [(0, 0), (0, 39), (1, 1), (1, 38), (2, 0), (2, 17), (0, 5), (2, 2)]),
                          ((40, 3), [(0, 0), (39, 2), (1, 1), (38, 0), (2, 0), (17, 2), (5, 1), (2, 2)])):
        _sort_shape(sh, sf, cI, shp, allcells[:k], k)
    sh.outcomes.add(k)
    return sh


def _sort_shape(sh, sf, cI, shp, cells, k):
    cells_sorted = sorted(cells)
    for perm in itertools.permutations(range(k)):
        order = [cells_sorted[p] for p in perm]
        row = np.array([c[0] for c in order], np.uint16)
        col = np.array([c[1] for c in order], np.uint16)
        inten = np.array([10.0 * c[0] + c[1] + 0.5 for c in order], np.float32)
        lab = np.array([c[0] * shp[1] + c[1] for c in order], np.int32)
        case = {"kind": "sort", "shape": list(shp), "cells": [list(c) for c in order]}
        for method in ("sort", "sort_by", "from_data_mask,reorder,sort", "sort,reorder,sort", "sort_by(descending key),sort",
                       "sort[pixels carry row and col too, as SparseScan.getframe hands frames out]", "sort[pixel arrays are columns of one table]"):
            fr = sf.sparse_frame(row.copy(), col.copy(), shp, pixels={"intensity": inten.copy(), "lab": lab.copy()})
            try:
                if method.startswith("sort[pixels carry"):
                    r_, c_ = row.copy(), col.copy()
                    fr = sf.sparse_frame(r_[0:], c_[0:], shp, pixels={"row": r_[0:], "col": c_[0:], "intensity": inten.copy(), "lab": lab.copy()})
                    fr.sort()
                elif method.startswith("sort[pixel arrays are columns"):
                    table = np.empty((k, 2), np.float32)
                    table[:, 0] = inten
                    table[:, 1] = lab
                    fr = sf.sparse_frame(row.copy(), col.copy(), shp, pixels={"intensity": table[:, 0], "lab": table[:, 1]})
                    fr.sort()
                elif method == "sort":
                    fr.sort()
                elif method == "sort_by":
                    fr.sort_by("lab")      # lab is monotone in (row, col): same target order
                elif method == "from_data_mask,reorder,sort":
                    # histories: a frame that WAS in order (made by the converter, or sorted before) is scrambled with the public
                    # reorder() and sorted again
                    if k == 0:
                        continue
                    img = np.zeros(shp, np.float32)
                    for c in cells_sorted:
                        img[c] = 10.0 * c[0] + c[1] + 0.5
                    fr = sf.from_data_mask(img > 0, img, {})
                    fr.set_pixels("lab", np.array([c[0] * shp[1] + c[1] for c in cells_sorted], np.int32))
                    fr.reorder(np.array(perm))
                    fr.sort()
                elif method == "sort,reorder,sort":
                    fr.sort()
                    fr.reorder(np.array(perm))
                    fr.sort()
                else:
                    fr.set_pixels("neg", -lab.copy())
                    fr.sort_by("neg")
                    fr.sort()
            except Exception as e:
                sh.violation("sparse_frame.%s:raises" % method, dict(case, method=method), {"error": "%s: %s" % (type(e).__name__, e)})
                continue
            wr = np.array([c[0] for c in cells_sorted]); wc = np.array([c[1] for c in cells_sorted])
            if not (np.array_equal(fr.row, wr) and np.array_equal(fr.col, wc)):
                sh.violation("sparse_frame.%s:order" % method, dict(case, method=method), {"row": fr.row, "col": fr.col})
                continue
            wi = np.array([10.0 * c[0] + c[1] + 0.5 for c in cells_sorted], np.float32)
            wl = np.array([c[0] * shp[1] + c[1] for c in cells_sorted], np.int32)
            if not (np.array_equal(fr.pixels["intensity"], wi) and np.array_equal(fr.pixels["lab"], wl)):
                sh.violation("sparse_frame.%s:values-detached" % method, dict(case, method=method),
                             {"intensity": fr.pixels["intensity"], "lab": fr.pixels["lab"]})
                continue
            if k > 0 and cI.sparse_is_sorted(fr.row, fr.col) != 0:
                sh.violation("sparse_frame.%s:not-sorted-after" % method, dict(case, method=method), {})
        sh.evaluations += 1
        if list(perm) != sorted(perm):
            sh.nontrivial += 1
    sh.sample(case, limit=1)


# --------------------------------------------------------------------------------------------- edges
def _run_edge(desc):
    from ImageD11 import sparseframe as sf, cImageD11 as cI
    sh = Shard()
    for shp in ((2, 65534), (65534, 2), (1, 65534), (65534, 1), (3, 40000)):
        for dt in (np.uint16, np.float32):
            data = np.zeros(shp, dt)
            pts = [(0, 0), (shp[0] - 1, shp[1] - 1), (0, shp[1] - 1), (shp[0] - 1, 0), (shp[0] // 2, shp[1] // 2)]
            mask = np.zeros(shp, bool)
            for k, (a, b) in enumerate(pts):
                data[a, b] = 100 + k
                mask[a, b] = True
            case = {"kind": "edge", "shape": list(shp), "dtype": np.dtype(dt).name}
            spf = sf.from_data_mask(mask.astype(np.int8), data, {})
            _check_frame(sh, "from_data_mask", case, spf, mask, data, cI)
            spf = sf.from_data_cut(data, 50)
            _check_frame(sh, "from_data_cut", case, spf, mask, data, cI)
            sh.evaluations += 1
            sh.nontrivial += 1
            sh.sample(case, limit=1)
    return sh


# --------------------------------------------------------------------------------------------- overlaps
def frame_from_code(code, grid):
    """code in base 4 over the grid cells: 0 absent, 1..3 label"""
    n = grid[0] * grid[1]
    labs = [(code // (4 ** k)) % 4 for k in range(n)]
    cells = [(k // grid[1], k % grid[1]) for k in range(n) if labs[k]]
    l = [labs[k] for k in range(n) if labs[k]]
    return (np.array([c[0] for c in cells], np.uint16), np.array([c[1] for c in cells], np.uint16),
            np.array(l, np.int32))


def oracle_overlap(f1, f2):
    d1 = {(int(a), int(b)): int(l) for a, b, l in zip(*f1)}
    out = {}
    for a, b, l in zip(*f2):
        k = (int(a), int(b))
        if k in d1:
            out[(d1[k], int(l))] = out.get((d1[k], int(l)), 0) + 1
    return out


def check_pair(sh, mods, f1, f2, case, shape=(4, 4)):
    sf, cI, lin, mat = mods
    want = oracle_overlap(f1, f2)
    n1 = n2 = 3
    r1, c1, l1 = f1
    r2, c2, l2 = f2
    keep = [a_.copy() for a_ in (r1, c1, l1, r2, c2, l2)]
    # linear
    try:
        ne, rcl = lin(r1, c1, l1, n1, r2, c2, l2, n2)
        got = {} if rcl is None else {(int(a), int(b)): int(c) for a, b, c in rcl}
        ndup = 0 if rcl is None else len(rcl) - len(got)
        if got != want or ndup or ne != len(want):
            sh.violation("overlaps_linear:wrong", case, {"got": sorted(got.items()), "expected": sorted(want.items()), "nedge": ne})
    except Exception as e:
        sh.violation("overlaps_linear:raises", case, {"error": "%s: %s" % (type(e).__name__, e)})
    # matrix
    try:
        nov, res = mat(r1, c1, l1, n1, r2, c2, l2, n2)
        got = {(int(a), int(b)): int(c) for a, b, c in res}
        if got != want or nov != len(want) or len(res) != len(got):
            sh.violation("overlaps_matrix:wrong", case, {"got": sorted(got.items()), "expected": sorted(want.items())})
    except Exception as e:
        sh.violation("overlaps_matrix:raises", case, {"error": "%s: %s" % (type(e).__name__, e)})
    # overlaps() on frames
    try:
        fa = sf.sparse_frame(r1, c1, shape, pixels={"labels": l1}); fa.meta["labels"] = {"nlabel": n1}
        fb = sf.sparse_frame(r2, c2, shape, pixels={"labels": l2}); fb.meta["labels"] = {"nlabel": n2}
        m = sf.overlaps(fa, "labels", fb, "labels")
        m = m.tocoo()
        got = {}
        dup = False
        for a, b, c in zip(m.row, m.col, m.data):
            if c == 0:
                continue
            if (int(a) + 1, int(b) + 1) in got:
                dup = True
            got[(int(a) + 1, int(b) + 1)] = int(c)
        if got != want or dup or m.shape != (n1, n2):
            sh.violation("overlaps:wrong", case, {"got": sorted(got.items()), "expected": sorted(want.items()), "shape": m.shape})
    except Exception as e:
        sh.violation("overlaps:raises" + (":disjoint-frames" if not want else ""), case,
                     {"error": "%s: %s" % (type(e).__name__, e), "shared_pixels": sum(want.values())})
    # counting overlaps is a read-only question: the frames (coordinates and label arrays) are what they were
    if not all(np.array_equal(a_, b_) for a_, b_ in zip((r1, c1, l1, r2, c2, l2), keep)):
        sh.violation("overlaps:modifies-the-coordinates-or-labels-of-the-frames-it-is-given", case, {})
        for a_, b_ in zip((r1, c1, l1, r2, c2, l2), keep):
            a_[...] = b_
    # raw sparse_overlaps indices
    k1 = np.full(len(r1), -5, np.int32); k2 = np.full(len(r2), -5, np.int32)
    npx = cI.sparse_overlaps(r1, c1, k1, r2, c2, k2)
    if npx != sum(want.values()) or any((r1[k1[q]], c1[k1[q]]) != (r2[k2[q]], c2[k2[q]]) for q in range(npx)):
        sh.violation("sparse_overlaps:wrong", case, {"npx": npx, "k1": k1, "k2": k2})
    sh.evaluations += 1
    if len(want) >= 2:
        sh.nontrivial += 1
    sh.outcomes.add((len(want), sum(want.values())))


def _mods():
    from ImageD11 import sparseframe as sf, cImageD11 as cI
    return sf, cI, sf.overlaps_linear(nnzmax=16), sf.overlaps_matrix(npkmax=4)


def _run_overlap(desc):
    _, grid, c, nch = desc
    mods = _mods()
    sh = Shard()
    n = grid[0] * grid[1]
    ncode = 4 ** n
    frames = [frame_from_code(x, grid) for x in range(ncode)]
    for a in range(1 + c, ncode, nch):
        for b in range(1, ncode):
            case = {"kind": "overlap", "grid": list(grid), "frame1": a, "frame2": b}
            check_pair(sh, mods, frames[a], frames[b], case)
    sh.sample(case, limit=1)
    return sh


def _run_overlap_realloc(desc):
    """the caching overlap objects start with room for 16 pixels / 4 peaks: frames that force a reallocation, then small frames
    again on the SAME objects"""
    mods = _mods()
    sh = Shard()
    big1 = (np.repeat(np.arange(6), 6).astype(np.uint16), np.tile(np.arange(6), 6).astype(np.uint16), (np.arange(36) % 7 + 1).astype(np.int32))
    big2 = (np.repeat(np.arange(1, 7), 5).astype(np.uint16), np.tile(np.arange(5), 6).astype(np.uint16), (np.arange(30) % 5 + 1).astype(np.int32))
    small = [frame_from_code(x, (2, 2)) for x in (27, 228, 255, 1, 64)]
    seq = [small[0], big1, small[1], big2, big1, small[2], small[3], big2, small[4]]
    sf, cI, lin, mat = mods
    for a in range(len(seq)):
        for b in range(len(seq)):
            f1, f2 = seq[a], seq[b]
            want = oracle_overlap(f1, f2)
            n1, n2 = int(f1[2].max()), int(f2[2].max())
            case = {"kind": "overlap_realloc", "first": a, "second": b}
            import io, contextlib
            with contextlib.redirect_stdout(io.StringIO()):
                ne, rcl = lin(f1[0], f1[1], f1[2], n1, f2[0], f2[1], f2[2], n2)
                nov, res = mat(f1[0], f1[1], f1[2], n1, f2[0], f2[1], f2[2], n2)
            got = {} if rcl is None else {(int(x), int(y)): int(z) for x, y, z in rcl}
            got2 = {(int(x), int(y)): int(z) for x, y, z in res}
            if got != want:
                sh.violation("overlaps_linear:wrong-after-reallocation", case, {"got": sorted(got.items())[:6], "expected": sorted(want.items())[:6]})
            if got2 != want:
                sh.violation("overlaps_matrix:wrong-after-reallocation", case, {"got": sorted(got2.items())[:6], "expected": sorted(want.items())[:6]})
            sh.evaluations += 1
            sh.nontrivial += 1
    sh.sample(case, limit=1)
    return sh


def _run_is_sorted(desc):
    """sparse_is_sorted (what decides whether a frame is accepted as sorted and free of duplicates): frames of 1 .. 70 pixels in row-major
    order with ONE defect - a duplicated coordinate or a descending pair - at EVERY position: 0 for the ordered frame, non-zero for
    every defective one, wherever the defect sits"""
    from ImageD11 import cImageD11 as cI
    sh = Shard()
    width = 9
    for n in list(range(1, 71)):
        flat = np.arange(n) * 2 + 3                  # row-major positions with gaps, several rows
        row = (flat // width).astype(np.uint16)
        col = (flat % width).astype(np.uint16)
        if cI.sparse_is_sorted(row, col) != 0:
            sh.violation("sparse_is_sorted:ordered-frame-rejected", {"kind": "is_sorted", "npixels": n, "defect": None}, {})
        sh.evaluations += 1
        for k in range(1, n):
            for kind in ("duplicate", "descending", "row-descending"):
                r, c = row.copy(), col.copy()
                if kind == "duplicate":
                    r[k], c[k] = r[k - 1], c[k - 1]
                elif kind == "descending":
                    r[k - 1], r[k] = row[k], row[k - 1]
                    c[k - 1], c[k] = col[k], col[k - 1]
                else:
                    if row[k] == 0:
                        continue
                    r[k] = row[k - 1] - 1 if row[k - 1] > 0 else 0
                    if r[k] >= row[k - 1]:
                        continue
                ordered = all((int(r[q]), int(c[q])) > (int(r[q - 1]), int(c[q - 1])) for q in range(1, n))
                got = cI.sparse_is_sorted(r, c)
                if (got == 0) != ordered:
                    sh.violation("sparse_is_sorted:defect-not-reported" if not ordered else "sparse_is_sorted:ordered-frame-rejected",
                                 {"kind": "is_sorted", "npixels": n, "defect": kind, "at": k}, {"returned": int(got)})
                sh.evaluations += 1
                sh.nontrivial += 1
    sh.outcomes.add("is_sorted")
    sh.sample({"kind": "is_sorted", "frames": int(sh.evaluations)}, limit=1)
    return sh


def _run_overlap_large(desc):
    """two labels sharing 65535, 65536, 65537+ ... pixels (regions of 256 x 256 and more on both frames): the count is exact - it does not
    wrap at 16 bits - and the same for the linear algorithm, the matrix algorithm and overlaps()"""
    sf, cI, lin, mat = _mods()
    import io, contextlib
    sh = Shard()

    def block(r0, c0, nr, nc, lab):
        rr, cc = np.meshgrid(np.arange(r0, r0 + nr), np.arange(c0, c0 + nc), indexing="ij")
        return rr.ravel().astype(np.uint16), cc.ravel().astype(np.uint16), np.full(nr * nc, lab, np.int32)

    def frame(blocks):
        r = np.concatenate([b[0] for b in blocks]); c = np.concatenate([b[1] for b in blocks]); l = np.concatenate([b[2] for b in blocks])
        o = np.lexsort((c, r))
        return r[o], c[o], l[o]
    # (blocks of frame 1, blocks of frame 2): label 2 of frame 1 is a small square elsewhere, so there is always a second pair / no pair
    cases = [("255x257 identical", [(0, 0, 255, 257, 1)], [(0, 0, 255, 257, 1)]), ("256x256 identical", [(0, 0, 256, 256, 1)], [(0, 0, 256, 256, 1)]),
             ("256x257 identical", [(3, 5, 256, 257, 1)], [(3, 5, 256, 257, 2)]), ("280x360 shifted by 2", [(0, 0, 280, 360, 1)], [(2, 2, 280, 360, 2)]),
             ("512x256 identical", [(0, 0, 512, 256, 2)], [(0, 0, 512, 256, 1)]), ("256x256 inside 300x300", [(10, 10, 256, 256, 1)], [(0, 0, 300, 300, 1)])]
    for name, b1, b2 in cases:
        f1 = frame([block(*b) for b in b1] + [block(400, 400, 3, 3, 3)])
        f2 = frame([block(*b) for b in b2] + [block(401, 401, 3, 3, 3)])
        k1 = f1[0].astype(np.int64) * 70000 + f1[1]
        k2 = f2[0].astype(np.int64) * 70000 + f2[1]
        common, i1, i2 = np.intersect1d(k1, k2, return_indices=True)
        want = {}
        for a, b in zip(f1[2][i1].tolist(), f2[2][i2].tolist()):
            want[(a, b)] = want.get((a, b), 0) + 1
        case = {"kind": "overlap_large", "regions": name}
        with contextlib.redirect_stdout(io.StringIO()):
            ne, rcl = lin(f1[0], f1[1], f1[2], 3, f2[0], f2[1], f2[2], 3)
            nov, res = mat(f1[0], f1[1], f1[2], 3, f2[0], f2[1], f2[2], 3)
            fa = sf.sparse_frame(f1[0], f1[1], (600, 600), pixels={"labels": f1[2]}); fa.meta["labels"] = {"nlabel": 3}
            fb = sf.sparse_frame(f2[0], f2[1], (600, 600), pixels={"labels": f2[2]}); fb.meta["labels"] = {"nlabel": 3}
            m = sf.overlaps(fa, "labels", fb, "labels").tocoo()
        got = {} if rcl is None else {(int(x), int(y)): int(z) for x, y, z in rcl}
        got2 = {(int(x), int(y)): int(z) for x, y, z in res}
        got3 = {(int(a) + 1, int(b) + 1): int(c) for a, b, c in zip(m.row, m.col, m.data) if c != 0}
        for key, g in (("overlaps_linear", got), ("overlaps_matrix", got2), ("overlaps", got3)):
            if g != want:
                sh.violation("%s:count-of-a-large-shared-region-is-not-exact" % key, case, {"got": sorted(g.items()), "expected": sorted(want.items())})
        sh.evaluations += 1
        sh.nontrivial += 1
        sh.outcomes.add(max(want.values()) >= 65536)
    sh.sample(case, limit=1)
    return sh


def _run_overlap23(desc):
    _, c, nch = desc
    mods = _mods()
    sh = Shard()
    grid = (2, 3)
    ncode = 4 ** 6
    seed = int(os.environ.get("VERIF_SEED", "0") or 0)
    for a in range(1 + (c * 4 + seed) % 64, ncode, 64 * nch // 16 * 16):
        fa = frame_from_code(a, grid)
        for b in range(1, ncode):
            case = {"kind": "overlap", "grid": list(grid), "frame1": a, "frame2": b}
            check_pair(sh, mods, fa, frame_from_code(b, grid), case)
    return sh


TALL = [(0, 5), (32767, 65533), (32768, 0), (32768, 7), (40000, 7), (65533, 65533), (100, 5)]


def _run_overlap_tall(desc):
    """ALL ordered pairs of frames over 7 pixels placed around the 15/16-bit boundaries of the coordinates"""
    _, c, nch = desc
    mods = _mods()
    sh = Shard()
    pts = sorted(TALL)
    frames = []
    for bits in range(1, 1 << len(pts)):
        sel = [k for k in range(len(pts)) if (bits >> k) & 1]
        frames.append((np.array([pts[k][0] for k in sel], np.uint16), np.array([pts[k][1] for k in sel], np.uint16),
                       np.array([1 + (k % 3) for k in sel], np.int32)))
    for a in range(c, len(frames), nch):
        for b in range(len(frames)):
            case = {"kind": "overlap_tall", "frame1": a + 1, "frame2": b + 1}
            check_pair(sh, mods, frames[a], frames[b], case, shape=(65534, 65534))
    sh.sample(case, limit=1)
    return sh


def _run_sched(desc):
    """mask_to_coo (behind from_data_mask) fills the coordinate arrays in two OpenMP loops: all schedules (T = 2, 3, bound 2) of the
    instrumented kernel for every non-empty 3x3 (thorough 3x4) mask must give the row-major coordinates"""
    _, c, nch, tier = desc
    from vt.vrt import VRT, check_schedule_independence
    sh = Shard()
    V = VRT()
    shp = (3, 3) if tier == "quick" else (3, 4)
    n = shp[0] * shp[1]
    for x in range(1 + c, 1 << n, nch):
        mask = np.array([(x >> k) & 1 for k in range(n)], np.int8).reshape(shp)
        nnz = int(mask.sum())
        i = np.full(nnz, 999, np.uint16); j = np.full(nnz, 999, np.uint16); w = np.full(shp[0], -5, np.int32)
        ref, res, bad = check_schedule_independence(V, "mask_to_coo", [mask, shp[0], shp[1], i, j, nnz, w], [], (), [i, j], threads=(2, 3), bound=2)
        case = {"kind": "sched", "shape": list(shp), "mask": x}
        ii, jj = np.nonzero(mask)
        gi = np.frombuffer(ref[1], np.uint16); gj = np.frombuffer(ref[2], np.uint16)
        if ref[0] != 0 or not (np.array_equal(gi, ii) and np.array_equal(gj, jj)):
            sh.violation("mask_to_coo[vrt build]:coordinates", case, {"i": gi, "j": gj, "ret": ref[0]})
        for T, sched in bad:
            sh.violation("mask_to_coo:schedule-dependent:T=%d" % T, dict(case, schedule=sched), {})
        for r in res:
            sh.states += r["nodes"]
            sh.transitions += r["nodes"] - 1 + r["executions"]
            sh.count("schedule_executions", r["total_executions"])
            sh.count("conflict_words", r["filter_size"])
        sh.evaluations += 1
        if nnz >= 2:
            sh.nontrivial += 1
    sh.sample({"kind": "sched", "kernel": "mask_to_coo", "shape": list(shp), "threads": [2, 3], "bound": 2}, limit=1)
    return sh


SCAN_MASKS = [0x000, 0x001, 0x800, 0xFFF, 0x0F0, 0x333, 0xA5A, 0x5A5, 0x111, 0x660, 0x909, 0x07E]       # 3x4 frames, bit k = pixel k


def _write_scan(fn, frames, omega):
    import h5py
    rows, cols, nnz = [], [], []
    for m in frames:
        i, j = np.nonzero(m)
        rows.append(i); cols.append(j); nnz.append(len(i))
    with h5py.File(fn, "w") as h:
        g = h.create_group("1.1")
        g.attrs["nframes"] = len(frames); g.attrs["shape0"] = 3; g.attrs["shape1"] = 4
        g["row"] = np.concatenate(rows).astype(np.uint16); g["col"] = np.concatenate(cols).astype(np.uint16)
        # all above zero and all different (no equal-valued neighbours: the local-maximum labelling is well defined on them too)
        ntot = sum(nnz)
        g["intensity"] = (1.0 + (np.arange(ntot) * 7) % 13 + np.arange(ntot) * 1e-3).astype(np.float32); g["nnz"] = np.array(nnz, np.int32)
        g["measurement/rot"] = np.asarray(omega, float)
        g["measurement/dty"] = np.zeros(len(frames))


def _run_scanpairs(desc):
    """the overlap bookkeeping of the peak-merging code (sinograms.properties.pairrow / pairscans, built on overlaps_linear): scans of
    three 3x4 frames (every ordered triple of 12 masks; quick: a quarter) stored in HDF5 with the frames NOT in omega order; every
    consecutive pair in omega order, and every omega-matched pair of two scans, is listed once with exactly the shared pixels per
    label pair; empty frames are skipped"""
    _, c, nch, tier = desc
    import shutil
    from ImageD11 import sparseframe as sf
    from ImageD11.sinograms import properties as PR
    sh = Shard()
    wd = os.path.join(os.path.dirname(os.path.dirname(os.path.dirname(os.path.abspath(__file__)))), ".work", "c14_sp_%d" % os.getpid())
    os.makedirs(wd, exist_ok=True)
    masks = [np.array([(x >> k) & 1 for k in range(12)], bool).reshape(3, 4) for x in SCAN_MASKS]
    omega = np.array([20.0, 10.0, 30.0])            # stored order is not the omega order

    def labelled(fn):
        s_ = sf.SparseScan(fn, "1.1")
        s_.cplabel(threshold=0, countall=False)
        return s_

    def frame_of(s_, i):
        a, b = s_.ipt[i], s_.ipt[i + 1]
        return (s_.row[a:b], s_.col[a:b], s_.labels[a:b])

    def same(ans, want):
        ne, rcl = ans
        got = {} if rcl is None else {(int(a), int(b)): int(n_) for a, b, n_ in rcl}
        return ne == len(want) and got == want and (rcl is None or len(rcl) == len(got))
    try:
        idx = 0
        for trip in itertools.product(range(len(masks)), repeat=3):
            idx += 1
            if idx % nch != c or (tier == "quick" and (idx // nch) % 4 != 0):
                continue
            fn = os.path.join(wd, "a.h5")
            _write_scan(fn, [masks[t] for t in trip], omega)
            s1 = labelled(fn)
            case = {"kind": "scanpairs", "frames": [SCAN_MASKS[t] for t in trip], "omega": omega.tolist()}
            pairs = PR.pairrow(s1, 7)
            order = [1, 0, 2]
            want = {}
            for a, b in ((order[0], order[1]), (order[1], order[2])):
                if s1.nnz[a] and s1.nnz[b]:
                    want[(7, a, 7, b)] = oracle_overlap(frame_of(s1, a), frame_of(s1, b))
            if set(pairs) != set(want):
                sh.violation("pairrow:wrong-set-of-frame-pairs", case, {"got": sorted(map(list, pairs)), "expected": sorted(map(list, want))})
            elif any(not same(pairs[k], want[k]) for k in want):
                k = [k for k in want if not same(pairs[k], want[k])][0]
                sh.violation("pairrow:overlaps-wrong", dict(case, pair=list(k)), {"got": pairs[k], "expected": sorted(want[k].items())})
            # a second scan row: the same three frames rotated by one, omegas 360 degrees later and 0.03 off (inside the tolerance)
            fn2 = os.path.join(wd, "b.h5")
            om2 = np.array([370.03, 380.0, 399.0])       # 10.03 matches 10, 20 matches 20, 39 matches nothing
            _write_scan(fn2, [masks[trip[1]], masks[trip[2]], masks[trip[0]]], om2)
            s2 = labelled(fn2)
            s2.sinorow = 8
            got2 = PR.pairscans(s1, s2)
            want2 = {}
            for i, j in ((0, 1), (1, 0)):            # s1 frame 0 (omega 20) <-> s2 frame 1 (380); s1 frame 1 (10) <-> s2 frame 0 (370.03)
                if s1.nnz[i] and s2.nnz[j]:
                    want2[(7, i, 8, j)] = oracle_overlap(frame_of(s1, i), frame_of(s2, j))
            if set(got2) != set(want2):
                sh.violation("pairscans:wrong-set-of-frame-pairs", case, {"got": sorted(map(list, got2)), "expected": sorted(map(list, want2))})
            elif any(not same(got2[k], want2[k]) for k in want2):
                k = [k for k in want2 if not same(got2[k], want2[k])][0]
                sh.violation("pairscans:overlaps-wrong", dict(case, pair=list(k)), {"got": got2[k], "expected": sorted(want2[k].items())})
            # history on ONE scan object: labelled a second time in another way (by local maxima instead of connected components; labels
            # per frame both times, as the overlap code requires), then asked again: the overlaps are those of the labelling the object
            # carries NOW (= a fresh object labelled that way)
            if idx % 3 == 0:
                s1.lmlabel(threshold=0, countall=False, smooth=False)
                again = PR.pairrow(s1, 7)
                fresh_ = sf.SparseScan(fn, "1.1")
                fresh_.lmlabel(threshold=0, countall=False, smooth=False)
                ref_ = PR.pairrow(fresh_, 7)

                def as_dict(ans):
                    return (ans[0], None if ans[1] is None else sorted((int(a), int(b), int(n_)) for a, b, n_ in ans[1]))
                if set(again) != set(ref_) or any(as_dict(again[k]) != as_dict(ref_[k]) for k in ref_):
                    sh.violation("pairrow[scan labelled a second time]:overlaps-are-not-those-of-the-current-labels", dict(case, history=["cplabel(countall=False)", "pairrow", "lmlabel(countall=False)", "pairrow"]),
                                 {"got": {str(k): as_dict(v) for k, v in again.items()}, "expected": {str(k): as_dict(v) for k, v in ref_.items()}})
                s1 = labelled(fn)
                s1.sinorow = 7
            # a third row measured rotating BACKWARDS (zig-zag scans): its frames are stored with omega descending
            fn3 = os.path.join(wd, "c.h5")
            om3 = np.array([399.0, 380.0, 370.03])
            _write_scan(fn3, [masks[trip[0]], masks[trip[2]], masks[trip[1]]], om3)
            s3 = labelled(fn3)
            s3.sinorow = 9
            got3 = PR.pairscans(s1, s3)
            want3 = {}
            for i, j in ((0, 1), (1, 2)):            # s1 frame 0 (omega 20) <-> s3 frame 1 (380); s1 frame 1 (10) <-> s3 frame 2 (370.03)
                if s1.nnz[i] and s3.nnz[j]:
                    want3[(7, i, 9, j)] = oracle_overlap(frame_of(s1, i), frame_of(s3, j))
            case3 = dict(case, second_scan_omega=om3.tolist())
            if set(got3) != set(want3):
                sh.violation("pairscans[second scan rotating backwards]:wrong-set-of-frame-pairs", case3, {"got": sorted(map(list, got3)), "expected": sorted(map(list, want3))})
            elif any(not same(got3[k], want3[k]) for k in want3):
                k = [k for k in want3 if not same(got3[k], want3[k])][0]
                sh.violation("pairscans[second scan rotating backwards]:overlaps-wrong", dict(case3, pair=list(k)), {"got": got3[k], "expected": sorted(want3[k].items())})
            sh.evaluations += 1
            if sum(len(v) for v in want.values()) >= 2:
                sh.nontrivial += 1
            sh.outcomes.add(("scanpairs", len(want), len(want2)))
        sh.sample(case, limit=1)
    finally:
        shutil.rmtree(wd, ignore_errors=True)
    return sh


SCAN5_MASKS = [0x000, 0x0F0, 0x333, 0xA5A]


def _run_scanpairs5(desc):
    """pairrow on scans of FIVE frames, every 5-tuple over {empty, three masks}: empty frames at the start, in the middle, at the end,
    several in a row; stored order is not the omega order; each consecutive non-empty pair in omega order is listed once, under the
    frame numbers it belongs to, with exactly the shared pixels"""
    _, c, nch, tier = desc
    import shutil
    from ImageD11 import sparseframe as sf
    from ImageD11.sinograms import properties as PR
    sh = Shard()
    wd = os.path.join(os.path.dirname(os.path.dirname(os.path.dirname(os.path.abspath(__file__)))), ".work", "c14_s5_%d" % os.getpid())
    os.makedirs(wd, exist_ok=True)
    masks = [np.array([(x >> k) & 1 for k in range(12)], bool).reshape(3, 4) for x in SCAN5_MASKS]
    omega = np.array([20.0, 10.0, 30.0, 50.0, 40.0])
    order = [1, 0, 2, 4, 3]
    try:
        idx = 0
        case = None
        for tup in itertools.product(range(len(masks)), repeat=5):
            idx += 1
            if idx % nch != c:
                continue
            fn = os.path.join(wd, "a.h5")
            _write_scan(fn, [masks[t] for t in tup], omega)
            s1 = sf.SparseScan(fn, "1.1")
            s1.cplabel(threshold=0, countall=False)
            case = {"kind": "scanpairs5", "frames": [SCAN5_MASKS[t] for t in tup], "omega": omega.tolist()}
            pairs = PR.pairrow(s1, 7)
            want = {}
            for a, b in zip(order[:-1], order[1:]):
                if s1.nnz[a] and s1.nnz[b]:
                    fa = (s1.row[s1.ipt[a]:s1.ipt[a + 1]], s1.col[s1.ipt[a]:s1.ipt[a + 1]], s1.labels[s1.ipt[a]:s1.ipt[a + 1]])
                    fb = (s1.row[s1.ipt[b]:s1.ipt[b + 1]], s1.col[s1.ipt[b]:s1.ipt[b + 1]], s1.labels[s1.ipt[b]:s1.ipt[b + 1]])
                    want[(7, a, 7, b)] = oracle_overlap(fa, fb)

            def same(ans, w):
                ne, rcl = ans
                got = {} if rcl is None else {(int(a_), int(b_)): int(n_) for a_, b_, n_ in rcl}
                return ne == len(w) and got == w and (rcl is None or len(rcl) == len(got))
            if set(pairs) != set(want):
                sh.violation("pairrow:wrong-set-of-frame-pairs", case, {"got": sorted(map(list, pairs)), "expected": sorted(map(list, want))})
            elif any(not same(pairs[k], want[k]) for k in want):
                k = [k for k in want if not same(pairs[k], want[k])][0]
                sh.violation("pairrow:overlaps-wrong", dict(case, pair=list(k)), {"got": pairs[k], "expected": sorted(want[k].items())})
            sh.evaluations += 1
            if 0 in tup and len(want) >= 2:
                sh.nontrivial += 1
            sh.outcomes.add(("scanpairs5", len(want)))
        if case:
            sh.sample(case, limit=1)
    finally:
        shutil.rmtree(wd, ignore_errors=True)
    return sh


def _run_threads(desc):
    """two python threads turn two different images of the same shape and type into sparse frames at the same time (one worker per
    frame of a scan; the compiled kernels release the GIL): every schedule with one preemption at a statement of the sparseframe module
    is executed (engine E7); each caller must receive exactly the selected pixels of ITS image"""
    from ImageD11 import sparseframe as sf, cImageD11 as cI
    from vt import pysched
    sh = Shard()
    modfile = sf.__file__
    shp = (4, 5)
    k = np.arange(20).reshape(shp)
    imgs = {"u16": [((k * 7 + 3) % 23).astype(np.uint16), ((k * 11 + 5) % 19).astype(np.uint16)],
            "f32": [((k * 5 + 1) % 17).astype(np.float32), ((k * 3 + 2) % 13).astype(np.float32) + 0.5]}
    cut = 9
    for mode in ("from_data_cut:u16", "from_data_cut:f32", "from_data_mask", "from_data_cut+from_data_mask"):
        dt = "f32" if mode.endswith("f32") else "u16"
        A, B = imgs[dt]

        def conv(img, how):
            if how == "cut":
                return sf.from_data_cut(img, cut)
            return sf.from_data_mask(img > cut, img, {})

        hows = {"from_data_mask": ("mask", "mask"), "from_data_cut+from_data_mask": ("cut", "mask")}.get(mode, ("cut", "cut"))

        def make():
            return [lambda: conv(A, hows[0]), lambda: conv(B, hows[1])]
        nexec = 0
        for sw, res, err in pysched.explore(make, lambda fr: fr.f_code.co_filename == modfile, bound=(desc[1] if len(desc) > 1 else 1), max_exec=4000 if len(desc) < 2 or desc[1] == 1 else 40000):
            nexec += 1
            case = {"kind": "threads", "mode": mode, "switch_at_points": list(sw)}
            for t, img in enumerate((A, B)):
                if err[t] is not None:
                    sh.violation("sparse-conversion:concurrent-call-raises", dict(case, thread=t), {"error": repr(err[t])[:200]})
                    break
                spf = res[t]
                n0 = len(sh.violations)
                _check_frame(sh, "sparse-conversion-in-two-threads[%s]" % mode, dict(case, thread=t), spf, img > cut, img, cI)
                if len(sh.violations) > n0:
                    break
            sh.states += 1
            sh.traces_validated += 1
            if sh.violations:
                break
        sh.count("thread_schedules_executed", nexec)
        sh.evaluations += 1
        sh.nontrivial += 1
        sh.outcomes.add(("threads", mode))
    sh.sample({"kind": "threads", "schedules": nexec}, limit=1)
    return sh


def _run_callers(desc):
    """the kernels of this property that are declared threadsafe (the GIL is released while they run) as TWO CONCURRENT CALLERS on the
    schedule-exploring runtime: pairs of different well-formed calls from the C20 call tables, every interleaving at the words both
    touch within 2 preemptions; each call must leave in its arrays what it leaves when it runs alone"""
    from vt.vrt import VRT, callers_interfere
    from vt import sani
    sh = Shard()
    V = VRT()
    for a, b in sani.threadsafe_pairs(('overlap_kernels', 'tosparse', 'sparse_kernels'), ('sparse_overlaps', 'compress_duplicates', 'coverlaps', 'tosparse_u16', 'tosparse_u32', 'tosparse_f32', 'sparse_is_sorted')):
        bad, r = callers_interfere(V, a, b)
        if r is None:
            continue
        case = {"kind": "callers", "calls": [a.describe(), b.describe()]}
        for sched in (bad or [])[:1]:
            sh.violation("concurrent-callers:%s-calls-interfere" % a.kernel, dict(case, schedule=sched), {"conflict_words": r["filter_size"]})
        sh.states += r["nodes"]
        sh.transitions += r["nodes"] - 1 + r["executions"]
        sh.count("caller_pair_executions", r["total_executions"])
        sh.evaluations += 1
        sh.nontrivial += 1
        sh.outcomes.add(("callers", a.kernel))
    sh.sample(case, limit=1)
    return sh


def run_shard(desc):
    if desc[0] == "callers":
        return _run_callers(desc)
    if desc[0] == "scanpairs":
        return _run_scanpairs(desc)
    if desc[0] == "scanpairs5":
        return _run_scanpairs5(desc)
    if desc[0] == "threads":
        return _run_threads(desc)
    if desc[0] == "sched":
        return _run_sched(desc)
    if desc[0] == "overlap_realloc":
        return _run_overlap_realloc(desc)
    if desc[0] == "overlap_large":
        return _run_overlap_large(desc)
    if desc[0] == "is_sorted":
        return _run_is_sorted(desc)
    if desc[0] == "overlap_tall":
        return _run_overlap_tall(desc)
    return {"round": _run_round, "sort": _run_sort, "edge": _run_edge, "overlap": _run_overlap,
            "overlap23": _run_overlap23}[desc[0]](desc)


def replay(case):
    if case.get("kind") == "callers":
        r = _run_callers(("callers",))
        v = [x for x in r.violations if x["case"]["calls"] == case["calls"]]
        return (not v), {"violations": v[:2]}
    sh = Shard()
    if case["kind"] == "scanpairs5":
        r = _run_scanpairs5(("scanpairs5", 0, 1, "thorough"))
        sh.violations = [v for v in r.violations if v["case"]["frames"] == case["frames"]]
    elif case["kind"] == "threads":
        r = _run_threads(("threads",))
        sh.violations = [v for v in r.violations if v["case"]["mode"] == case["mode"]]
    elif case["kind"] == "scanpairs":
        r = _run_scanpairs(("scanpairs", 0, 1, "thorough"))
        sh.violations = [v for v in r.violations if v["case"]["frames"] == case["frames"]]
    elif case["kind"] == "is_sorted":
        sh.violations = [v for v in _run_is_sorted(("is_sorted",)).violations if v["case"] == case]
    elif case["kind"] == "overlap_large":
        sh.violations = [v for v in _run_overlap_large(("overlap_large",)).violations if v["case"]["regions"] == case["regions"]]
    elif case["kind"] == "overlap_realloc":
        sh.violations = _run_overlap_realloc(("overlap_realloc",)).violations
    elif case["kind"] == "sched":
        tier = "quick" if case["shape"] == [3, 3] else "thorough"
        for c in range(4):
            r = _run_sched(("sched", c, 4, tier))
            sh.violations += [v for v in r.violations if v["case"]["mask"] == case["mask"]]
    elif case["kind"] == "overlap_tall":
        r = _run_overlap_tall(("overlap_tall", 0, 1))
        sh.violations = [v for v in r.violations if v["case"]["frame1"] == case["frame1"] and v["case"]["frame2"] == case["frame2"]]
    elif case["kind"] == "overlap":
        g = tuple(case["grid"])
        check_pair(sh, _mods(), frame_from_code(case["frame1"], g), frame_from_code(case["frame2"], g), case)
    elif case["kind"] == "sort":
        r = _run_sort(("sort", len(case["cells"])))
        sh.violations = [v for v in r.violations if v["case"]["cells"] == case["cells"]]
    elif case["kind"] == "round":
        n = case["shape"][0] * case["shape"][1]
        r = _run_round(("round", tuple(case["shape"]), case["mask"] - 1, 1 << n))
        sh.violations = r.violations
    else:
        sh.violations = _run_edge(("edge",)).violations
    return (not sh.violations), {"violations": sh.violations}
