"""C15 - N-D peak merging equals graph connected components on any schedule.

(a) inputs: ALL edge lists of length <= 3 over <= 4 nodes incl. duplicates and self-loops (4369
    graphs; thorough: length 4 and 5 nodes subsets) + structured graphs up to 10^4 nodes, through the
    real njit `find_ND_labels` with 1 thread; oracle = networkx connected components; labels are
    exactly 0..n-1 ordered by smallest member.
(b) schedules (E4, model checking): a model extracted mechanically from the SOURCE of
    numbalabelNd / get_clean_labels (AST transformation of the prange bodies, vt/prange.py) is explored
    with state hashing for every graph of (a): every terminal state must equal the oracle, from every
    reachable state some schedule terminates (AG EF terminal), a label never leaves its component and
    the component minimum keeps its own label.  Conformance: for every graph the model's sequential
    trace equals the njit code sweep by sweep (labels and nbad), and free-running numba with 2, 4, 16
    threads ends in the model's terminal set.
(c) pk2dmerge / numbapkmerge / pk2d: ALL label assignments of <= 5 two-dimensional peaks to <= 3
    merged peaks over a small property alphabet, with and without per-frame scale factors; oracle =
    numpy sums and intensity-weighted means.
"""
from __future__ import annotations
import itertools, os
import numpy as np
from vt.runner import Shard

LEVEL = "model_checking"
RULE = ("(a,b) cases = edge lists enumerated completely over the stated node/length bounds, each explored over ALL interleavings "
        "of the extracted model (one task per prange iteration, a step per shared load/store); non-trivial = the graph needs >= 2 "
        "sweeps or two tasks touch the same label; (c) cases = (label assignment, property table, scale on/off)")
ASSUMPTIONS = ["the model is regenerated from the python source of the kernels on every run; transformations numba applies that change "
               "the set of shared accesses (fusion, hoisting) are outside it; the binding to the compiled code is the conformance check",
               "sequentially consistent interleavings at load/store granularity; maximal concurrency (superset of any chunking)"]


def oracle(i, j, n):
    import networkx as nx
    G = nx.Graph()
    G.add_nodes_from(range(n))
    G.add_edges_from(zip(i.tolist(), j.tolist()))
    comps = sorted(nx.connected_components(G), key=min)
    lab = np.zeros(n, int)
    for c, comp in enumerate(comps):
        for v in comp:
            lab[v] = c
    return len(comps), lab


def graphs(nn, maxlen):
    pairs = [(a, b) for a in range(nn) for b in range(nn)]
    yield ()
    for L in range(1, maxlen + 1):
        for el in itertools.product(pairs, repeat=L):
            yield el


def plan(tier, seed):
    shards = []
    if tier == "quick":
        spec = [(4, 3, 64)]
    else:
        spec = [(4, 3, 32), (3, 4, 32), (5, 2, 8), (4, 4, 256)]
    for nn, ml, nch in spec:
        for c in range(nch):
            shards.append(("graphs", nn, ml, c, nch))
    shards.append(("structured", tier))
    for c in range(4):
        shards.append(("merge", c, 4))
    for c in range(4):
        shards.append(("pipeline", c, 4, tier))
    # the overlaps between NEIGHBOURING scans that feed the pair table (properties.pairscans / pairrow; shared with C14): two peaks on
    # adjacent rows can only share a label if their frame pair is found
    for c in range(4):
        shards.append(("scanpairs", c, 4, tier))
    shards.append(("dataset", 4 if tier == "quick" else 5))
    k = seed % len(shards)
    return shards[k:] + shards[:k]


_M = None


def model():
    global _M
    if _M is None:
        from vt import prange
        import ImageD11.sinograms.properties as P
        _M = prange.Model([P.numbalabelNd.py_func, P.get_clean_labels.py_func], extra_ns={"numba": __import__("numba")})
    return _M


_MM = None


def merge_model():
    """numbapkmerge (the accumulation behind pk2dmerge) through the same extraction: on the current tree it has no prange loop and
    the model has a single schedule; if the loop is ever made parallel every interleaving of its load/store steps is explored"""
    global _MM
    if _MM is None:
        from vt import prange
        import ImageD11.sinograms.properties as P
        _MM = prange.Model([P.numbapkmerge.py_func], extra_ns={"numba": __import__("numba")})
    return _MM


def make_driver(i, j, n, comp_of, comp_min, trace=None, maxsweeps=40):
    def driver(M):
        ns = M.ns
        labels = np.arange(n, dtype=int)
        st = {"flip": 0, "stage": "label"}
        M.observe = lambda: (st["stage"], st["flip"], tuple(labels.tolist()))
        M.phase = None
        sweeps = 0
        b = ns["numbalabelNd"](i, j, labels, flip=st["flip"])
        if trace is not None:
            trace.append((st["flip"], int(b), labels.copy()))
        while b != 0:
            # invariant of the min-propagation: a label never leaves its component, the minimum keeps its own label
            for v in range(n):
                if comp_of[labels[v]] != comp_of[v] or labels[v] > v:
                    return ("invariant-broken", tuple(labels.tolist()))
            for m in comp_min:
                if labels[m] != m:
                    return ("minimum-lost", tuple(labels.tolist()))
            sweeps += 1
            if sweeps > maxsweeps:
                return ("nonterminating", tuple(labels.tolist()))
            st["flip"] = (1, 0)[st["flip"]]
            b = ns["numbalabelNd"](i, j, labels, flip=st["flip"])
            if trace is not None:
                trace.append((st["flip"], int(b), labels.copy()))
        st["stage"] = "clean"
        nlab = ns["get_clean_labels"](labels)
        return ("done", int(nlab), tuple(labels.tolist()))
    return driver


def real_trace(P, i, j, n):
    labels = np.arange(n, dtype=int)
    flip = 0
    tr = []
    b = P.numbalabelNd(i, j, labels, flip=flip)
    tr.append((flip, int(b), labels.copy()))
    k = 0
    while b != 0 and k < 100:
        flip = (1, 0)[flip]
        b = P.numbalabelNd(i, j, labels, flip=flip)
        tr.append((flip, int(b), labels.copy()))
        k += 1
    return tr


def _run_graphs(desc):
    _, nn, maxlen, c, nch = desc
    import numba
    import ImageD11.sinograms.properties as P
    from vt import prange
    import io, contextlib
    sh = Shard()
    M = model()
    for gi, el in enumerate(graphs(nn, maxlen)):
        if gi % nch != c:
            continue
        i = np.array([e[0] for e in el], dtype=np.int64)
        j = np.array([e[1] for e in el], dtype=np.int64)
        case = {"kind": "graph", "nodes": nn, "edges": [list(e) for e in el]}
        n_want, lab_want = oracle(i, j, nn)
        want = ("done", n_want, tuple(lab_want.tolist()))
        comp_of = lab_want
        comp_min = [int(np.nonzero(lab_want == k)[0][0]) for k in range(n_want)]
        # --- real njit, one thread
        numba.set_num_threads(1)
        with contextlib.redirect_stdout(io.StringIO()):
            nr, lr = P.find_ND_labels(i.copy(), j.copy(), nn, verbose=0)
        if (nr, tuple(lr.tolist())) != want[1:]:
            sh.violation("find_ND_labels:wrong-labels", case, {"n": int(nr), "labels": lr, "expected_n": n_want, "expected": lab_want})
            sh.evaluations += 1
            continue
        # --- conformance: sequential model trace == njit sweep by sweep
        tr_model = []
        res_seq = M.run(make_driver(i, j, nn, comp_of, comp_min, trace=tr_model), (), sequential=True)
        tr_real = real_trace(P, i.copy(), j.copy(), nn)
        same = len(tr_model) == len(tr_real) and all(a[0] == b[0] and a[1] == b[1] and np.array_equal(a[2], b[2])
                                                     for a, b in zip(tr_model, tr_real))
        if not same or res_seq != want:
            sh.violation("model-conformance:sequential-trace-differs-from-njit", case,
                         {"model": [(a[0], a[1], a[2].tolist()) for a in tr_model], "njit": [(a[0], a[1], a[2].tolist()) for a in tr_real]})
            sh.evaluations += 1
            continue
        sh.traces_validated += len(tr_real)
        # --- all schedules of the model
        r = prange.explore(M, make_driver(i, j, nn, comp_of, comp_min), max_states=300000)
        sh.states += r["states"]
        sh.transitions += r["transitions"]
        if r["capped"]:
            sh.capped = True
        bad = [t for t in r["terminals"] if t != want]
        if bad:
            sh.violation("schedule:terminal-state-differs-from-components", case, {"terminal": bad[0], "expected": want,
                                                                                   "n_terminals": len(r["terminals"])})
        elif not r["terminals"] and not r["capped"]:
            sh.violation("schedule:no-terminal-state", case, {})
        elif not r["all_states_can_terminate"]:
            sh.violation("schedule:some-state-cannot-reach-termination", case, {"states": r["states"]})
        if r["has_cycle"]:
            sh.count("graphs_with_cycles(livelock only under an unfair scheduler)")
        # --- free running numba: must land in the model's terminal set
        for nt in (2, 4, 16):
            numba.set_num_threads(min(nt, numba.config.NUMBA_NUM_THREADS))
            with contextlib.redirect_stdout(io.StringIO()):
                nr, lr = P.find_ND_labels(i.copy(), j.copy(), nn, verbose=0)
            if ("done", int(nr), tuple(lr.tolist())) not in r["terminals"] and not bad:
                sh.violation("free-running-numba:result-outside-model-terminal-set", dict(case, threads=nt), {"n": int(nr), "labels": lr})
                break
        numba.set_num_threads(1)
        sh.evaluations += 1
        if len(tr_real) >= 3 or r["states"] > 1:
            sh.nontrivial += 1
        sh.outcomes.add((n_want, len(tr_real), min(r["states"], 50) // 10))
        if gi % 997 == c:
            sh.sample({"case": case, "model_states": r["states"], "transitions": r["transitions"], "sweeps": len(tr_real),
                       "terminals": len(r["terminals"])}, limit=2)
    return sh


def _run_structured(desc):
    _, tier = desc
    import numba
    import ImageD11.sinograms.properties as P
    import io, contextlib
    sh = Shard()
    sizes = [10, 1000, 10000] if tier == "quick" else [10, 1000, 10000, 100000]
    for n in sizes:
        gens = {
            "chain_worst_order": (np.arange(n - 1, 0, -1), np.arange(n - 2, -1, -1)),
            "chain_forward": (np.arange(0, n - 1), np.arange(1, n)),
            "star": (np.zeros(n - 1, int) + (n - 1), np.arange(0, n - 1)),
            "two_components": (np.r_[np.arange(0, n // 2 - 1), np.arange(n // 2, n - 1)], np.r_[np.arange(1, n // 2), np.arange(n // 2 + 1, n)]),
            "no_edges": (np.zeros(0, int), np.zeros(0, int)),
            "self_loops_and_duplicates": (np.r_[np.arange(n), np.arange(0, n - 2, 2), np.arange(0, n - 2, 2)],
                                          np.r_[np.arange(n), np.arange(2, n, 2), np.arange(2, n, 2)]),
            "ladder": (np.r_[np.arange(0, n - 2), np.arange(0, n - 3, 3)], np.r_[np.arange(2, n), np.arange(3, n, 3)]),
        }
        # one chain through all nodes with the node numbers and the order of the pairs both scrambled (multiplicative permutations): the
        # minimum has to travel link by link, hundreds to thousands of sweeps
        pn = (np.arange(n) * 7919 + 13) % n if np.gcd(7919, n) == 1 else np.arange(n)[::-1]
        pe = (np.arange(n - 1) * 4447 + 5) % (n - 1) if n > 2 and np.gcd(4447, n - 1) == 1 else np.arange(n - 1)
        gens["chain_scrambled"] = (pn[:-1][pe], pn[1:][pe])
        for name, (i, j) in gens.items():
            i = i.astype(np.int64); j = j.astype(np.int64)
            n_want, lab_want = oracle(i, j, n)
            for nt in (1, 2, 4, 16):
                numba.set_num_threads(min(nt, numba.config.NUMBA_NUM_THREADS))
                with contextlib.redirect_stdout(io.StringIO()):
                    nr, lr = P.find_ND_labels(i.copy(), j.copy(), n, verbose=0)
                case = {"kind": "structured", "graph": name, "nodes": n, "threads": nt}
                if nr != n_want or not np.array_equal(lr, lab_want):
                    sh.violation("find_ND_labels:wrong-labels", case, {"n": int(nr), "expected_n": n_want,
                                                                      "first_wrong_node": int(np.nonzero(lr != lab_want)[0][0]) if len(lr) == len(lab_want) and (lr != lab_want).any() else -1})
                    break
                sh.evaluations += 1
                sh.nontrivial += 1
            numba.set_num_threads(1)
    sh.sample({"kind": "structured", "sizes": sizes, "generators": list(gens)})
    return sh


def _run_merge(desc):
    _, c, nch = desc
    import ImageD11.sinograms.properties as P
    sh = Shard()
    nfrm = (3, 4)
    omega = np.linspace(0.0, 33.0, 12).reshape(nfrm)
    dty = (np.arange(12).reshape(nfrm) // 4 * 1.5 - 2.0).astype(float)
    scale = 1.0 + 0.1 * np.arange(12).reshape(nfrm)
    tables = [
        # s1, sI, srI, scI, frm   (integers, as the peak table stores them)
        [(3, 100, 1000, 2000, 0), (1, 7, 70, 7, 5), (9, 100000, 100000 * 12, 100000 * 3, 11), (2, 50, 55, 60, 5), (4, 1, 2, 3, 7)],
        [(1, 1, 0, 0, 0), (1, 1, 100, 100, 1), (1, 1, 200, 50, 2), (1, 1, 300, 25, 3), (1, 1, 400, 12, 4)],
    ]
    idx = 0
    for tab in tables:
        for npk in (1, 2, 3, 4, 5):
            props = np.array(tab[:npk], dtype=np.int64).T.copy()        # (5, npk)
            for assign in itertools.product(range(3), repeat=npk):
                # labels must be a valid clean labelling: 0..n-1 all used, first occurrences ascending
                used = sorted(set(assign))
                if used != list(range(len(used))) or [assign.index(u) for u in used] != sorted(assign.index(u) for u in used):
                    continue
                idx += 1
                if idx % nch != c:
                    continue
                lab = np.array(assign, dtype=np.int64)
                nl = len(used)
                # the per-frame motor / monitor arrays in other memory layouts too (a transposed [frame, scan] array, a view of a wider
                # one): the flat frame number scan*nframes+frame refers to the logical (row-major) order
                big = np.zeros((3, 8)); big[:, ::2] = scale
                # scale factors of the order 1e-5 as well (intensities normalised to counts per monitor count: every scaled sum is far below 1)
                layouts = [("C", omega, dty, scale), ("C, small scale factors", omega, dty, scale * 2.0 ** -16)]
                if idx % 3 == 0:
                    layouts += [("F", np.asfortranarray(omega), np.asfortranarray(dty), np.asfortranarray(scale)),
                                ("F-scale-only", omega, dty, np.asfortranarray(scale)),
                                ("strided-view", omega, np.asfortranarray(dty), big[:, ::2])]
                for lname, omega_l, dty_l, sf in [(ln, o_, d_, s_) for (ln, o_, d_, sc_) in layouts for s_ in (None, sc_)]:
                    t = P.pks_table(pk_props=props, glabel=lab, nlabel=nl, ipk=np.array([0, npk]))
                    case = {"kind": "merge", "labels": list(assign), "table": tables.index(tab), "scale": sf is not None, "layout": lname}
                    got = t.pk2dmerge(omega_l, dty_l, scale_factor=sf)
                    w = np.ones(npk) if sf is None else sf.flat[props[4]]
                    sI = props[1] * w
                    want = {
                        "Number_of_pixels": np.bincount(lab, weights=props[0], minlength=nl),
                        "sum_intensity": np.bincount(lab, weights=sI, minlength=nl),
                        "npk2d": np.bincount(lab, minlength=nl).astype(float),
                    }
                    want["s_raw"] = np.bincount(lab, weights=props[2] * w, minlength=nl) / want["sum_intensity"]
                    want["f_raw"] = np.bincount(lab, weights=props[3] * w, minlength=nl) / want["sum_intensity"]
                    want["omega"] = np.bincount(lab, weights=omega.flat[props[4]] * sI, minlength=nl) / want["sum_intensity"]
                    want["dty"] = np.bincount(lab, weights=dty.flat[props[4]] * sI, minlength=nl) / want["sum_intensity"]
                    want["spot3d_id"] = np.arange(nl)
                    for k_, v in want.items():
                        if k_ not in got or not np.allclose(got[k_], v, rtol=1e-12, atol=1e-12):
                            sh.violation("pk2dmerge:%s" % k_, case, {"got": got.get(k_), "expected": v})
                            break
                    # the accumulation kernel itself: njit result == sequential model (conformance), and every schedule of the model
                    # (one, unless the loop is parallel) ends in that table
                    if npk <= 3:
                        from vt import prange
                        MM = merge_model()
                        real = np.zeros((7, nl))
                        P.numbapkmerge(lab, props, omega, dty, real, sf)

                        def drv(M, _lab=lab, _props=props, _sf=sf, _nl=nl):
                            out = np.zeros((7, _nl))
                            M.observe = lambda: tuple(out.ravel().tolist())
                            M.phase = None
                            M.ns["numbapkmerge"](_lab, _props, omega, dty, out, _sf)
                            return tuple(out.ravel().tolist())
                        seq = np.array(MM.run(drv, (), sequential=True)).reshape(7, nl)
                        if not np.array_equal(seq, real):
                            sh.violation("model-conformance:numbapkmerge-sequential-model-differs-from-njit", case, {"model": seq, "njit": real})
                        else:
                            sh.traces_validated += 1
                            r = prange.explore(MM, drv, max_states=200000)
                            sh.states += max(1, r["states"])
                            sh.transitions += r["transitions"]
                            if r["capped"]:
                                sh.capped = True
                            bad = [t_ for t_ in r["terminals"] if not np.allclose(np.array(t_).reshape(7, nl), real, rtol=1e-12, atol=1e-12)]
                            if bad:
                                sh.violation("pk2dmerge:schedule-dependent-accumulation", case, {"terminal": np.array(bad[0]).reshape(7, nl), "expected": real,
                                                                                               "n_terminals": len(r["terminals"])})
                    # 2-D table
                    g2 = t.pk2d(omega_l, dty_l, scale_factor=sf)
                    w2 = {"s_raw": props[2] / props[1], "f_raw": props[3] / props[1], "omega": omega.flat[props[4]], "dty": dty.flat[props[4]],
                          "Number_of_pixels": props[0], "sum_intensity": sI, "spot3d_id": lab}
                    for k_, v in w2.items():
                        if not np.allclose(np.asarray(g2[k_], float), np.asarray(v, float), rtol=1e-12, atol=1e-12):
                            sh.violation("pk2d:%s" % k_, case, {"got": g2[k_], "expected": v})
                            break
                    sh.evaluations += 1
                    if nl >= 2 and npk > nl:
                        sh.nontrivial += 1
                # history on ONE table: merge without scale, with scale, without again; every answer must be that of a fresh table and
                # earlier answers must not change afterwards
                t = P.pks_table(pk_props=props, glabel=lab, nlabel=nl, ipk=np.array([0, npk]))
                fresh = {}
                for key_, sf in (("a", None), ("b", scale)):
                    tf = P.pks_table(pk_props=props, glabel=lab, nlabel=nl, ipk=np.array([0, npk]))
                    fresh[key_] = {k_: np.array(v, float) for k_, v in tf.pk2dmerge(omega, dty, scale_factor=sf).items()}
                first = t.pk2dmerge(omega, dty, scale_factor=None)
                first_copy = {k_: np.array(v, float) for k_, v in first.items()}
                second = t.pk2dmerge(omega, dty, scale_factor=scale)
                third = t.pk2dmerge(omega, dty, scale_factor=None)
                hc = {"kind": "merge", "labels": list(assign), "table": tables.index(tab), "scale": "history"}
                for nm, got_, want_ in (("second(scale)", second, fresh["b"]), ("third(no scale)", third, fresh["a"]), ("first-after-later-calls", first, first_copy)):
                    if any(not np.allclose(np.asarray(got_[k_], float), want_[k_], rtol=1e-12, atol=1e-12) for k_ in want_):
                        sh.violation("pk2dmerge:repeated-call-on-one-table:%s" % nm, hc, {})
                        break
                sh.evaluations += 1
                sh.nontrivial += 1
    sh.sample(case, limit=1)
    sh.outcomes.add("merge")
    return sh


def _run_pipeline(desc):
    """the whole route from a sparse scan to merged peaks (properties.pks_table_from_scan: label every frame, 2-D peak table, overlaps
    of frames adjacent in omega, connected components, pk2dmerge): every ordered triple (quick: a quarter) of ten catalogue frames,
    stored NOT in omega order, as the second row of a two-row dataset.  Given the per-frame labels (decided by C13), an independent
    oracle builds the 2-D peaks, links peaks of omega-adjacent frames that share a pixel, takes components with its own union-find
    and sums: the merged table must be that multiset of peaks."""
    _, c, nch, tier = desc
    import h5py, shutil
    from ImageD11 import sparseframe as sf
    import ImageD11.sinograms.properties as P
    from vt.props import c13
    import io, contextlib
    sh = Shard()
    wd = os.path.join(os.path.dirname(os.path.dirname(os.path.dirname(os.path.abspath(__file__)))), ".work", "c15_pipe_%d" % os.getpid())
    os.makedirs(wd, exist_ok=True)
    fr = []
    for cells, order in c13.SCAN_FRAMES:
        ii = np.array([q // 4 for q in cells], np.uint16); jj = np.array([q % 4 for q in cells], np.uint16)
        fr.append((ii, jj, (10.0 * (np.array(order, np.float32) + 1)).astype(np.float32)))

    class DS:
        pass
    ds = DS()
    ds.scans = ["0.1", "1.1"]
    ds.omega = np.array([[1.0, 2.0, 3.0], [20.0, 10.0, 30.0]])
    ds.dty = np.array([[0.0, 0.0, 0.0], [1.5, 1.5, 1.5]])
    try:
        idx = 0
        for trip in itertools.product(range(len(fr)), repeat=3):
            idx += 1
            if idx % nch != c or (tier == "quick" and (idx // nch) % 4 != 2):
                continue
            if all(len(fr[t][0]) == 0 for t in trip):
                continue
            fn = os.path.join(wd, "s.h5")
            # every fifth scan has strong peaks: pixel intensities of 7e8 .. 1e10 (sums of intensity x row beyond 2^31 and 2^32)
            iscale = np.float32(2.0 ** 26) if idx % 5 == 0 else np.float32(1.0)
            with h5py.File(fn, "w") as h:
                for name in ds.scans:
                    g = h.create_group(name)
                    g.attrs["nframes"] = 3; g.attrs["shape0"] = 4; g.attrs["shape1"] = 4
                    g["row"] = np.concatenate([fr[t][0] for t in trip]).astype(np.uint16)
                    g["col"] = np.concatenate([fr[t][1] for t in trip]).astype(np.uint16)
                    g["intensity"] = (np.concatenate([fr[t][2] for t in trip]).astype(np.float32) * iscale).astype(np.float32)
                    g["nnz"] = np.array([len(fr[t][0]) for t in trip], np.int32)
            case = {"kind": "pipeline", "frames": list(trip), "intensity_scale": float(iscale)}
            with contextlib.redirect_stdout(io.StringIO()):
                pk = P.pks_table_from_scan(fn, ds, 1)
                got = pk.pk2dmerge(ds.omega, ds.dty)
                ss = sf.SparseScan(fn, "1.1")
                ss.lmlabel(countall=False)
            # ---- oracle
            peaks = []                      # (frame, label) -> [npix, sI, srI, scI, pixels]
            index = {}
            for j in range(3):
                a, b = ss.ipt[j], ss.ipt[j + 1]
                for l in sorted(set(ss.labels[a:b].tolist())):
                    m = ss.labels[a:b] == l
                    I = ss.intensity[a:b][m].astype(np.int64)
                    index[(j, l)] = len(peaks)
                    peaks.append([int(m.sum()), int(I.sum()), int((ss.row[a:b][m] * I).sum()), int((ss.col[a:b][m] * I).sum()),
                                  set(zip(ss.row[a:b][m].tolist(), ss.col[a:b][m].tolist())), j])
            parent = list(range(len(peaks)))

            def find(x):
                while parent[x] != x:
                    parent[x] = parent[parent[x]]
                    x = parent[x]
                return x
            order = np.argsort(ds.omega[1])
            for q in range(1, 3):
                ja, jb = int(order[q - 1]), int(order[q])
                for (j1, l1), k1 in index.items():
                    if j1 != ja:
                        continue
                    for (j2, l2), k2 in index.items():
                        if j2 == jb and peaks[k1][4] & peaks[k2][4]:
                            parent[find(k1)] = find(k2)
            comps = {}
            for k in range(len(peaks)):
                comps.setdefault(find(k), []).append(k)
            want = []
            for mem in comps.values():
                sI = sum(peaks[k][1] for k in mem)
                want.append((sum(peaks[k][0] for k in mem), sI, len(mem), sum(peaks[k][2] for k in mem) / sI, sum(peaks[k][3] for k in mem) / sI,
                             sum(ds.omega[1][peaks[k][5]] * peaks[k][1] for k in mem) / sI, 1.5))
            have = [(int(got["Number_of_pixels"][k]), int(round(got["sum_intensity"][k])), int(got["npk2d"][k]), float(got["s_raw"][k]), float(got["f_raw"][k]),
                     float(got["omega"][k]), float(got["dty"][k])) for k in range(len(got["spot3d_id"]))]
            # the same table filled IN PLACE into the arrays a pks_table allocates for itself (as the multiprocess workers do)
            with contextlib.redirect_stdout(io.StringIO()):
                t2 = P.pks_table(npk=np.array([(pk.pk_props.shape[1], pk.rc.shape[1], 0)]), use_shm=False)
                t2.pk_props[:, :] = pk.pk_props
                t2.rc[:, :] = pk.rc
                t2.find_uniq()
                got2 = t2.pk2dmerge(ds.omega, ds.dty)
            # history on the same table: the stored pairs are replaced in place by a different graph (first every peak alone, then the real
            # pairs again) and the labelling is asked for again each time: it is that of the pairs stored NOW
            with contextlib.redirect_stdout(io.StringIO()):
                t2.rc[:, :] = 0
                n_alone, _ = t2.find_uniq()
                t2.rc[:, :] = pk.rc
                n_back, lab_back = t2.find_uniq()
            if int(n_alone) != pk.pk_props.shape[1] or int(n_back) != len(got2["spot3d_id"]):
                sh.violation("pks_table.find_uniq[again after the pair table changed]:labels-of-an-earlier-pair-table", case,
                             {"labels_with_no_pairs": int(n_alone), "peaks": int(pk.pk_props.shape[1]), "labels_with_the_pairs_back": int(n_back),
                              "expected": int(len(got2["spot3d_id"]))})
            have2 = [(int(got2["Number_of_pixels"][k]), int(round(got2["sum_intensity"][k])), int(got2["npk2d"][k]), float(got2["s_raw"][k]), float(got2["f_raw"][k]),
                      float(got2["omega"][k]), float(got2["dty"][k])) for k in range(len(got2["spot3d_id"]))]
            # a table whose pair storage was counted for two more pairs than are stored (nothing in the library clears a slot), allocated
            # right after an array of the same size was dropped - the allocator hands such blocks out again: the unused slots must not
            # connect anything
            npair = pk.rc.shape[1]
            npk2 = pk.pk_props.shape[1]
            junk = np.empty((3, npair + 2), np.int64)
            junk[0] = 0; junk[1] = npk2 - 1; junk[2] = 1
            del junk
            with contextlib.redirect_stdout(io.StringIO()):
                t3 = P.pks_table(npk=np.array([(npk2, npair + 2, 0)]), use_shm=False)
                t3.pk_props[:, :] = pk.pk_props
                t3.rc[:, :npair] = pk.rc
                t3.find_uniq()
                got3 = t3.pk2dmerge(ds.omega, ds.dty)
            have3 = [(int(got3["Number_of_pixels"][k]), int(round(got3["sum_intensity"][k])), int(got3["npk2d"][k]), float(got3["s_raw"][k]), float(got3["f_raw"][k]),
                      float(got3["omega"][k]), float(got3["dty"][k])) for k in range(len(got3["spot3d_id"]))]
            if len(have3) != len(want) or any(np.abs(np.array(a) - np.array(b)).max() > 1e-9 * max(1.0, abs(b[1])) for a, b in zip(sorted(have3), sorted(want))):
                sh.violation("pks_table[pair storage with unused slots]+pk2dmerge:merged-peaks-differ-from-components", case, {"got": sorted(have3), "expected": sorted(want)})
            if len(have) != len(want) or any(np.abs(np.array(a) - np.array(b)).max() > 1e-9 * max(1.0, abs(b[1])) for a, b in zip(sorted(have), sorted(want))):
                sh.violation("pks_table_from_scan+pk2dmerge:merged-peaks-differ-from-components", case, {"got": sorted(have), "expected": sorted(want)})
            elif len(have2) != len(want) or any(np.abs(np.array(a) - np.array(b)).max() > 1e-9 * max(1.0, abs(b[1])) for a, b in zip(sorted(have2), sorted(want))):
                sh.violation("pks_table[filled in place]+pk2dmerge:merged-peaks-differ-from-components", case, {"got": sorted(have2), "expected": sorted(want)})
            elif pk.pk_props.shape[1] != len(peaks) or int(pk.pk_props[0].sum()) != sum(p_[0] for p_ in peaks) or int(pk.pk_props[1].sum()) != sum(p_[1] for p_ in peaks):
                sh.violation("props:2d-peak-table-does-not-conserve-pixels-or-intensity", case, {})
            sh.evaluations += 1
            if len(want) < len(peaks) and len(want) >= 2:
                sh.nontrivial += 1
            sh.outcomes.add(("pipeline", min(len(want), 5)))
        sh.sample(case, limit=1)
    finally:
        shutil.rmtree(wd, ignore_errors=True)
    return sh


def warm():
    _run_graphs(("graphs", 3, 1, 0, 1))
    _run_merge(("merge", 0, 7))


def _run_dataset(desc):
    """the public entry to the merge, DataSet.pk2d / DataSet.pk4d (cached on the object) with DataSet.set_monitor in between: EVERY history
    of up to `depth` steps over {pk2d, pk4d, set_monitor(a), set_monitor(b)} on a fresh DataSet; after every step the table handed out is
    the one a direct pks_table.pk2d / pk2dmerge call gives for the scale factors of the monitor that is set NOW (none before the first)"""
    _, depth = desc
    import h5py, shutil, io, contextlib, warnings
    from ImageD11.sinograms.properties import pks_table
    from ImageD11.sinograms.dataset import DataSet
    sh = Shard()
    wd = os.path.join(os.path.dirname(os.path.dirname(os.path.dirname(os.path.abspath(__file__)))), ".work", "c15_ds_%d" % os.getpid())
    shutil.rmtree(wd, ignore_errors=True)
    os.makedirs(wd)
    NY, NF = 3, 6
    shape = (NY, NF)
    omega = np.tile(np.linspace(0.5, 150.5, NF), (NY, 1))
    dty = np.repeat(np.array([-0.1, 0.0, 0.1]), NF).reshape(shape)
    mon = {"a": 1000.0 + 37.0 * ((np.arange(NY * NF) * 7) % 11).reshape(shape), "b": 10.0 + ((np.arange(NY * NF) * 5) % 13).reshape(shape)}
    try:
        with warnings.catch_warnings(), contextlib.redirect_stdout(io.StringIO()):
            warnings.simplefilter("ignore")
            ds0 = DataSet(dataroot=os.path.join(wd, "raw"), analysisroot=os.path.join(wd, "proc"), sample="smp", dset="ds")
            os.makedirs(ds0.datapath); os.makedirs(ds0.analysispath)
            scans = ["%d.1" % (k + 1) for k in range(NY)]
            with h5py.File(ds0.masterfile, "w") as h:
                for k, sc_ in enumerate(scans):
                    g = h.create_group(sc_).create_group("measurement")
                    for name in mon:
                        g[name] = mon[name][k]
            npks = 14
            frm = np.array([0, 1, 1, 2, 4, 6, 7, 7, 8, 11, 12, 13, 16, 17])
            pi = np.array([0, 2, 5, 6, 9, 3, 3]); pj = np.array([1, 3, 6, 8, 10, 2, 3])
            per = np.bincount(frm // NF, minlength=NY)
            slots = np.array([3, 2, 2])
            tab = pks_table(npk=np.stack([per, slots, np.zeros(NY, int)], axis=1))
            sI = 100 + 13 * np.arange(npks)
            tab.pk_props[0] = 1 + np.arange(npks) % 5
            tab.pk_props[1] = sI
            tab.pk_props[2] = sI * ((np.arange(npks) * 37) % 200)
            tab.pk_props[3] = sI * ((np.arange(npks) * 91) % 200)
            tab.pk_props[4] = frm
            tab.rc[0], tab.rc[1], tab.rc[2] = pi, pj, 1 + np.arange(len(pi))
            tab.find_uniq()
            tab.save(ds0.pksfile)
            pksfile = ds0.pksfile

            def direct(kind, scale):
                t = pks_table.load(pksfile)
                fn = t.pk2d if kind == "pk2d" else t.pk2dmerge
                return {k_: np.array(v_) for k_, v_ in (fn(omega, dty) if scale is None else fn(omega, dty, scale_factor=scale)).items()}
            want = {(kind, m): direct(kind, None if m is None else mon[m].mean() / mon[m]) for kind in ("pk2d", "pk4d") for m in (None, "a", "b")}
            if all(np.array_equal(want[("pk4d", None)][k_], want[("pk4d", "a")][k_]) for k_ in want[("pk4d", None)]):
                raise RuntimeError("the monitor does not change the merged table: the history check would be vacuous")
            alphabet = ("pk2d", "pk4d", "set_monitor(a)", "set_monitor(b)")
            for d_ in range(1, depth + 1):
                for hist in itertools.product(alphabet, repeat=d_):
                    if hist[-1].startswith("set_monitor"):
                        continue                      # a history is judged at its reads; ending on a write adds nothing
                    ds = DataSet(dataroot=os.path.join(wd, "raw"), analysisroot=os.path.join(wd, "proc"), sample="smp", dset="ds")
                    ds.scans = scans; ds.shape = shape; ds.omega = omega.copy(); ds.dty = dty.copy()
                    ds.guessbins()
                    cur = None
                    for pos, step in enumerate(hist):
                        if step.startswith("set_monitor"):
                            cur = step[12]
                            ds.set_monitor(cur)
                            continue
                        got = ds.pk2d if step == "pk2d" else ds.pk4d
                        w = want[(step, cur)]
                        badk = [k_ for k_ in w if k_ not in got or not np.array_equal(np.asarray(got[k_]), w[k_])]
                        if badk:
                            sh.violation("DataSet.%s:not-the-table-for-the-monitor-that-is-set" % step,
                                         {"kind": "dataset", "history": list(hist[:pos + 1])}, {"column": badk[0], "monitor_now": cur})
                            break
                    sh.evaluations += 1
                    sh.nontrivial += 1
                    sh.states += 1
                    sh.transitions += len(hist)
    finally:
        shutil.rmtree(wd, ignore_errors=True)
    sh.outcomes.add(("dataset", depth))
    sh.sample({"kind": "dataset", "depth": depth, "histories": int(sh.evaluations)}, limit=1)
    return sh


def run_shard(desc):
    if desc[0] == "dataset":
        return _run_dataset(desc)
    if desc[0] == "scanpairs":
        from vt.props import c14
        return c14._run_scanpairs(desc)
    return {"graphs": _run_graphs, "structured": _run_structured, "merge": _run_merge, "pipeline": _run_pipeline}[desc[0]](desc)


def finalize(merged, tier, seed):
    M = model()
    return {"extracted_model_info": dict(M.info, **merge_model().info), "extracted_model_source_sha": __import__("hashlib").sha256("".join(M.sources.values()).encode()).hexdigest()[:16]}


def replay(case):
    if case["kind"] == "dataset":
        r = _run_dataset(("dataset", len(case["history"])))
        r.violations = [v for v in r.violations if v["case"]["history"] == case["history"]]
        return (not r.violations), {"violations": r.violations[:3]}
    if case["kind"] == "scanpairs":
        from vt.props import c14
        return c14.replay(case)
    if case["kind"] == "graph":
        el = [tuple(e) for e in case["edges"]]
        gl = list(graphs(case["nodes"], max(1, len(el))))
        gi = gl.index(tuple(el))
        r = _run_graphs(("graphs", case["nodes"], max(1, len(el)), gi, len(gl)))
    elif case["kind"] == "pipeline":
        r = _run_pipeline(("pipeline", 0, 1, "thorough"))
        r.violations = [v for v in r.violations if v["case"]["frames"] == case["frames"]]
    elif case["kind"] == "structured":
        r = _run_structured(("structured", "quick"))
    else:
        r = _run_merge(("merge", 0, 1))
        r.violations = [v for v in r.violations if v["case"]["labels"] == case["labels"] and v["case"]["scale"] == case["scale"]]
    return (not r.violations), {"violations": r.violations[:3]}
