"""C16 - symmetry groups are proper point groups; orientation reduction is canonical.

Exhaustive over the ten named groups, their elements and ALL element products:
closure, identity, inverses, det = +1, integer entries, order of the proper point group, metric
preservation o.G.o^T = G for conventional conforming cells.  find_uniq_u: generic UBIs of
conforming cells x EVERY group element applied beforehand -> identical result, idempotent,
lattice-equivalent to the input, same cell.  find_uniq_hkls: ALL hkl in [-3,3]^3 x every element
-> same representative, inside the orbit.  Users: refinegrains.makeuniq on the same inputs.
"""
from __future__ import annotations
import itertools, os
import numpy as np
from vt.runner import Shard
from vt import oracles as O

LEVEL = "exploration"
RULE = ("cases = (group, element) / (group, element pair) / (group, UBI, element applied beforehand) / (group, hkl, element), "
        "all enumerated; non-trivial = the element involved is not the identity")
ASSUMPTIONS = ["conforming cells are the conventional settings named in DESIGN.md (hexagonal axes gamma = 120 for "
               "hexagonal/trigonal; a=b=c, alpha=beta=gamma for rhombohedralP; unique axis as named for monoclinic)",
               "UBIs whose two best orbit members have traces equal to 1e-9 are borderline (no arg-max is canonical on ties)"]

GROUPS = {
    # name: (expected order, conforming cells)
    "cubic": (24, [[4.0, 4.0, 4.0, 90, 90, 90], [7.3, 7.3, 7.3, 90, 90, 90]]),
    "hexagonal": (12, [[3.0, 3.0, 5.0, 90, 90, 120], [4.7, 4.7, 2.9, 90, 90, 120]]),
    "trigonal": (6, [[3.0, 3.0, 5.0, 90, 90, 120], [4.7, 4.7, 2.9, 90, 90, 120]]),
    "rhombohedralP": (6, [[5.0, 5.0, 5.0, 70, 70, 70], [4.2, 4.2, 4.2, 100, 100, 100]]),
    "tetragonal": (8, [[4.0, 4.0, 6.0, 90, 90, 90], [5.5, 5.5, 3.1, 90, 90, 90]]),
    "orthorhombic": (4, [[3.0, 4.0, 5.0, 90, 90, 90], [6.1, 2.9, 4.4, 90, 90, 90]]),
    "monoclinic_a": (2, [[3.0, 4.0, 5.0, 101, 90, 90], [6.1, 2.9, 4.4, 77, 90, 90]]),
    "monoclinic_b": (2, [[3.0, 4.0, 5.0, 90, 101, 90], [6.1, 2.9, 4.4, 90, 77, 90]]),
    "monoclinic_c": (2, [[3.0, 4.0, 5.0, 90, 90, 101], [6.1, 2.9, 4.4, 90, 90, 77]]),
    "triclinic": (1, [[3.0, 4.0, 5.0, 80, 95, 105], [4.1, 5.2, 6.3, 100, 85, 75]]),
}


def plan(tier, seed):
    shards = [("group", g) for g in GROUPS] + [("uniq_u", g) for g in GROUPS] + [("uniq_hkl", g) for g in GROUPS]
    shards.append(("alias",))
    shards += [("uniqlist", g) for g in GROUPS]
    shards += [("threads", g) for g in GROUPS]
    shards += [("threads_uniq", g) for g in ("cubic", "hexagonal", "tetragonal", "monoclinic_b")]
    shards += [("idxpoint", k_) for k_ in range(4)]
    shards += [("domap", k_) for k_ in range(4 if tier == "quick" else 12)]
    names = list(GROUPS)
    for a in names:
        shards.append(("history", a, 2 if tier == "quick" else 3))
    k = seed % len(shards)
    return shards[k:] + shards[:k]


def seed_of():
    return int(os.environ.get("VERIF_SEED", "0") or 0)


def member_index(ops, m, tol=1e-9):
    for k, o in enumerate(ops):
        if np.abs(o - m).max() < tol:
            return k
    return -1


def _run_group(desc):
    _, name = desc
    from ImageD11 import sym_u
    sh = Shard()
    order, cells = GROUPS[name]
    ops = [np.asarray(o, float) for o in getattr(sym_u, name)().group]
    ops2 = [np.asarray(o, float) for o in sym_u.getgroup(name)().group]
    case = {"kind": "group", "group": name}
    if len(ops) != order:
        sh.violation("%s:order" % name, case, {"order": len(ops), "expected": order})
    if len(ops2) != len(ops) or any(member_index(ops, o) < 0 for o in ops2):
        sh.violation("%s:getgroup-differs" % name, case, {})
    if member_index(ops, np.eye(3)) < 0:
        sh.violation("%s:no-identity" % name, case, {})
    for k, o in enumerate(ops):
        c = dict(case, element=k, op=o)
        if np.abs(o - np.round(o)).max() > 1e-12:
            sh.violation("%s:non-integer-operator" % name, c, {})
        if abs(np.linalg.det(o) - 1.0) > 1e-9:
            sh.violation("%s:det-not-plus-one" % name, c, {"det": float(np.linalg.det(o))})
        if member_index(ops, np.linalg.inv(o)) < 0:
            sh.violation("%s:inverse-missing" % name, c, {})
        for cell in cells:
            G = O.cell_metric(cell)
            G2 = np.dot(o, np.dot(G, o.T))
            if np.abs(G2 - G).max() > 1e-9 * np.abs(G).max():
                sh.violation("%s:metric-not-preserved" % name, dict(c, cell=cell), {"max_change": float(np.abs(G2 - G).max())})
        sh.evaluations += 1
        if np.abs(o - np.eye(3)).max() > 0:
            sh.nontrivial += 1
    dup = sum(1 for a, b in itertools.combinations(range(len(ops)), 2) if np.abs(ops[a] - ops[b]).max() < 1e-9)
    if dup:
        sh.violation("%s:duplicate-elements" % name, case, {"n": dup})
    for a, b in itertools.product(range(len(ops)), repeat=2):
        if member_index(ops, np.dot(ops[a], ops[b])) < 0:
            sh.violation("%s:not-closed" % name, dict(case, a=a, b=b), {"product": np.dot(ops[a], ops[b])})
        sh.evaluations += 1
        if a and b:
            sh.nontrivial += 1
    sh.outcomes.add((name, len(ops)))
    sh.sample({"group": name, "order": len(ops), "first_non_identity": ops[-1]}, limit=1)
    return sh


def _ubis(name, seed):
    order, cells = GROUPS[name]
    # generic rotations plus near-180-degree rotations about the axes (every orbit member can then have a negative trace)
    rots = O.generic_rotations(seed) + [O.rotation_from_axis_angle(a, 170.0) for a in ((1, 0, 0), (0, 1, 0), (0, 0, 1), (1, 1, 0), (0, 1, 1), (1, 0, -1))]
    out = []
    for ci, cell in enumerate(cells):
        B = O.cell_to_B(cell)
        for ri in range(len(rots)):
            if ri < 6 and ri // 3 != ci:
                continue
            U = rots[ri]
            out.append((cell, np.linalg.inv(np.dot(U, B))))
    return out


def border_ubis(ops, cell, U0, nmax=4):
    """orientations a hair (2e-5 degrees) away from the border between two equivalent settings: the two best members of the orbit differ in
    trace by 1e-8 .. 5e-6 - far above rounding, so the reduction is still decided, but below any 'tolerance' one might be tempted to add"""
    B = O.cell_to_B(cell)

    def top(theta):
        ubi = np.linalg.inv(np.dot(np.dot(O.rotation_from_axis_angle((0, 0, 1), theta), U0), B))
        tr = np.array([np.trace(np.dot(o, ubi)) for o in ops])
        order = np.argsort(tr)[::-1]
        return ubi, int(order[0]), float(tr[order[0]] - tr[order[1]])
    out = []
    if len(ops) < 2:
        return out
    prev = top(0.0)
    for th in range(1, 361):
        cur = top(float(th))
        if cur[1] != prev[1]:
            lo, hi, a = th - 1.0, float(th), prev[1]
            for _ in range(60):
                mid = 0.5 * (lo + hi)
                if top(mid)[1] == a:
                    lo = mid
                else:
                    hi = mid
            for d in (2e-5, -2e-5):
                ubi, _, gap = top(hi + d)
                if 1e-8 < gap < 5e-6:
                    out.append((cell, ubi))
            if len(out) >= nmax:
                break
        prev = cur
    return out


def _run_uniq_u(desc):
    _, name = desc
    from ImageD11 import sym_u, refinegrains, grain
    sh = Shard()
    grp = getattr(sym_u, name)()
    ops = [np.asarray(o, float) for o in grp.group]
    near = border_ubis(ops, GROUPS[name][1][0], O.generic_rotations(seed_of())[2])
    sh.count("orientations_next_to_a_setting_border", len(near))
    for cell, ubi in _ubis(name, seed_of()) + near:
        orbit = [np.dot(o, ubi) for o in ops]
        traces = sorted((np.trace(x) for x in orbit), reverse=True)
        case0 = {"kind": "uniq_u", "group": name, "cell": cell, "ubi": ubi}
        if len(traces) > 1 and traces[0] - traces[1] < 1e-9:
            sh.borderline += len(ops)
            continue
        results = []
        for k, start in enumerate(orbit):
            r = sym_u.find_uniq_u(start, grp)
            results.append(r)
            case = dict(case0, element=k)
            if member_index(orbit, r, 1e-9) < 0:
                sh.violation("%s:find_uniq_u-result-not-in-orbit" % name, case, {"result": r})
            r2 = sym_u.find_uniq_u(r, grp)
            if np.abs(r2 - r).max() > 1e-12:
                sh.violation("%s:find_uniq_u-not-idempotent" % name, case, {"first": r, "second": r2})
            if not O.lattice_equivalent(r, start):
                sh.violation("%s:find_uniq_u-changes-lattice" % name, case, {"result": r})
            cp = O.metric_to_cell(np.dot(r, r.T))
            if np.abs(cp - np.array(cell)).max() > 1e-7:
                sh.violation("%s:find_uniq_u-changes-cell" % name, case, {"cell_out": cp})
            if np.linalg.det(r) <= 0:
                sh.violation("%s:find_uniq_u-left-handed" % name, case, {})
            sh.evaluations += 1
            if k:
                sh.nontrivial += 1
        for k, r in enumerate(results):
            if np.abs(r - results[0]).max() > 1e-9:
                sh.violation("%s:find_uniq_u-not-canonical" % name, dict(case0, element=k), {"from_identity": results[0], "from_element": r})
                break
        # user: refinegrains.makeuniq on the same inputs
        o = refinegrains.refinegrains()
        o.ubisread = {k: x.copy() for k, x in enumerate(orbit)}
        o.grains = {(k, "s"): grain.grain(x.copy()) for k, x in enumerate(orbit)}
        o.makeuniq(name)
        for k in range(len(orbit)):
            if np.abs(o.ubisread[k] - results[0]).max() > 1e-9 or np.abs(o.grains[(k, "s")].ubi - results[0]).max() > 1e-9:
                sh.violation("%s:refinegrains.makeuniq-not-canonical" % name, dict(case0, element=k), {})
                break
        # history: grains refined after they were generated differ (slightly) from the matrices read from file; makeuniq must reduce
        # each grain's OWN matrix
        o = refinegrains.refinegrains()
        small = O.rotation_from_axis_angle((2, -1, 3), 0.05)
        o.ubisread = {0: orbit[0].copy()}
        refined = {(0, "s1"): np.dot(orbit[0], small.T) * 1.001, (0, "s2"): np.dot(orbit[-1], small) * 0.999}
        o.grains = {k: grain.grain(v.copy()) for k, v in refined.items()}
        o.makeuniq(name)
        for k, v in refined.items():
            want_u = sym_u.find_uniq_u(v, grp)
            if np.abs(o.grains[k].ubi - want_u).max() > 1e-12:
                sh.violation("%s:refinegrains.makeuniq-does-not-reduce-the-grain's-own-matrix" % name, dict(case0, scan=k[1]), {"got": o.grains[k].ubi, "expected": want_u})
                break
        sh.outcomes.add((name, round(float(traces[0]), 3)))
    sh.sample({"group": name, "ubi": ubi, "elements_applied": len(ops)}, limit=1)
    return sh


def _run_uniq_hkl(desc):
    _, name = desc
    from ImageD11 import sym_u
    sh = Shard()
    grp = getattr(sym_u, name)()
    ops = [np.asarray(o, float) for o in grp.group]
    rng = range(-3, 4)
    hkls = np.array([(h, k, l) for h in rng for k in rng for l in rng], float).T      # 3 x 343
    hk0 = hkls.copy()
    ref = sym_u.find_uniq_hkls(hkls, grp)
    if not np.array_equal(hkls, hk0):
        sh.violation("%s:find_uniq_hkls-overwrites-the-caller's-list" % name, {"kind": "uniq_hkl", "group": name, "input": "float64 3xn array"},
                     {"columns_changed": int((hkls != hk0).any(axis=0).sum())})
        hkls = hk0.copy()
    # the same list as integers and as a C-ordered float array: same answer
    for alt, what in ((hk0.astype(int), "int array"), (np.ascontiguousarray(hk0), "contiguous float64 array")):
        keep = alt.copy()
        ra = sym_u.find_uniq_hkls(alt, grp)
        if np.abs(np.asarray(ra, float) - ref).max() > 1e-9 or not np.array_equal(alt, keep):
            sh.violation("%s:find_uniq_hkls-depends-on-the-array-type-or-overwrites-it" % name, {"kind": "uniq_hkl", "group": name, "input": what},
                         {"input_changed": not np.array_equal(alt, keep)})
    for k, o in enumerate(ops):
        moved = np.dot(o, hk0)
        r = sym_u.find_uniq_hkls(moved, grp)
        bad = np.abs(r - ref).max(axis=0) > 1e-9
        if bad.any():
            j = int(np.nonzero(bad)[0][0])
            sh.violation("%s:find_uniq_hkls-not-canonical" % name, {"kind": "uniq_hkl", "group": name, "element": k, "hkl": hkls[:, j]},
                         {"from_identity": ref[:, j], "from_element": r[:, j]})
        sh.evaluations += hkls.shape[1]
        if k:
            sh.nontrivial += hkls.shape[1]
    # every list length (incl. the square 3 x 3 case): each column reduces as it does alone
    single = {tuple(hkls[:, j]): tuple(ref[:, j]) for j in range(hkls.shape[1])}
    for nlen in (1, 2, 3, 4, 5, 8):
        for start in range(0, hkls.shape[1] - nlen, 17):
            sub = hkls[:, start:start + nlen].copy()
            keys = [tuple(sub[:, j]) for j in range(nlen)]            # noted BEFORE the call: the check does not assume the list survives it
            r = sym_u.find_uniq_hkls(sub, grp)
            if r.shape != sub.shape or any(tuple(r[:, j]) != single[keys[j]] for j in range(nlen)):
                sh.violation("%s:find_uniq_hkls-depends-on-list-length" % name, {"kind": "uniq_hkl", "group": name, "length": nlen, "start": start},
                             {"got": r, "expected": [single[keys[j]] for j in range(nlen)]})
                break
            sh.evaluations += nlen
    # representative lies in the orbit and reduction is idempotent
    orbit = np.array([np.dot(o, hkls) for o in ops])            # nops x 3 x n
    inorb = (np.abs(orbit - ref[None]).max(axis=1) < 1e-9).any(axis=0)
    if not inorb.all():
        j = int(np.nonzero(~inorb)[0][0])
        sh.violation("%s:find_uniq_hkls-result-not-in-orbit" % name, {"kind": "uniq_hkl", "group": name, "hkl": hkls[:, j]}, {"result": ref[:, j]})
    r2 = sym_u.find_uniq_hkls(ref.copy(), grp)
    if np.abs(r2 - ref).max() > 1e-9:
        sh.violation("%s:find_uniq_hkls-not-idempotent" % name, {"kind": "uniq_hkl", "group": name}, {})
    sh.sample({"group": name, "hkl": [1, -2, 3], "representative": ref[:, int(np.nonzero((hkls.T == [1, -2, 3]).all(axis=1))[0][0])]}, limit=1)
    sh.outcomes.add((name, "hkl"))
    return sh


def _run_alias(desc):
    from ImageD11 import sym_u
    sh = Shard()
    a = [np.asarray(o) for o in sym_u.trigonalP().group]
    b = [np.asarray(o) for o in sym_u.rhombohedralP().group]
    if len(a) != len(b) or any(member_index(b, o) < 0 for o in a):
        sh.violation("trigonalP-alias-differs", {"kind": "alias"}, {})
    sh.evaluations += 1
    sh.nontrivial += 1
    sh.sample({"alias": "trigonalP == rhombohedralP"})
    return sh


def _run_history(desc):
    """call histories of the group constructors in one process (they share a module-level cache): for every sequence
    first, then any one (thorough: two) other constructors, the groups obtained afterwards must still be the right ones"""
    _, first, depth = desc
    from ImageD11 import sym_u
    sh = Shard()
    names = list(GROUPS)
    ref = {}
    for n in names:
        sym_u.symcache.clear()
        ref[n] = [np.array(o, float) for o in getattr(sym_u, n)().group]
    for rest in itertools.product(names, repeat=depth - 1):
        seq = (first,) + rest
        sym_u.symcache.clear()
        for n in seq:
            getattr(sym_u, n)()
        for n in set(seq):
            ops = [np.array(o, float) for o in getattr(sym_u, n)().group]
            if len(ops) != len(ref[n]) or any(member_index(ref[n], o) < 0 for o in ops):
                sh.violation("%s:group-changed-by-constructing-other-groups" % n, {"kind": "history", "history": list(seq), "group": n},
                             {"order_now": len(ops), "order_expected": len(ref[n])})
                break
        sh.evaluations += 1
        sh.nontrivial += 1
    sym_u.symcache.clear()
    sh.sample({"kind": "history", "history": list(seq)}, limit=1)
    sh.outcomes.add(("history", first))
    return sh


def _run_uniqlist(desc):
    """grid_index_parallel.uniq_grain_list (the collector that recognises a grain found again in a symmetry-equivalent setting): every
    insertion order of a 6-element set {g, two other settings of g, a grain misoriented by 7 degrees, another setting of that one, g at
    a distant position}; after every insertion the collector holds exactly one entry per (position, symmetry orbit) class seen so far"""
    _, name = desc
    from ImageD11 import sym_u, grain, grid_index_parallel as gip
    import io, contextlib
    sh = Shard()
    ops = [np.asarray(o, float) for o in getattr(sym_u, name)().group]
    for cell, ubi in _ubis(name, seed_of())[:3]:
        ubi2 = np.dot(ubi, O.rotation_from_axis_angle((3, 1, -2), 7.0).T)
        k1, k2 = len(ops) - 1, len(ops) // 2
        t0, tfar = np.array([10.0, -20.0, 5.0]), np.array([10.0, 480.0, 5.0])
        members = [(ubi, t0, "A"), (np.dot(ops[k1], ubi), t0 + 1.0, "A"), (np.dot(ops[k2], ubi), t0 - 1.0, "A"), (ubi2, t0, "B"),
                   (np.dot(ops[k1], ubi2), t0 + 0.5, "B"), (np.dot(ops[k2], ubi), tfar, "C")]
        for oi, order in enumerate(itertools.permutations(range(len(members)))):
            with contextlib.redirect_stdout(io.StringIO()):
                ul = gip.uniq_grain_list(name, 10.0, 1.0)
                seen = []
                for pos, m in enumerate(order):
                    u, t, cls = members[m]
                    ul.add([grain.grain(u.copy(), translation=t.copy())])
                    if cls not in seen:
                        seen.append(cls)
                    if len(ul.uniqgrains) != len(seen):
                        sh.violation("%s:uniq_grain_list:entries-differ-from-distinct-grains" % name,
                                     {"kind": "uniqlist", "group": name, "cell": cell, "order": list(order[:pos + 1])},
                                     {"entries": len(ul.uniqgrains), "distinct_grains_added": len(seen)})
                        break
                else:
                    if sum(g.nfound for g in ul.uniqgrains) != len(members):
                        sh.violation("%s:uniq_grain_list:times-found-do-not-add-up" % name, {"kind": "uniqlist", "group": name, "cell": cell, "order": list(order)},
                                     {"nfound": [int(g.nfound) for g in ul.uniqgrains]})
                # the same six grains arriving in BATCHES (one add() call with several grains - the output of one grid point - or the
                # constructor's grains= argument): the collector ends with the same three entries
                if not sh.violations and oi % 6 == 0:            # every sixth order (120 of 720)
                    gl = [grain.grain(members[m][0].copy(), translation=members[m][1].copy()) for m in order]
                    for split in ((6,), (3, 3), (1, 2, 3), (2, 4), "constructor"):
                        if split == "constructor":
                            ul = gip.uniq_grain_list(name, 10.0, 1.0, grains=gl)
                        else:
                            ul = gip.uniq_grain_list(name, 10.0, 1.0)
                            at = 0
                            for nb in split:
                                ul.add(gl[at:at + nb]); at += nb
                        if len(ul.uniqgrains) != 3 or sum(g.nfound for g in ul.uniqgrains) != len(members):
                            sh.violation("%s:uniq_grain_list:batched-insertion-differs" % name,
                                         {"kind": "uniqlist", "group": name, "cell": cell, "order": list(order), "batches": split if split == "constructor" else list(split)},
                                         {"entries": len(ul.uniqgrains), "distinct_grains_added": 3, "nfound": [int(g.nfound) for g in ul.uniqgrains]})
                            break
                        sh.states += 1
                # grain OBJECTS that have been in another collector before (a restart from saved unique grains; a first collection made
                # without symmetry): the second collector decides with ITS group and with the orientation the grain has NOW
                if not sh.violations and oi % 24 == 0:            # every 24th order (30 of 720)
                    gl = [grain.grain(members[m][0].copy(), translation=members[m][1].copy()) for m in order]
                    first = gip.uniq_grain_list("triclinic", 10.0, 1.0, grains=gl)
                    ul = gip.uniq_grain_list(name, 10.0, 1.0, grains=first.uniqgrains)
                    want = 3 if len(ops) > 1 else len(first.uniqgrains)
                    if len(ul.uniqgrains) != want:
                        sh.violation("%s:uniq_grain_list:grains-that-were-in-a-triclinic-collector-before-are-not-merged" % name,
                                     {"kind": "uniqlist", "group": name, "cell": cell, "order": list(order), "history": "triclinic-first"},
                                     {"entries": len(ul.uniqgrains), "distinct_grains_added": want})
                    # ... and a grain of the collector is refined (set_ubi, 3 degrees) before the collection is rebuilt: a fresh grain in
                    # another setting of the NEW orientation is that grain, one with the OLD orientation is not
                    if not sh.violations:
                        a = ul.uniqgrains[:1]
                        old_ubi = a[0].ubi.copy()
                        new_ubi = np.dot(old_ubi, O.rotation_from_axis_angle((1, 1, 5), 3.0).T)
                        a[0].set_ubi(new_ubi)
                        n0 = len(ul.uniqgrains)
                        again = gip.uniq_grain_list(name, 10.0, 1.0, grains=list(ul.uniqgrains))
                        again.add([grain.grain(np.dot(ops[k1], new_ubi), translation=a[0].translation + 0.5)])
                        n1 = len(again.uniqgrains)
                        again.add([grain.grain(np.dot(ops[k2], old_ubi), translation=a[0].translation - 0.5)])
                        n2 = len(again.uniqgrains)
                        if (n1, n2) != (n0, n0 + 1):
                            sh.violation("%s:uniq_grain_list:rebuilt-collector-does-not-use-the-refined-orientation" % name,
                                         {"kind": "uniqlist", "group": name, "cell": cell, "order": list(order), "history": "set_ubi-then-rebuild"},
                                         {"entries_before": n0, "after_new_orientation_again": n1, "after_old_orientation": n2})
                        sh.states += 2
            sh.evaluations += 1
            sh.states += 1
            if len(ops) > 1:
                sh.nontrivial += 1
            if sh.violations:
                return sh
    sh.outcomes.add((name, "uniqlist"))
    sh.sample({"kind": "uniqlist", "group": name, "orders": 720}, limit=1)
    return sh


def _run_threads(desc):
    """two python threads ask for the same named group while the module-level cache is empty (workers of a thread pool starting
    up): every interleaving with at most 2 preemptions at the statements of sym_u.generate_group (the check-then-build-then-publish
    region) is executed; each thread must receive the complete group, and the cache must hold it afterwards"""
    _, name = desc
    from ImageD11 import sym_u
    from vt import pysched
    sh = Shard()
    order, cells = GROUPS[name]
    sym_u.symcache.clear()
    ref = [np.asarray(o, float) for o in getattr(sym_u, name)().group]
    fn = sym_u.generate_group.__code__

    def is_point(frame):
        return frame.f_code is fn

    def make():
        return [lambda: [np.asarray(o, float).copy() for o in getattr(sym_u, name)().group] for _ in range(2)]
    nexec = 0
    for sw, res, err in pysched.explore(make, is_point, bound=2, reset=sym_u.symcache.clear):
        nexec += 1
        case = {"kind": "threads", "group": name, "switch_at_points": list(sw)}
        for t in range(2):
            if err[t] is not None:
                sh.violation("%s:concurrent-construction-raises" % name, dict(case, thread=t), {"error": repr(err[t])[:200]})
                break
            got = res[t]
            if len(got) != len(ref) or any(member_index(ref, o) < 0 for o in got):
                sh.violation("%s:thread-received-an-incomplete-group" % name, dict(case, thread=t), {"order_seen": len(got), "order": len(ref)})
                break
        else:
            after = [np.asarray(o, float) for o in getattr(sym_u, name)().group]
            if len(after) != len(ref):
                sh.violation("%s:cache-holds-an-incomplete-group-afterwards" % name, case, {"order_seen": len(after)})
        sh.states += 1
        sh.traces_validated += 1
        if sh.violations:
            break
    sym_u.symcache.clear()
    sh.evaluations += 1
    sh.nontrivial += 1
    sh.counters["max_schedules_per_group"] = nexec
    sh.count("thread_schedules_executed", nexec)
    sh.outcomes.add((name, "threads"))
    sh.sample({"kind": "threads", "group": name, "schedules": nexec}, limit=1)
    return sh


def _run_threads_uniq(desc):
    """two python threads reduce two DIFFERENT orientations with the same named group at the same time (the group object is cached per
    process, so both threads hold the same object): every schedule with one preemption at a statement of the sym_u module is executed;
    each thread must get the canonical setting of ITS orientation, as it does when it runs alone"""
    _, name = desc
    from ImageD11 import sym_u
    from vt import pysched
    sh = Shard()
    grp = getattr(sym_u, name)()
    modfile = sym_u.__file__
    ub = _ubis(name, seed_of())
    ua, ubb = ub[0][1], ub[len(ub) // 2][1]
    ops = [np.asarray(o, float) for o in grp.group]
    starts = [np.dot(ops[-1], ua), np.dot(ops[len(ops) // 2], ubb)]
    alone = [np.array(sym_u.find_uniq_u(x.copy(), grp)) for x in starts]
    hk = np.array([[1, -2, 3], [0, 2, -1], [-3, 1, 1]], float).T
    alone_h = [np.array(sym_u.find_uniq_hkls(hk.copy(), grp)), np.array(sym_u.find_uniq_hkls(-hk[:, ::-1].copy(), grp))]

    def make():
        return [lambda: (np.array(sym_u.find_uniq_u(starts[0].copy(), grp)), np.array(sym_u.find_uniq_hkls(hk.copy(), grp))),
                lambda: (np.array(sym_u.find_uniq_u(starts[1].copy(), grp)), np.array(sym_u.find_uniq_hkls(-hk[:, ::-1].copy(), grp)))]
    nexec = 0
    for sw, res, err in pysched.explore(make, lambda fr: fr.f_code.co_filename == modfile, bound=1, max_exec=5000):
        nexec += 1
        case = {"kind": "threads_uniq", "group": name, "switch_at_points": list(sw)}
        for t in range(2):
            if err[t] is not None:
                sh.violation("%s:concurrent-reduction-raises" % name, dict(case, thread=t), {"error": repr(err[t])[:200]})
                break
            if not (np.array_equal(res[t][0], alone[t]) and np.array_equal(res[t][1], alone_h[t])):
                sh.violation("%s:concurrent-reduction-gives-another-setting-than-alone" % name, dict(case, thread=t),
                             {"got": res[t][0], "alone": alone[t]})
                break
        sh.states += 1
        sh.traces_validated += 1
        if sh.violations:
            break
    sh.evaluations += 1
    sh.nontrivial += 1
    sh.count("thread_schedules_executed", nexec)
    sh.outcomes.add((name, "threads_uniq"))
    sh.sample({"kind": "threads_uniq", "group": name, "schedules": nexec}, limit=1)
    return sh


def _run_idxpoint(desc):
    """point_by_point.idxpoint (indexing at one sample point, the worker of the point-by-point scan): whatever the number of
    orientations found at the point (one or two here), every matrix it returns is the canonical setting of its symmetry orbit, i.e.
    equal to find_uniq_u of the true grain, and indexes the grain's peaks"""
    _, k_ = desc
    import io, contextlib
    from ImageD11 import sym_u, transform as tr, parameters as P, unitcell as ucm, indexing
    from ImageD11.sinograms import point_by_point as pbp
    from vt.props import c09
    indexing.loglevel = 4
    sh = Shard()
    pars = c09.geometries("quick")[(k_ * 5) % 32]
    grp = sym_u.cubic()
    for ng in (1, 2):
        truth = [(u, np.zeros(3)) for u, t in c09.true_grains(ng, seed_of() + k_, strained=False)]
        # present the grains in a non-canonical setting (another member of the orbit)
        truth = [(np.dot(np.asarray(grp.group[(7 * q + 5) % len(grp.group)], float), u), t) for q, (u, t) in enumerate(truth)]
        pk = c09.simulate(tr, pars, truth)
        det = {k: pars[k] for k in ("distance", "y_center", "z_center", "y_size", "z_size", "tilt_x", "tilt_y", "tilt_z", "o11", "o12", "o21", "o22")}
        xyz = tr.compute_xyz_lab(np.array([pk[:, 0], pk[:, 1]]), **det)
        omega = pk[:, 2].copy()
        so, co = np.sin(np.radians(omega * pars["omegasign"])), np.cos(np.radians(omega * pars["omegasign"]))
        pbp.ucglobal = ucm.unitcell(c09.CELL, c09.SYM)
        pbp.symglobal = grp
        pbp.parglobal = P.parameters(**pars)
        n = len(omega)
        with contextlib.redirect_stdout(io.StringIO()):
            res = pbp.idxpoint(0, 0, np.ones(n, bool), omega, so, co, np.zeros(n, int), xyz[0].copy(), xyz[1].copy(), xyz[2].copy(), pk[:, 8].copy(),
                               ystep=1.0, y0=0.0, ymin=0.0, minpks=int(0.6 * n / ng), hkl_tol=0.03, ds_tol=0.005, forgen=[0, 1, 2], uniqcut=0.5, hmax=8)
        indexing.loglevel = 4
        case = {"kind": "idxpoint", "geometry": (k_ * 5) % 32, "ngrains_at_the_point": ng, "seed": seed_of()}
        found = [np.asarray(r_[2], float) for r_ in res if r_[0] > 0]
        if ng == 2:
            # the same point through the worker entry points: initializer(parameter file, phase, symmetry, peaks file) and proxy(),
            # after the process was initialised once before for the SAME files with another symmetry (a first run with the wrong
            # setting): the orientations are reduced with the group asked for last
            import shutil
            from ImageD11 import columnfile as cfm
            wd = os.path.join(c09.WORK, "c16_ip_%d" % os.getpid())
            shutil.rmtree(wd, ignore_errors=True)
            os.makedirs(wd)
            try:
                parfile, colfile = os.path.join(wd, "p.par"), os.path.join(wd, "icolf.h5")
                P.parameters(**pars).saveparameters(parfile)
                cols = {"xl": xyz[0].copy(), "yl": xyz[1].copy(), "zl": xyz[2].copy(), "omega": omega.copy(), "eta": pk[:, 8].copy(),
                        "dtyi": np.zeros(n, int), "sinomega": so.copy(), "cosomega": co.copy(), "isel": np.ones(n, int)}
                with contextlib.redirect_stdout(io.StringIO()):
                    cfm.colfile_to_hdf(cfm.colfile_from_dict(cols), colfile, name="peaks", compression=None)
                    opts = dict(ystep=1.0, y0=0.0, ymin=0.0, minpks=int(0.6 * n / ng), hkl_tol=0.03, ds_tol=0.005, forgen=[0, 1, 2], uniqcut=0.5, hmax=8)
                    pbp.initializer(parfile, None, "triclinic", colfile, loglevel=4)
                    pbp.proxy((0, 0, opts))
                    pbp.initializer(parfile, None, "cubic", colfile, loglevel=4)
                    _, _, res2 = pbp.proxy((0, 0, opts))
                indexing.loglevel = 4
                found2 = [np.asarray(r_[2], float) for r_ in res2 if r_[0] > 0]
                for u_true, _ in truth:
                    want = sym_u.find_uniq_u(u_true, grp)
                    if len(found2) != ng or not any(np.abs(f - want).max() < 1e-3 * np.abs(want).max() for f in found2):
                        sh.violation("idxpoint[initializer called again with another symmetry]:not-reduced-with-the-group-asked-for-last",
                                     dict(case, history=["initializer(triclinic)", "proxy", "initializer(cubic)", "proxy"]), {"found": len(found2)})
                        break
                sh.evaluations += 1
            finally:
                pbp.colglobal = None
                shutil.rmtree(wd, ignore_errors=True)
        if len(found) != ng:
            sh.violation("idxpoint:number-of-orientations-at-the-point", case, {"found": len(found)})
        else:
            for u_true, _ in truth:
                want = sym_u.find_uniq_u(u_true, grp)
                if not any(np.abs(f - want).max() < 1e-3 * np.abs(want).max() for f in found):
                    sh.violation("idxpoint:returned-orientation-is-not-the-canonical-setting", case,
                                 {"returned_traces": [float(np.trace(f)) for f in found], "canonical_trace": float(np.trace(want))})
                    break
        sh.evaluations += 1
        sh.nontrivial += 1
        sh.outcomes.add(("idxpoint", ng))
    sh.sample(case, limit=1)
    return sh


def _run_domap(desc):
    """grid_index_parallel.domap (the makemap step every grid point runs, three tolerance passes): a cubic grain 0.02 degrees inside its
    fundamental zone, handed in as the indexer found it (0.13 degrees off, on the other side of the border) or in another setting: what comes
    back is the canonical setting of the TRUE grain - the same matrix whichever estimate it was reached from"""
    _, k_ = desc
    import io, contextlib
    from ImageD11 import sym_u, transform as tr, parameters as P, grain, columnfile as cfm, grid_index_parallel as gip
    from vt.props import c09
    sh = Shard()
    pars = c09.geometries("quick")[(k_ * 7 + 1) % 32]
    grp = sym_u.cubic()
    ops = [np.asarray(o, float) for o in grp.group]
    B = O.cell_to_B(c09.CELL)
    U0 = O.generic_rotations(seed_of() + k_)[k_ % 6]
    axis = ((0, 0, 1), (1, 0, 0), (1, 2, -1), (0, 1, 0))[k_ % 4]

    def at(theta):
        return np.linalg.inv(np.dot(np.dot(O.rotation_from_axis_angle(axis, theta), U0), B))

    def best(theta):
        return int(np.argmax([np.trace(np.dot(o, at(theta))) for o in ops]))
    borders = []
    prev = best(0.0)
    for th in range(1, 181):
        cur = best(float(th))
        if cur != prev:
            lo, hi = th - 1.0, float(th)
            for _ in range(50):
                mid = 0.5 * (lo + hi)
                if best(mid) == prev:
                    lo = mid
                else:
                    hi = mid
            borders.append(0.5 * (lo + hi))
            if len(borders) >= 2:
                break
        prev = cur
    for tb in borders:
        for side in (1.0, -1.0):
            truth = at(tb + side * 0.02)
            want = sym_u.find_uniq_u(truth, grp)
            pk = c09.simulate(tr, pars, [(truth, np.zeros(3))])
            n = len(pk)
            results = []
            for label, guess in (("other-side-of-the-border", at(tb - side * 0.13)), ("same-side", at(tb + side * 0.15)),
                                 ("other-setting", np.dot(ops[(5 + k_) % 24], at(tb - side * 0.13)))):
                colf = cfm.colfile_from_dict({"sc": pk[:, 0].copy(), "fc": pk[:, 1].copy(), "omega": pk[:, 2].copy(), "xc": pk[:, 0].copy(), "yc": pk[:, 1].copy(),
                                              "sum_intensity": np.ones(n), "Number_of_pixels": np.ones(n) * 10, "drlv2": np.ones(n), "labels": np.ones(n) - 2})
                gridpars = {"OMEGAFLOAT": 0.0, "TOLSEQ": [0.05, 0.02, 0.01], "NUL": True, "SYMMETRY": "cubic", "NPKS": 20, "FITPOS": True}
                case = {"kind": "domap", "k": k_, "border_at_deg": tb, "truth_side": side, "estimate": label}
                with contextlib.redirect_stdout(io.StringIO()):
                    from ImageD11 import transformer
                    pobj = transformer.transformer().parameterobj          # the parameter object test_many_points() hands to domap
                    pobj.set_parameters(dict(pars))
                    gl = gip.domap(pobj, colf, [grain.grain(guess, np.zeros(3))], gridpars)
                sh.evaluations += 1
                if len(gl) != 1 or gl[0].npks < 0.9 * n:
                    sh.violation("domap:grain-lost", case, {"returned": len(gl), "npks": [int(g.npks) for g in gl], "peaks": n})
                    continue
                got = np.asarray(gl[0].ubi, float)
                results.append(got)
                sh.nontrivial += 1
                if np.abs(got - want).max() > 1e-4 * np.abs(want).max():
                    equivalent = any(np.abs(np.dot(o, got) - want).max() < 1e-4 * np.abs(want).max() for o in ops)
                    sh.violation("domap:returned-grain-is-not-the-canonical-setting-of-the-grain" if equivalent else "domap:returned-grain-is-not-the-simulated-one",
                                 case, {"trace_returned": float(np.trace(got)), "trace_canonical": float(np.trace(want))})
            sh.outcomes.add(("domap", len(results)))
    sh.sample({"kind": "domap", "k": k_, "borders": borders}, limit=1)
    return sh


def run_shard(desc):
    if desc[0] == "idxpoint":
        return _run_idxpoint(desc)
    if desc[0] == "domap":
        return _run_domap(desc)
    if desc[0] == "threads_uniq":
        return _run_threads_uniq(desc)
    if desc[0] == "threads":
        return _run_threads(desc)
    if desc[0] == "uniqlist":
        return _run_uniqlist(desc)
    if desc[0] == "history":
        return _run_history(desc)
    return {"group": _run_group, "uniq_u": _run_uniq_u, "uniq_hkl": _run_uniq_hkl, "alias": _run_alias}[desc[0]](desc)


def replay(case):
    kind = case["kind"]
    if kind == "history":
        r = _run_history(("history", case["history"][0], len(case["history"])))
        r.violations = [v for v in r.violations if v["case"]["history"] == case["history"]]
    elif kind == "idxpoint":
        r = _run_idxpoint(("idxpoint", [q for q in range(4) if (q * 5) % 32 == case["geometry"]][0]))
    elif kind == "alias":
        r = _run_alias(("alias",))
    elif kind == "domap":
        r = _run_domap(("domap", case["k"]))
    else:
        r = run_shard((kind, case["group"]))
    return (not r.violations), {"violations": r.violations[:5]}
