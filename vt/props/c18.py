"""C18 - saved peaks, parameters and grains read back as written.

Bounded exhaustive exploration of inputs and short save/load histories:
 A. columnfile text and HDF5: ALL non-empty subsets of a 6-title pool (one title per FORMATS class
    plus an unknown name) in two orders x a value table (0, -0.0, +-1e-12, +-1.2345678912345e-5,
    +-0.5, +-123456.789012, +-1e12, integers up to 2^53 for INT columns) x header parameters;
    text: titles and order, header parameters with value and type, every value equal to
    float(FORMAT % value) computed by the oracle; HDF: title set, exact values, integer dtype for INT
    titles; second save/load cycle is a fixed point; colfile_to_hdf onto an existing group with the
    same / a different length (either new content exactly, or raise with the old content intact).
 B. parameter files: ALL subsets of a pool of 12 (name, value) pairs with int, float (incl. -0.0,
    1e-300, 1e22, 5.0) and whitespace-free string values: names, values and types preserved.
 C. grain files: ALL lists of 0..3 grains over the 8 combinations of {translation, name, counts}
    present/absent; text (UBI 9 significant digits, translation 6) and HDF5 (exact), order, names,
    counts; repeated cycles; writing an HDF5 grain file twice.
 D. sparse frames through to_hdf_group / from_hdf_group, with and without metadata.
"""
from __future__ import annotations
import itertools, os, shutil, io, contextlib
import numpy as np
from vt.runner import Shard

LEVEL = "exploration"
RULE = ("cases = (title list, value table) / parameter dictionaries / grain lists / frames enumerated completely over the stated "
        "pools; non-trivial = text formatting actually rounds a value, or the list holds >= 2 grains with different optional fields")
ASSUMPTIONS = ["numeric-looking string parameter values and names containing '-' are outside the alphabet (coerced by documented "
               "design); string values contain no whitespace", "files have at least one row"]

WORK = os.path.join(os.path.dirname(os.path.dirname(os.path.dirname(os.path.abspath(__file__)))), ".work")
TITLES = ["sc", "Number_of_pixels", "U11", "eps11", "foo", "omega"]
# print precision documented in columnfile.py (FLOATS 4 decimals, LONGFLOATS 12, INTS 0, EXPONENTIALS 4-digit mantissa, anything
# else %f), written down here independently of the library's FORMATS table
DOCUMENTED = {"sc": "%.4f", "fc": "%.4f", "omega": "%.4f", "Number_of_pixels": "%.0f", "U11": "%.12f", "UBI23": "%.12f", "eps11": "%.4e",
              "eps12_s": "%.4e", "sig11": "%.4e", "e11e11": "%.4e", "e22e22_s": "%.4e", "s33s33": "%.4e", "e11e22": "%.4e", "s23s12_s": "%.4e", "e12e12": "%.4e", "e13e12": "%.4e",
              "foo": "%f", "t_x": "%f", "tth": "%.4f", "sum_intensity": "%.4f", "spot3d_id": "%.0f", "labels": "%.0f", "gx": "%.4f"}
MORE_TITLES = [["e11e11", "e22e22_s", "s33s33", "e11e22", "s23s12_s", "e12e12", "e13e12"], ["fc", "UBI23", "eps12_s", "sig11"], ["tth", "sum_intensity", "gx", "t_x"],
               ["spot3d_id", "labels", "e11e11", "sc"]]
FLOATVALS = [0.0, -0.0, 1e-12, -1e-12, 1.2345678912345e-5, -1.2345678912345e-5, 0.5, -0.5, 123456.789012, -123456.789012,
             1e12, -1e12, 0.00005, 2.5]
INTVALS = [0, 1, -1, 7, -12, 255, 65536, -65537, 2 ** 31, -(2 ** 31) - 1, 2 ** 53, -(2 ** 53), 3, 100000]


def plan(tier, seed):
    shards = []
    subs = [s for k in range(1, 7) for s in itertools.combinations(range(6), k)]
    for c in range(8):
        shards.append(("colfile", subs[c::8]))
    shards.append(("colfile", [tuple(t) for t in MORE_TITLES]))
    shards.append(("hdf_overwrite",))
    for c in range(8):
        shards.append(("pars", c, 8))
    for c in range(8):
        shards.append(("grains", c, 8, 3 if tier == "quick" else 4))
    shards.append(("sparse",))
    shards.append(("parvalues",))
    for c in range(4):
        shards.append(("jsonpars", c, 4))
    shards.append(("longlists",))
    shards.append(("bigtext",))
    shards.append(("indexerpars",))
    k = seed % len(shards)
    return shards[k:] + shards[:k]


def workdir(tag):
    d = os.path.join(WORK, "c18_%s_%d" % (tag, os.getpid()))
    os.makedirs(d, exist_ok=True)
    return d


def same(a, b):
    a = np.asarray(a, float); b = np.asarray(b, float)
    return a.shape == b.shape and np.array_equal(a, b) and np.array_equal(np.signbit(a), np.signbit(b))


# ------------------------------------------------------------------------------------------------ A
def build_cf(C, titles):
    cols = {}
    for t in titles:
        if t in C.INTS:
            cols[t] = np.array(INTVALS, float)
        else:
            cols[t] = np.array(FLOATVALS, float) * (1.0 if t != "omega" else 0.37)
    cf = C.colfile_from_dict(cols)
    cf.parameters.set("wavelength", 0.2846)
    cf.parameters.set("distance", 151234)
    cf.parameters.set("cell_lattice_[P,A,B,C,I,F,R]", "F")
    cf.parameters.set("o11", -1)
    cf.parameters.set("tiny", 1e-300)
    cf.parameters.set("sourcefile", "/data/year=2024/run=12/peaks.h5")
    cf.parameters.set("cut", "Number_of_pixels>=4")
    return cf, cols


def _run_colfile(desc):
    _, subs = desc
    from ImageD11 import columnfile as C
    sh = Shard()
    wd = workdir("cf")
    try:
        for sub in subs:
            for order in (1, -1):
                titles = ([TITLES[i] for i in sub] if not isinstance(sub[0], str) else list(sub))[::order]
                case = {"kind": "colfile", "titles": titles}
                cf, cols = build_cf(C, titles)
                # ---------- text
                p = os.path.join(wd, "a.flt")
                cf.writefile(p)
                with contextlib.redirect_stdout(io.StringIO()):
                    rd = C.columnfile(p)
                rounds = False
                ok = True
                if list(rd.titles) != titles:
                    sh.violation("text:titles-or-order", case, {"read": list(rd.titles)}); ok = False
                for t in titles if ok else []:
                    fmt = DOCUMENTED[t]
                    want = np.array([float(fmt % v) for v in cols[t]])
                    if not same(rd.getcolumn(t), want):
                        sh.violation("text:value-not-printed-precision", dict(case, title=t), {"read": rd.getcolumn(t), "expected": want}); ok = False
                        break
                    if not np.array_equal(want, cols[t]):
                        rounds = True
                if ok:
                    for name, val in (("wavelength", 0.2846), ("distance", 151234), ("cell_lattice_[P,A,B,C,I,F,R]", "F"), ("o11", -1),
                                      ("tiny", 1e-300), ("sourcefile", "/data/year=2024/run=12/peaks.h5"), ("cut", "Number_of_pixels>=4")):
                        got = rd.parameters.parameters.get(name, None)
                        if got != val or type(got) != type(val):
                            sh.violation("text:header-parameter", dict(case, name=name), {"read": repr(got), "written": repr(val)}); ok = False
                            break
                if ok:
                    # second cycle is a fixed point
                    p2 = os.path.join(wd, "b.flt")
                    rd.writefile(p2)
                    with contextlib.redirect_stdout(io.StringIO()):
                        rd2 = C.columnfile(p2)
                    if list(rd2.titles) != titles or any(not same(rd2.getcolumn(t), rd.getcolumn(t)) for t in titles):
                        sh.violation("text:second-cycle-not-a-fixed-point", case, {})
                if ok:
                    # one object walks over several files: after readfile(other) it is what a fresh columnfile(other) is - titles, values
                    # and header parameters (those of the file read before are gone)
                    p3 = os.path.join(wd, "c.flt")
                    with open(p3, "w") as fh_:
                        fh_.write("# o11 = 1\n# other = 5\n#  %s  extra\n" % titles[-1])
                        for q_ in range(3):
                            fh_.write("%d %d\n" % (q_ + 1, 7 - q_))
                    with contextlib.redirect_stdout(io.StringIO()):
                        fresh = C.columnfile(p3)
                        rd.readfile(p3)
                    pf, pr = dict(fresh.parameters.parameters), dict(rd.parameters.parameters)
                    if list(rd.titles) != list(fresh.titles) or rd.nrows != fresh.nrows or any(not same(rd.getcolumn(t), fresh.getcolumn(t)) for t in fresh.titles):
                        sh.violation("text:readfile-on-a-used-object-differs-from-a-fresh-read:columns", case, {"titles": list(rd.titles)})
                    elif pf != pr:
                        sh.violation("text:readfile-on-a-used-object-differs-from-a-fresh-read:header-parameters", case,
                                     {"only_in_the_reused_object": sorted(set(pr) - set(pf)), "differing": sorted(k_ for k_ in pf if k_ in pr and pf[k_] != pr[k_])})
                # ---------- hdf
                h = os.path.join(wd, "a.h5")
                if os.path.exists(h):
                    os.remove(h)
                C.colfile_to_hdf(cf, h, name="peaks")
                with contextlib.redirect_stdout(io.StringIO()):
                    rh = C.colfile_from_hdf(h, name="peaks")
                    rh2 = C.columnfile(h)            # magic-number route
                for r_, nm in ((rh, "colfile_from_hdf"), (rh2, "columnfile(hdf)")):
                    if set(r_.titles) != set(titles) or len(r_.titles) != len(titles):
                        sh.violation("hdf:title-set", dict(case, route=nm), {"read": list(r_.titles)})
                        break
                    bad = False
                    for t in titles:
                        got = r_.getcolumn(t)
                        if not same(got, cols[t]):
                            sh.violation("hdf:value-not-exact", dict(case, route=nm, title=t), {"read": got, "written": cols[t]}); bad = True
                            break
                        if t in C.INTS and not np.issubdtype(np.asarray(got).dtype, np.integer):
                            sh.violation("hdf:int-title-not-integer", dict(case, route=nm, title=t), {"dtype": str(np.asarray(got).dtype)}); bad = True
                            break
                    if bad:
                        break
                # colfileobj_to_hdf route
                h2 = os.path.join(wd, "b.h5")
                if os.path.exists(h2):
                    os.remove(h2)
                C.colfileobj_to_hdf(cf, h2, name="pk")
                with contextlib.redirect_stdout(io.StringIO()):
                    r3 = C.colfile_from_hdf(h2, name="pk")
                if set(r3.titles) != set(titles) or any(not same(r3.getcolumn(t), cols[t]) for t in titles):
                    sh.violation("hdf:colfileobj_to_hdf-round-trip", case, {})
                # one file holding several tables (2-D and 4-D peaks, a map and its refined version): each comes back under its own name,
                # whatever its place in the file
                h3 = os.path.join(wd, "c.h5")
                if os.path.exists(h3):
                    os.remove(h3)
                other = C.colfile_from_dict({"zz": np.arange(4.0), "yy": np.arange(4.0) * 2})
                C.colfile_to_hdf(other, h3, name="aaa_first")
                C.colfile_to_hdf(cf, h3, name="peaks")
                C.colfile_to_hdf(other, h3, name="zzz_last")
                with contextlib.redirect_stdout(io.StringIO()):
                    byname = {nm: C.colfile_from_hdf(h3, name=nm) for nm in ("peaks", "aaa_first", "zzz_last")}
                if set(byname["peaks"].titles) != set(titles) or byname["peaks"].nrows != cf.nrows or any(not same(byname["peaks"].getcolumn(t), cols[t]) for t in titles):
                    sh.violation("hdf:table-read-by-name-from-a-file-with-several-tables-is-another-table", dict(case, name="peaks"), {"titles_read": list(byname["peaks"].titles)})
                elif any(set(byname[nm].titles) != {"zz", "yy"} or byname[nm].nrows != 4 for nm in ("aaa_first", "zzz_last")):
                    sh.violation("hdf:table-read-by-name-from-a-file-with-several-tables-is-another-table", dict(case, name="aaa_first/zzz_last"), {})
                sh.evaluations += 1
                if rounds:
                    sh.nontrivial += 1
                sh.outcomes.add((len(titles), rounds))
        sh.sample(case, limit=1)
    finally:
        shutil.rmtree(wd, ignore_errors=True)
    return sh


def _run_hdf_overwrite(desc):
    from ImageD11 import columnfile as C
    import h5py
    sh = Shard()
    wd = workdir("ow")
    try:
        for comp in (None, "gzip"):
            for n2 in (14, 5, 20):
                h = os.path.join(wd, "o.h5")
                if os.path.exists(h):
                    os.remove(h)
                titles = ["sc", "Number_of_pixels", "foo"]
                cf, cols = build_cf(C, titles)
                C.colfile_to_hdf(cf, h, name="peaks", compression=comp)
                new = {t: (np.arange(n2, dtype=float) + 1000 * (k + 1)) for k, t in enumerate(titles)}
                cf2 = C.colfile_from_dict({t: new[t].copy() for t in titles})
                case = {"kind": "hdf_overwrite", "old_rows": 14, "new_rows": n2, "compression": comp}
                raised = None
                try:
                    C.colfile_to_hdf(cf2, h, name="peaks", compression=comp)
                except Exception as e:
                    raised = e
                with contextlib.redirect_stdout(io.StringIO()):
                    rd = C.colfile_from_hdf(h, name="peaks")
                is_new = set(rd.titles) == set(titles) and all(same(rd.getcolumn(t), new[t]) for t in titles)
                is_old = set(rd.titles) == set(titles) and all(same(rd.getcolumn(t), cols[t]) for t in titles)
                if raised is None and not is_new:
                    sh.violation("hdf-overwrite:no-error-but-new-content-not-readable", case, {})
                if raised is not None and not is_old:
                    sh.violation("hdf-overwrite:raised-and-left-a-half-written-group", case, {"error": repr(raised)})
                sh.evaluations += 1
                sh.nontrivial += 1
                sh.outcomes.add((comp, n2, raised is None))
                sh.sample(dict(case, raised=repr(raised)), limit=3)
    finally:
        shutil.rmtree(wd, ignore_errors=True)
    return sh


# ------------------------------------------------------------------------------------------------ B
PARPOOL = [("distance", 151234), ("zero", 0), ("neg", -7), ("big", 2 ** 31 + 5), ("wavelength", 0.2846), ("negzero", -0.0),
           ("tiny", 1e-300), ("huge", 1e22), ("five", 5.0), ("small", 1.2345678912345e-5), ("cell_lattice_[P,A,B,C,I,F,R]", "P"),
           ("filename", "/data/id11/x_1.edf")]


def _run_pars(desc):
    _, c, nch = desc
    from ImageD11 import parameters as P
    sh = Shard()
    wd = workdir("par")
    try:
        n = len(PARPOOL)
        for bits in range(1 + c, 1 << n, nch):
            d = {PARPOOL[k][0]: PARPOOL[k][1] for k in range(n) if (bits >> k) & 1}
            case = {"kind": "pars", "names": sorted(d)}
            p = P.parameters(**d)
            f = os.path.join(wd, "x.par")
            p.saveparameters(f)
            q = P.read_par_file(f)
            got = q.get_parameters()
            for k_, v in d.items():
                if k_ not in got:
                    sh.violation("parameters:name-lost", dict(case, name=k_), {}); break
                g = got[k_]
                if type(g) != type(v) or g != v or (isinstance(v, float) and np.signbit(g) != np.signbit(v)):
                    sh.violation("parameters:value-or-type", dict(case, name=k_), {"read": repr(g), "written": repr(v)}); break
            extra = set(got) - set(d)
            if extra:
                sh.violation("parameters:unexpected-names", case, {"extra": sorted(extra)})
            # second cycle
            f2 = os.path.join(wd, "y.par")
            q.saveparameters(f2)
            if open(f).read() != open(f2).read():
                sh.violation("parameters:second-cycle-not-a-fixed-point", case, {})
            sh.evaluations += 1
            if len(d) >= 2:
                sh.nontrivial += 1
        sh.sample(case, limit=1)
        sh.outcomes.add("pars")
    finally:
        shutil.rmtree(wd, ignore_errors=True)
    return sh


PARVALUES = [0, 1, -1, 7, 2 ** 31, -2 ** 31 - 1, 2 ** 53, 2 ** 53 + 1, 10 ** 18 + 3, -(2 ** 63), 123456789012345678901234567890,
             0.0, -0.0, 1.0, -1.0, 0.5, 0.1 + 0.2, 1.0 / 3.0, 1e15, 1e16, 1e+16 + 2.0, 5e22, 1e100, 1.7976931348623157e308, 5e-324, 1e-5, 1.5e-7,
             123456789.0, float(2 ** 53), float(2 ** 53) + 2.0, -3e16, 2.5e-300, 6.02214076e23,
             "", "P", "abc", "1e5x", "0x10", "a.b", "-", "+", "e5", "1.2.3", "12abc", ".", "--1", "a=b", "x==", "/d/year=2024/r=1.h5", "=", "k=v=w"]


def _run_parvalues(desc):
    """every value of a table of boundary ints, floats (incl. those printed in exponent form without a decimal point) and strings that do
    not parse as numbers, alone and in ordered pairs, through saveparameters / read_par_file and through a columnfile header"""
    from ImageD11 import parameters as P, columnfile as C
    sh = Shard()
    wd = workdir("pv")
    try:
        n = len(PARVALUES)
        sets = [(i,) for i in range(n)] + [(i, j) for i in range(n) for j in range(n) if i != j and (i + j) % 7 == 0]
        for idx in sets:
            d = {"p%d" % k_: PARVALUES[i] for k_, i in enumerate(idx)}
            case = {"kind": "parvalues", "values": [repr(v) for v in d.values()]}
            f = os.path.join(wd, "v.par")
            P.parameters(**d).saveparameters(f)
            got = P.read_par_file(f).get_parameters()
            ok = True
            for k_, v in d.items():
                g = got.get(k_, None)
                if type(g) != type(v) or g != v or (isinstance(v, float) and np.signbit(g) != np.signbit(v)):
                    sh.violation("parameters:value-or-type", dict(case, name=k_), {"read": repr(g), "written": repr(v)}); ok = False; break
            if ok and len(idx) == 1:
                # the same value as a header parameter of a text columnfile
                cf = C.colfile_from_dict({"sc": np.array([1.0, 2.0]), "fc": np.array([3.0, 4.0])})
                cf.parameters = P.parameters(**d)
                fn = os.path.join(wd, "v.flt")
                cf.writefile(fn)
                back = C.columnfile(fn).parameters.get_parameters()
                for k_, v in d.items():
                    g = back.get(k_, None)
                    if type(g) != type(v) or g != v:
                        sh.violation("columnfile-header-parameter:value-or-type", dict(case, name=k_), {"read": repr(g), "written": repr(v)}); break
            sh.evaluations += 1
            sh.nontrivial += 1
        sh.sample(case, limit=1)
        sh.outcomes.add("parvalues")
    finally:
        shutil.rmtree(wd, ignore_errors=True)
    return sh


JSONPOOL = [("distance", 151234), ("wavelength", 0.2846), ("neg", -7), ("tiny", 1e-300), ("o11", 1), ("negzero", -0.0), ("big", 2 ** 31 + 5),
            ("fit_tolerance", 0.05), ("cell__a", 4.04), ("cell__b", 5), ("cell_gamma", 90.0), ("cell_lattice_[P,A,B,C,I,F,R]", "F")]


def _run_jsonpars(desc):
    """the json parameter route (AnalysisSchema: a json file pointing at a geometry .par and one .par per phase): an old-style
    parameter file is split, saved, read back for the phase, and written as an old-style file again - names, values and types are
    those written; every subset of a 12-parameter pool that holds at least one geometry and one cell parameter"""
    _, c, nch = desc
    from ImageD11 import parameters as P
    sh = Shard()
    wd = workdir("jp")
    try:
        n = len(JSONPOOL)
        for bits in range(1 + c, 1 << n, nch):
            d = {JSONPOOL[k][0]: JSONPOOL[k][1] for k in range(n) if (bits >> k) & 1}
            if not any("cell" in k for k in d) or all("cell" in k for k in d):
                continue
            case = {"kind": "jsonpars", "names": sorted(d)}
            old = os.path.join(wd, "old.par")
            P.parameters(**d).saveparameters(old)
            A = P.AnalysisSchema.from_old_pars_file(old, phase_name="ph")
            A.save(json_path=os.path.join(wd, "pars.json"))
            got = P.read_par_file(os.path.join(wd, "pars.json"), phase_name="ph").get_parameters()
            bad = [k for k, v in d.items() if k not in got or type(got[k]) != type(v) or got[k] != v or (isinstance(v, float) and np.signbit(got[k]) != np.signbit(v))]
            if bad or set(got) - set(d):
                sh.violation("json-parameters:value-type-or-name", dict(case, name=(bad or sorted(set(got) - set(d)))[0]),
                             {"read": repr(got.get(bad[0])) if bad else None, "extra": sorted(set(got) - set(d))})
            else:
                P.AnalysisSchema.from_json(os.path.join(wd, "pars.json")).to_old_pars_file(os.path.join(wd, "back.par"), phase_name="ph")
                if open(old).read() != open(os.path.join(wd, "back.par")).read():
                    sh.violation("json-parameters:old-style-file-not-reproduced", case, {})
                geo = P.read_par_file(os.path.join(wd, "pars.json")).get_parameters()
                if any("cell" in k for k in geo) or any(k not in geo for k in d if "cell" not in k):
                    sh.violation("json-parameters:geometry-without-phase", case, {"names": sorted(geo)})
            for f_ in os.listdir(wd):
                os.remove(os.path.join(wd, f_))
            sh.evaluations += 1
            sh.nontrivial += 1
        sh.sample(case, limit=1)
        sh.outcomes.add("jsonpars")
    finally:
        shutil.rmtree(wd, ignore_errors=True)
    return sh


def _run_bigtext(desc):
    """text columnfiles whose number of rows sits on and around the block sizes a writer might use (1, 255..257, 1023..1025, 2048, 4096,
    5000): same number of rows, same values (to the documented precision), two cycles"""
    from ImageD11 import columnfile as C
    sh = Shard()
    wd = workdir("bt")
    try:
        for n in (1, 2, 255, 256, 257, 1023, 1024, 1025, 2048, 4096, 5000):
            cols = {"sc": (np.arange(n) * 0.37 + 1.0), "Number_of_pixels": np.arange(n, dtype=float) % 97, "foo": np.arange(n) * 1e-3 - 2.0}
            cf = C.colfile_from_dict({k_: v.copy() for k_, v in cols.items()})
            case = {"kind": "bigtext", "nrows": n}
            f = os.path.join(wd, "a.flt")
            cf.writefile(f)
            with contextlib.redirect_stdout(io.StringIO()):
                rd = C.columnfile(f)
            rd.writefile(os.path.join(wd, "b.flt"))
            with contextlib.redirect_stdout(io.StringIO()):
                rd2 = C.columnfile(os.path.join(wd, "b.flt"))
            for which, r_ in (("first", rd), ("second", rd2)):
                if r_.nrows != n or list(r_.titles) != list(cols):
                    sh.violation("text:number-of-rows", dict(case, cycle=which), {"read": int(r_.nrows), "written": n})
                    break
                if any(not np.array_equal(r_.getcolumn(t), np.array([float(DOCUMENTED[t] % v) for v in cols[t]])) for t in cols):
                    sh.violation("text:value-not-printed-precision", dict(case, cycle=which), {})
                    break
            sh.evaluations += 1
            sh.nontrivial += 1
        sh.sample(case, limit=1)
        sh.outcomes.add("bigtext")
    finally:
        shutil.rmtree(wd, ignore_errors=True)
    return sh


def _run_indexerpars(desc):
    """parameter files through the indexer (indexer.loadpars / savepars, as the GUI and scripts do): what was loaded is what is saved -
    for the names the indexer uses itself and for the ones it only carries along (cell, geometry, free text)"""
    from ImageD11 import indexing, parameters as P
    sh = Shard()
    wd = workdir("ip")
    indexing.loglevel = 4
    try:
        pools = [{"cell__a": 4.04, "cell__b": 4.04, "cell__c": 4.04, "cell_alpha": 90.0, "cell_beta": 90.0, "cell_gamma": 90.0, "cell_lattice_[P,A,B,C,I,F,R]": "F"},
                 {"distance": 151234.5, "o11": 1, "o12": 0, "wavelength": 0.2846, "label": "sample_A"},
                 {"minpks": 27, "hkl_tol": 0.03, "ds_tol": 0.004, "cosine_tol": 0.001, "uniqueness": 0.4, "max_grains": 17, "ring_1": 2, "ring_2": 3, "eta_range": 5.0}]
        for bits in range(1, 8):
            d = {}
            for k_ in range(3):
                if (bits >> k_) & 1:
                    d.update(pools[k_])
            case = {"kind": "indexerpars", "names": sorted(d)}
            f1, f2 = os.path.join(wd, "in.par"), os.path.join(wd, "out.par")
            P.parameters(**d).saveparameters(f1)
            with contextlib.redirect_stdout(io.StringIO()):
                ind = indexing.indexer()
                ind.loadpars(f1)
                ind.savepars(f2)
            got = P.read_par_file(f2).get_parameters()
            bad = [k_ for k_, v in d.items() if k_ not in got or type(got[k_]) != type(v) or got[k_] != v]
            if bad:
                sh.violation("indexer.loadpars+savepars:value-type-or-name", dict(case, name=bad[0]), {"read": repr(got.get(bad[0])), "written": repr(d[bad[0]])})
            elif bits & 4:
                # history: parameters changed on the indexer object after loading (as every script does), then saved: the file holds what
                # the indexer has now
                f3 = os.path.join(wd, "out3.par")
                with contextlib.redirect_stdout(io.StringIO()):
                    ind.hkl_tol = 0.05
                    ind.minpks = 33
                    ind.savepars(f3)
                got3 = P.read_par_file(f3).get_parameters()
                want3 = dict(d, hkl_tol=0.05, minpks=33)
                bad3 = [k_ for k_, v in want3.items() if k_ not in got3 or got3[k_] != v]
                if bad3:
                    sh.violation("indexer.savepars[after changing the indexer]:file-does-not-hold-the-current-value", dict(case, name=bad3[0]),
                                 {"file": repr(got3.get(bad3[0])), "indexer": repr(want3[bad3[0]])})
            sh.evaluations += 1
            sh.nontrivial += 1
        sh.sample(case, limit=1)
        sh.outcomes.add("indexerpars")
    finally:
        indexing.loglevel = 4
        shutil.rmtree(wd, ignore_errors=True)
    return sh


def _run_longlists(desc):
    """grain lists longer than one decimal digit of positions (9..12, 25, 101, 112 grains): same order, same content, text and HDF5,
    two save/load cycles"""
    from ImageD11 import grain as G
    sh = Shard()
    wd = workdir("gl")
    try:
        for n in (9, 10, 11, 12, 25, 101, 112):
            for rot in (0, 3):
                gl = [make_grain(G, k_, (k_ + rot) % 8) for k_ in range(n)]
                case = {"kind": "longlists", "n_grains": n, "field_pattern_offset": rot}
                f = os.path.join(wd, "g.map")
                G.write_grain_file(f, gl)
                rd = G.read_grain_file(f)
                if check_grains(sh, "grain-text", case, rd, gl, True):
                    G.write_grain_file(os.path.join(wd, "g2.map"), rd)
                    check_grains(sh, "grain-text:second-cycle", case, G.read_grain_file(os.path.join(wd, "g2.map")), rd, True)
                # the plain ubi-file route of the indexer (saveubis -> write_ubi_file / readubis): same number of matrices, same order,
                # values to the six decimals that format prints
                from ImageD11 import indexing as _ix
                uf = os.path.join(wd, "g.ubi")
                _ix.write_ubi_file(uf, [g.ubi for g in gl])
                back = _ix.readubis(uf)
                if len(back) != n:
                    sh.violation("ubi-file:number-of-matrices", case, {"read": len(back), "written": n})
                else:
                    for k_, (a, b) in enumerate(zip(back, gl)):
                        if np.abs(a - b.ubi).max() > 5.1e-7:
                            sh.violation("ubi-file:matrix-differs-beyond-printed-decimals", dict(case, grain=k_), {"read": a, "written": b.ubi})
                            break
                h = os.path.join(wd, "g.h5")
                for fn_ in (h, os.path.join(wd, "g2.h5")):
                    if os.path.exists(fn_):
                        os.remove(fn_)
                G.write_grain_file_h5(h, gl)
                rh = G.read_grain_file_h5(h)
                if check_grains(sh, "grain-hdf5", case, rh, gl, False):
                    G.write_grain_file_h5(os.path.join(wd, "g2.h5"), rh)
                    check_grains(sh, "grain-hdf5:second-cycle", case, G.read_grain_file_h5(os.path.join(wd, "g2.h5")), gl, False)
                sh.evaluations += 1
                sh.nontrivial += 1
                sh.outcomes.add(("longlist", n))
        sh.sample(case, limit=1)
    finally:
        shutil.rmtree(wd, ignore_errors=True)
    return sh


# ------------------------------------------------------------------------------------------------ C
UBIS = [np.array([[3.123456789012, 0.000123456789, -1.5], [-0.25, 4.000000001, 0.75], [1e-7, -2.2, 5.55555555555]]),
        np.array([[4.04, 0.0, 0.0], [0.0, 4.04, 0.0], [0.0, 0.0, 4.04]]),
        np.array([[-2.113, 3.441, 0.123], [3.0101, 1.998, -1.456], [0.981, 0.333, 4.404]])]
for _u in UBIS:
    if np.linalg.det(_u) < 0:
        _u[2] *= -1
TRANS = [np.array([123.456789, -0.000123456789, 1e5 + 0.5]), np.array([0.0, -0.0, 7.0]), np.array([-499.999, 250.125, 1e-3])]


def make_grain(G, idx, combo):
    # grains beyond the third repeat the three lattices, each 0.1% larger than the last (so that every position is recognisable)
    g = G.grain(UBIS[idx % 3] * (1.0 + 0.001 * (idx // 3)), translation=(TRANS[idx % 3] + float(idx // 3) if combo & 1 else None))
    if combo & 2:
        g.name = "%d:abc_%d.flt" % (idx, idx)
    if combo & 4:
        # a count of zero is a value, not "absent" (every fifth grain)
        g.npks = 17 + idx if idx % 5 != 4 else 0
        g.nuniq = 11 + idx if idx % 5 != 4 else 0
    return g


def check_grains(sh, key, case, got, want, text):
    if len(got) != len(want):
        sh.violation(key + ":number-of-grains", case, {"read": len(got), "written": len(want)})
        return False
    for k_, (a, b) in enumerate(zip(got, want)):
        c2 = dict(case, grain=k_)
        if text:
            if not np.allclose(a.ubi, b.ubi, rtol=6e-9, atol=0):
                sh.violation(key + ":ubi-9-digits", c2, {"read": a.ubi, "written": b.ubi}); return False
        elif not np.array_equal(a.ubi, b.ubi):
            sh.violation(key + ":ubi-not-exact", c2, {}); return False
        if (a.translation is None) != (b.translation is None):
            sh.violation(key + ":translation-presence", c2, {"read": repr(a.translation)}); return False
        if b.translation is not None:
            if text:
                if not np.allclose(a.translation, b.translation, rtol=6e-6, atol=1e-300):
                    sh.violation(key + ":translation-6-digits", c2, {"read": a.translation, "written": b.translation}); return False
            elif not np.array_equal(a.translation, b.translation):
                sh.violation(key + ":translation-not-exact", c2, {}); return False
        for attr in ("name", "npks", "nuniq"):
            if hasattr(b, attr) != hasattr(a, attr):
                sh.violation(key + ":%s-presence" % attr, c2, {"read_has": hasattr(a, attr)}); return False
            if hasattr(b, attr):
                va, vb = getattr(a, attr), getattr(b, attr)
                if isinstance(va, np.generic):
                    va = va.item()
                if va != vb or (attr != "name" and isinstance(va, str)):
                    sh.violation(key + ":%s" % attr, c2, {"read": repr(va), "written": repr(vb)}); return False
    return True


def _run_grains(desc):
    _, c, nch, maxlen = desc
    from ImageD11 import grain as G
    sh = Shard()
    wd = workdir("gr")
    try:
        lists = [()]
        for n in range(1, maxlen + 1):
            lists += list(itertools.product(range(8), repeat=n))
        for li, combos in enumerate(lists):
            if li % nch != c:
                continue
            gl = [make_grain(G, k_, cb) for k_, cb in enumerate(combos)]
            case = {"kind": "grains", "fields_per_grain(1=translation,2=name,4=counts)": list(combos)}
            # text
            f = os.path.join(wd, "g.map")
            G.write_grain_file(f, gl)
            rd = G.read_grain_file(f)
            if check_grains(sh, "grain-text", case, rd, gl, True):
                f2 = os.path.join(wd, "g2.map")
                G.write_grain_file(f2, rd)
                rd2 = G.read_grain_file(f2)
                if open(f).read() != open(f2).read():
                    sh.violation("grain-text:second-cycle-not-a-fixed-point", case, {})
                else:
                    check_grains(sh, "grain-text:second-cycle", case, rd2, rd, True)
            # hdf5
            h = os.path.join(wd, "g.h5")
            if os.path.exists(h):
                os.remove(h)
            G.write_grain_file_h5(h, gl)
            rh = G.read_grain_file_h5(h)
            check_grains(sh, "grain-hdf5", case, rh, gl, False)
            # writing twice: either the content is right or the call raises and the old content is intact
            raised = None
            try:
                G.write_grain_file_h5(h, gl[::-1])
            except Exception as e:
                raised = e
            rh2 = G.read_grain_file_h5(h)
            sub = Shard()
            okold = check_grains(sub, "x", case, rh2, gl, False)
            sub2 = Shard()
            oknew = check_grains(sub2, "x", case, rh2, gl[::-1], False)
            if (raised is not None and not okold) or (raised is None and not oknew):
                sh.violation("grain-hdf5:second-write-leaves-inconsistent-file", case, {"raised": repr(raised)})
            # one file shared by a peaks table and the grains of two phases (one group per phase, as the dataset helpers write them):
            # everything written earlier is still there after each later save
            from ImageD11 import columnfile as C_
            hs = os.path.join(wd, "shared.h5")
            if os.path.exists(hs):
                os.remove(hs)
            pk = C_.colfile_from_dict({"sc": np.array([1.0, 2.0, 3.5]), "fc": np.array([3.0, 4.0, 0.25])})
            import io as io_, contextlib as cl_
            with cl_.redirect_stdout(io_.StringIO()):
                C_.colfile_to_hdf(pk, hs, name="peaks")
            G.write_grain_file_h5(hs, gl, group_name="Al")
            G.write_grain_file_h5(hs, gl[::-1], group_name="Fe")
            try:
                r_al = G.read_grain_file_h5(hs, group_name="Al")
                r_fe = G.read_grain_file_h5(hs, group_name="Fe")
                with cl_.redirect_stdout(io_.StringIO()):
                    r_pk = C_.columnfile(hs)
                lost = None
            except Exception as e:
                lost = e
            if lost is not None:
                sh.violation("grain-hdf5[shared file]:an-earlier-group-is-gone-after-a-later-save", case, {"error": repr(lost)[:200]})
            else:
                check_grains(sh, "grain-hdf5[shared file, first phase]", case, r_al, gl, False)
                check_grains(sh, "grain-hdf5[shared file, second phase]", case, r_fe, gl[::-1], False)
                if not (np.array_equal(r_pk.sc, pk.sc) and np.array_equal(r_pk.fc, pk.fc)):
                    sh.violation("grain-hdf5[shared file]:peaks-table-changed", case, {})
            # grain.to_h5py_group twice on the same group is an overwrite
            import h5py
            with h5py.File(os.path.join(wd, "t.h5"), "w") as hf:
                for g in gl:
                    g.to_h5py_group(hf, "g")
                    g.to_h5py_group(hf, "g")
                    back = G.grain.from_h5py_group(hf["g"])
                    if not np.array_equal(back.ubi, g.ubi):
                        sh.violation("grain.to_h5py_group:twice", case, {})
                    del hf["g"]
            sh.evaluations += 1
            if len(set(combos)) >= 2:
                sh.nontrivial += 1
            sh.outcomes.add(len(combos))
        sh.sample(case, limit=1)
    finally:
        shutil.rmtree(wd, ignore_errors=True)
    return sh


# ------------------------------------------------------------------------------------------------ D
def _run_sparse(desc):
    from ImageD11 import sparseframe as sf
    import h5py
    sh = Shard()
    wd = workdir("sp")
    try:
        shp = (3, 4)
        n = 12
        base = (np.arange(n).reshape(shp) * 37 + 11) % 251 + 5
        for x in range(1, 1 << n, 7):
            mask = np.array([(x >> k) & 1 for k in range(n)], bool).reshape(shp)
            for variant in ("from_data_mask", "from_data_cut", "plain", "unsorted"):
                case = {"kind": "sparse", "mask": x, "variant": variant}
                if variant == "from_data_mask":
                    fr = sf.from_data_mask(mask.astype(np.int8), base.astype(np.float32), {"threshold": 4.5, "filename": "a.edf"})
                elif variant == "from_data_cut":
                    fr = sf.from_data_cut(np.where(mask, base, 0).astype(np.uint16), 4, header={"threshold": 4})
                else:
                    ii, jj = np.nonzero(mask)
                    fr = sf.sparse_frame(ii.astype(np.uint16), jj.astype(np.uint16), shp,
                                         pixels={"intensity": base[mask].astype(np.float32), "labels": np.arange(mask.sum(), dtype=np.int32)})
                    if variant == "unsorted":
                        # pixels in another order than row-major (a frame sorted by label, or built from a peak list)
                        fr.reorder((np.arange(fr.nnz) * 5 + 3) % fr.nnz if fr.nnz % 5 else np.arange(fr.nnz)[::-1])
                f = os.path.join(wd, "s.h5")
                try:
                    with h5py.File(f, "w") as hf:
                        g = hf.create_group("frame")
                        fr.to_hdf_group(g)
                    with h5py.File(f, "r") as hf:
                        back = sf.from_hdf_group(hf["frame"])
                except Exception as e:
                    sh.violation("sparse-hdf:raises", case, {"error": "%s: %s" % (type(e).__name__, e)})
                    sh.evaluations += 1
                    continue
                if variant == "unsorted":
                    # what must survive is which values sit on which pixel (the order on disk is the writer's business)
                    def assoc(f_):
                        return sorted(zip(f_.row.tolist(), f_.col.tolist(), *[np.asarray(f_.pixels[k_]).tolist() for k_ in sorted(f_.pixels)]))
                    ok = (tuple(int(v) for v in back.shape) == tuple(fr.shape) and set(back.pixels) == set(fr.pixels) and back.nnz == fr.nnz
                          and assoc(back) == assoc(fr))
                else:
                    ok = (tuple(int(v) for v in back.shape) == tuple(fr.shape) and np.array_equal(back.row, fr.row) and np.array_equal(back.col, fr.col)
                          and back.row.dtype == fr.row.dtype and set(back.pixels) == set(fr.pixels)
                          and all(np.array_equal(back.pixels[k_], fr.pixels[k_]) and back.pixels[k_].dtype == fr.pixels[k_].dtype for k_ in fr.pixels))
                if not ok:
                    sh.violation("sparse-hdf:round-trip", case, {})
                else:
                    for name, m in fr.meta.items():
                        bm = back.meta.get(name, {})
                        if set(bm) != set(m) or any(bm[k_] != m[k_] for k_ in m):
                            sh.violation("sparse-hdf:metadata", case, {"read": {k_: repr(v) for k_, v in bm.items()}, "written": dict(m)})
                            break
                sh.evaluations += 1
                if fr.meta:
                    sh.nontrivial += 1
                sh.outcomes.add(variant)
        # frames with 32-bit indices (a dimension beyond 65535): the index type and the coordinates must come back
        for shape_, rows_, cols_ in (((3, 100000), [0, 1, 2, 2], [5, 65535, 65536, 99999]), ((70000, 4), [0, 65535, 65536, 69999], [0, 1, 2, 3]),
                                     ((3, 4), [0, 1, 2], [0, 1, 3])):
            case = {"kind": "sparse", "mask": -1, "variant": "itype uint32 shape %s" % (shape_,)}
            fr = sf.sparse_frame(np.array(rows_, np.uint32), np.array(cols_, np.uint32), shape_, itype=np.uint32,
                                 pixels={"intensity": np.arange(len(rows_), dtype=np.float32) + 1})
            f = os.path.join(wd, "s32.h5")
            try:
                with h5py.File(f, "w") as hf:
                    fr.to_hdf_group(hf.create_group("frame"))
                with h5py.File(f, "r") as hf:
                    back = sf.from_hdf_group(hf["frame"])
                if not (np.array_equal(back.row, fr.row) and np.array_equal(back.col, fr.col) and back.row.dtype == fr.row.dtype and back.col.dtype == fr.col.dtype
                        and tuple(int(v) for v in back.shape) == tuple(shape_) and np.array_equal(back.pixels["intensity"], fr.pixels["intensity"])):
                    sh.violation("sparse-hdf:round-trip", case, {"row_dtype": str(back.row.dtype), "rows": back.row, "cols": back.col})
            except Exception as e:
                sh.violation("sparse-hdf:raises", case, {"error": "%s: %s" % (type(e).__name__, str(e)[:200])})
            sh.evaluations += 1
            sh.nontrivial += 1
        sh.sample(case, limit=1)
    finally:
        shutil.rmtree(wd, ignore_errors=True)
    return sh


def run_shard(desc):
    return {"colfile": _run_colfile, "hdf_overwrite": _run_hdf_overwrite, "pars": _run_pars, "grains": _run_grains,
            "sparse": _run_sparse, "parvalues": _run_parvalues, "jsonpars": _run_jsonpars, "bigtext": _run_bigtext, "indexerpars": _run_indexerpars, "longlists": _run_longlists}[desc[0]](desc)


def replay(case):
    kind = case["kind"]
    if kind == "colfile":
        if all(t in TITLES for t in case["titles"]):
            sub = tuple(TITLES.index(t) for t in case["titles"])
            r = _run_colfile(("colfile", [tuple(sorted(sub))]))
        else:
            r = _run_colfile(("colfile", [tuple(t) for t in MORE_TITLES]))
            r.violations = [v for v in r.violations if sorted(v["case"]["titles"]) == sorted(case["titles"])]
    elif kind == "hdf_overwrite":
        r = _run_hdf_overwrite(("hdf_overwrite",))
    elif kind == "pars":
        r = _run_pars(("pars", 0, 1))
        r.violations = [v for v in r.violations if v["case"]["names"] == case["names"]]
    elif kind == "grains":
        r = _run_grains(("grains", 0, 1, 3))
        key = "fields_per_grain(1=translation,2=name,4=counts)"
        r.violations = [v for v in r.violations if v["case"][key] == case[key]]
    elif kind == "parvalues":
        r = _run_parvalues(("parvalues",))
        r.violations = [v for v in r.violations if v["case"]["values"] == case["values"]]
    elif kind == "bigtext":
        r = _run_bigtext(("bigtext",))
        r.violations = [v for v in r.violations if v["case"]["nrows"] == case["nrows"]]
    elif kind == "indexerpars":
        r = _run_indexerpars(("indexerpars",))
        r.violations = [v for v in r.violations if v["case"]["names"] == case["names"]]
    elif kind == "jsonpars":
        r = _run_jsonpars(("jsonpars", 0, 1))
        r.violations = [v for v in r.violations if v["case"]["names"] == case["names"]]
    elif kind == "longlists":
        r = _run_longlists(("longlists",))
        r.violations = [v for v in r.violations if v["case"]["n_grains"] == case["n_grains"]]
    else:
        r = _run_sparse(("sparse",))
        r.violations = [v for v in r.violations if v["case"]["mask"] == case["mask"]]
    return (not r.violations), {"violations": r.violations[:3]}
