"""C08 - the indexer reports only genuine grains and finds all of them on ideal data.

Bounded exhaustive exploration of a configuration grid: lattices {cubic F, I, P, hexagonal,
tetragonal, orthorhombic, monoclinic, rhombohedral (+ triclinic in thorough)} x grain sets {1, 2, 3
(quick), 5, 8 (thorough)} from a table of mutually well-separated rotations x {hkl_tol 0.01/0.05} x
{cosine_tol +0.002 / -0.002 (all-candidates mode)} x {minpks 50 % / 80 % of the reflections per
grain} x ds_tol x data kind {ideal, +20 % spurious g-vectors on the rings, deterministic small offsets,
one grain with only 30 % of its peaks}.  g-vectors: ALL reflections below the d* limit from the C03
oracle.  Oracle: each reported UBI re-scored independently has more than minpks peaks, det > 0, the
cell's parameters within what hkl_tol allows, no two reported UBIs lattice-equivalent; on ideal
data each true grain is matched by exactly one reported UBI and nothing else is reported.
"""
from __future__ import annotations
import itertools, os
import numpy as np
from vt.runner import Shard
from vt import oracles as O

LEVEL = "exploration"
RULE = ("cases = (lattice, number of grains, hkl_tol, cosine_tol sign, minpks fraction, ds_tol, data kind) all combinations of the "
        "stated tables; non-trivial = >= 2 grains, or non-ideal data")
ASSUMPTIONS = ["grain orientations from a fixed table, pairwise checked by the harness to be well separated (no grain indexes more than "
               "25 % of another grain's reflections)", "completeness is only demanded on ideal (noise-free, complete) data"]

LATTICES = [([3.6, 3.6, 3.6, 90, 90, 90], "F", 1.05), ([2.87, 2.87, 2.87, 90, 90, 90], "I", 1.05), ([4.0, 4.0, 4.0, 90, 90, 90], "P", 0.75),
            ([3.0, 3.0, 5.0, 90, 90, 120], "P", 0.85), ([4.0, 4.0, 5.5, 90, 90, 90], "P", 0.7), ([3.0, 4.0, 5.0, 90, 90, 90], "P", 0.7),
            ([3.0, 4.0, 5.0, 90, 100, 90], "P", 0.62), ([5.0, 5.0, 5.0, 60, 60, 60], "P", 0.75), ([4.1, 5.2, 6.3, 80, 95, 105], "P", 0.5)]

ROT_TABLE = [((1, 2, 3), 37.0), ((-2, 1, 5), 111.0), ((3, -1, 2), 73.5), ((1, 0, 4), 158.0), ((5, 4, -3), 12.3), ((2, -7, 1), 95.1),
             ((1, 1, 0), 51.0), ((0, 3, -1), 139.0), ((4, 1, 1), 23.0), ((-1, -1, 3), 67.0)]


def plan(tier, seed):
    nl = 8 if tier == "quick" else 9
    ngs = (1, 2, 3) if tier == "quick" else (1, 3, 5, 8)
    shards = []
    for li in range(nl):
        for ng in ngs:
            shards.append(("index", li, ng, tier))
    # low-symmetry lattices with a very low minimum in both cosine modes, for four more sets of orientations (whether an
    # alternative hkl assignment of a ring pair indexes a tenth of a grain depends on the orientations)
    for li in (6, 7) + ((8,) if tier == "thorough" else ()):
        for ng in (2, 3):
            for extra in (1, 2, 3, 4):
                shards.append(("index_low", li, ng, tier, extra))
    for li in (6, 8):
        for ng in (1, 2, 3):
            for extra in ((0, 1, 2, 3) if tier == "quick" else range(10)):
                shards.append(("index_wide", li, ng, tier, extra))
    for ng in (1, 2):
        for frac in ((0.3,) if tier == "quick" else (0.15, 0.3)):
            for extra in ((0, 1) if tier == "quick" else (0, 1, 2, 3)):
                shards.append(("mosaic", ng, frac, extra))
    for nt in (1, 2, 3):
        shards.append(("bigtable", nt, 0))
    for which in range(4):
        shards.append(("wavelength", which))
    for which in range(2):
        shards.append(("interleaved", which))
    shards.append(("callers",))
    k = seed % len(shards)
    return shards[k:] + shards[:k]


def seed_of():
    return int(os.environ.get("VERIF_SEED", "0") or 0)


def fib_dirs(n, phase=0.0):
    k = np.arange(n) + 0.5
    phi = np.arccos(1 - 2 * k / n)
    th = np.pi * (1 + 5 ** 0.5) * k + phase
    return np.array([np.cos(th) * np.sin(phi), np.sin(th) * np.sin(phi), np.cos(phi)]).T


def npk_within(ubi, gv, tol):
    h = np.dot(ubi, gv.T)
    d = h - np.round(h)
    return int(((d * d).sum(axis=0) < tol * tol).sum())


def _run_mosaic(desc):
    """a slightly mosaic grain: every reflection of a cubic P grain out to d* = 1.3, plus the HIGH-ORDER reflections of a sub-domain 0.46
    degrees away (those further than 1.3 hkl_tol from the grain's own lattice: split high-angle peaks), fewer than the minimum.  A trial
    orientation through two sub-domain peaks indexes mostly peaks the grain already owns (all the low orders), so it fails the
    uniqueness test: the grain is reported once, with or without other grains present"""
    _, ng, nsub_frac, extra = desc
    from ImageD11 import indexing, unitcell as ucm
    indexing.loglevel = 4
    sh = Shard()
    cell, sym, dsmax = [4.0, 4.0, 4.0, 90, 90, 90], "P", 1.3
    hk, B = O.brute_hkls(cell, sym, dsmax)
    hkls = np.array(sorted(hk), float)
    nref = len(hkls)
    hkl_tol = 0.02
    shift = (seed_of() + extra) % len(ROT_TABLE)
    rots = [O.rotation_from_axis_angle(*ROT_TABLE[(k + shift) % len(ROT_TABLE)]) for k in range(ng)]
    ubis_true = [np.linalg.inv(np.dot(R, B)) for R in rots]
    gvs = [np.dot(np.dot(R, B), hkls.T).T for R in rots]
    Rs = np.dot(O.rotation_from_axis_angle((3, -1, 2), 0.46), rots[0])
    gsub = np.dot(np.dot(Rs, B), hkls.T).T
    off = np.sqrt(((np.dot(ubis_true[0], gsub.T) - hkls.T) ** 2).sum(axis=0))
    far = np.nonzero(off > 1.3 * hkl_tol)[0]
    take = far[np.argsort(-off[far])][:int(nsub_frac * nref)]
    allgv = np.concatenate(gvs + [gsub[take]])
    order = (np.arange(len(allgv)) * 7919) % len(allgv) if np.gcd(7919, len(allgv)) == 1 else np.arange(len(allgv))[::-1]
    allgv = np.ascontiguousarray(allgv[order])
    minpks = int(0.6 * nref)
    case = {"kind": "mosaic", "ngrains": ng, "subdomain_peaks": int(len(take)), "reflections_per_grain": nref, "minpks": minpks, "hkl_tol": hkl_tol,
            "orientation_set": extra, "seed": seed_of()}
    ind = indexing.indexer(unitcell=ucm.unitcell(cell, sym), gv=allgv.copy(), cosine_tol=0.002, minpks=minpks, hkl_tol=hkl_tol, ds_tol=0.005, wavelength=0.3,
                           uniqueness=0.5, max_grains=100)
    ind.assigntorings()
    ind.score_all_pairs()
    indexing.loglevel = 4
    found = [np.array(u) for u in ind.ubis]
    m = [sum(1 for u in found if O.lattice_equivalent(u, t, tol=0.03)) for t in ubis_true]
    if len(found) != ng or any(x != 1 for x in m):
        sh.violation("soundness:mosaic-grain-not-reported-exactly-once", case, {"reported": len(found), "matches_per_true_grain": m})
    sh.evaluations += 1
    sh.nontrivial += 1
    sh.outcomes.add(("mosaic", len(found) - ng))
    sh.sample(case, limit=1)
    return sh


def _run_bigtable(desc):
    """more than 4096 g-vectors (eight cubic grains, all reflections out to d* = 1.3, stored grain after grain as a merged peak table holds
    them) with 1, 2 and 3 OpenMP threads in the compiled loops (score_and_assign deals the table out in blocks of 4096): every grain is
    reported exactly once whatever the thread count - also the grains that live entirely beyond the first block"""
    _, nt, extra = desc
    from ImageD11 import indexing, unitcell as ucm, cImageD11 as cI
    indexing.loglevel = 4
    sh = Shard()
    cell, sym, dsmax = [4.0, 4.0, 4.0, 90, 90, 90], "P", 1.3
    hk, B = O.brute_hkls(cell, sym, dsmax)
    hkls = np.array(sorted(hk), float)
    nref = len(hkls)
    ng = 8
    shift = (seed_of() + extra) % len(ROT_TABLE)
    rots = [O.rotation_from_axis_angle(*ROT_TABLE[(k + shift) % len(ROT_TABLE)]) for k in range(ng)]
    ubis_true = [np.linalg.inv(np.dot(R, B)) for R in rots]
    allgv = np.ascontiguousarray(np.concatenate([np.dot(np.dot(R, B), hkls.T).T for R in rots]))
    minpks = int(0.8 * nref)
    case = {"kind": "bigtable", "ngrains": ng, "reflections_per_grain": nref, "gvectors": len(allgv), "threads": nt, "orientation_set": extra, "seed": seed_of()}
    cI.cimaged11_omp_set_num_threads(int(nt))
    try:
        ind = indexing.indexer(unitcell=ucm.unitcell(cell, sym), gv=allgv.copy(), cosine_tol=0.002, minpks=minpks, hkl_tol=0.01, ds_tol=0.005, wavelength=0.3,
                               uniqueness=0.5, max_grains=100)
        ind.assigntorings()
        ind.score_all_pairs()
    finally:
        cI.cimaged11_omp_set_num_threads(1)
        indexing.loglevel = 4
    found = [np.array(u) for u in ind.ubis]
    m = [sum(1 for u in found if O.lattice_equivalent(u, t, tol=0.03)) for t in ubis_true]
    if len(found) != ng or any(x != 1 for x in m):
        sh.violation("completeness:grain-of-a-large-table-not-reported-exactly-once", case, {"reported": len(found), "matches_per_true_grain": m})
    sh.evaluations += 1
    sh.nontrivial += 1
    sh.outcomes.add(("bigtable", nt, len(found)))
    sh.sample(case, limit=1)
    return sh


def _run_wavelength(desc):
    """g-vectors are all the indexer needs: the wavelength only serves the two-theta column of the ring table it prints.  Tables reaching
    beyond the d* the wavelength can diffract (wavelength left at its default, or a long laboratory wavelength with g-vectors computed
    elsewhere) are indexed like any other: every grain reported exactly once"""
    _, which = desc
    from ImageD11 import indexing, unitcell as ucm
    indexing.loglevel = 4
    sh = Shard()
    cell, sym, dsmax, kw = [([2.87, 2.87, 2.87, 90, 90, 90], "I", 2.1, {}), ([4.0, 4.0, 4.0, 90, 90, 90], "P", 1.34, {"wavelength": 1.5406}),
                            ([2.87, 2.87, 2.87, 90, 90, 90], "I", 1.9, {}), ([4.0, 4.0, 4.0, 90, 90, 90], "P", 1.29, {"wavelength": 1.5406})][which]
    hk, B = O.brute_hkls(cell, sym, dsmax)
    hkls = np.array(sorted(hk), float)
    ng = 2
    rots = [O.rotation_from_axis_angle(*ROT_TABLE[(k + seed_of() + which) % len(ROT_TABLE)]) for k in range(ng)]
    ubis_true = [np.linalg.inv(np.dot(R, B)) for R in rots]
    allgv = np.concatenate([np.dot(np.dot(R, B), hkls.T).T for R in rots])
    order = (np.arange(len(allgv)) * 7919) % len(allgv) if np.gcd(7919, len(allgv)) == 1 else np.arange(len(allgv))[::-1]
    allgv = np.ascontiguousarray(allgv[order])
    case = {"kind": "wavelength", "which": which, "cell": cell, "sym": sym, "dsmax": dsmax, "wavelength": kw.get("wavelength", "default"), "seed": seed_of()}
    ind = indexing.indexer(unitcell=ucm.unitcell(cell, sym), gv=allgv.copy(), cosine_tol=0.002, minpks=int(0.8 * len(hkls)), hkl_tol=0.02, ds_tol=0.005,
                           uniqueness=0.5, max_grains=100, **kw)
    ind.assigntorings()
    ind.score_all_pairs()
    indexing.loglevel = 4
    found = [np.array(u) for u in ind.ubis]
    m = [sum(1 for u in found if O.lattice_equivalent(u, t, tol=0.03)) for t in ubis_true]
    if len(found) != ng or any(x != 1 for x in m):
        sh.violation("completeness:grain-not-reported-exactly-once", case, {"reported": len(found), "matches_per_true_grain": m})
    sh.evaluations += 1
    sh.nontrivial += 1
    sh.outcomes.add(("wavelength", which, len(found)))
    sh.sample(case, limit=1)
    return sh


def _run_interleaved(desc):
    """two indexers for two samples share ONE unitcell object and use different ring tolerances (the rings of a tetragonal cell with
    c/a = 1.05 merge under one and not under the other); their calls are interleaved in every order that keeps each indexer's own
    sequence (assigntorings, then score_all_pairs): each reports its own three grains exactly once"""
    _, which = desc
    from ImageD11 import indexing, unitcell as ucm
    indexing.loglevel = 4
    sh = Shard()
    cell, sym, dsmax = [4.0, 4.0, 4.2, 90, 90, 90], "P", 0.9
    hk, B = O.brute_hkls(cell, sym, dsmax)
    hkls = np.array(sorted(hk), float)
    nref = len(hkls)
    samples = []
    for smp in range(2):
        rots = [O.rotation_from_axis_angle(*ROT_TABLE[(3 * smp + k + seed_of() + which) % len(ROT_TABLE)]) for k in range(3)]
        ubis_true = [np.linalg.inv(np.dot(R, B)) for R in rots]
        gv = np.concatenate([np.dot(np.dot(R, B), hkls.T).T for R in rots])
        order = (np.arange(len(gv)) * 7919) % len(gv) if np.gcd(7919, len(gv)) == 1 else np.arange(len(gv))[::-1]
        samples.append((ubis_true, np.ascontiguousarray(gv[order])))
    # all interleavings of (A1, A2) and (B1, B2) that keep each indexer's own order
    for order in (("A1", "B1", "A2", "B2"), ("A1", "B1", "B2", "A2"), ("B1", "A1", "A2", "B2"), ("B1", "A1", "B2", "A2"), ("A1", "A2", "B1", "B2"), ("B1", "B2", "A1", "A2")):
        uc = ucm.unitcell(cell, sym)
        ind = {"A": indexing.indexer(unitcell=uc, gv=samples[0][1].copy(), cosine_tol=0.002, minpks=int(0.8 * nref), hkl_tol=0.02, ds_tol=0.005, wavelength=0.3,
                                     uniqueness=0.5, max_grains=100),
               "B": indexing.indexer(unitcell=uc, gv=samples[1][1].copy(), cosine_tol=0.002, minpks=int(0.8 * nref), hkl_tol=0.02, ds_tol=0.02, wavelength=0.3,
                                     uniqueness=0.5, max_grains=100)}
        for step in order:
            if step[1] == "1":
                ind[step[0]].assigntorings()
            else:
                ind[step[0]].score_all_pairs()
        indexing.loglevel = 4
        for name, smp in (("A", 0), ("B", 1)):
            found = [np.array(u) for u in ind[name].ubis]
            m = [sum(1 for u in found if O.lattice_equivalent(u, t, tol=0.03)) for t in samples[smp][0]]
            case = {"kind": "interleaved", "which": which, "order_of_calls": list(order), "indexer": name, "ds_tol": 0.005 if name == "A" else 0.02, "seed": seed_of()}
            if len(found) != 3 or any(x != 1 for x in m):
                sh.violation("completeness:indexers-sharing-a-unitcell:grain-not-reported-exactly-once", case, {"reported": len(found), "matches_per_true_grain": m})
            sh.evaluations += 1
            sh.nontrivial += 1
        sh.states += 1
    sh.outcomes.add(("interleaved", which))
    sh.sample(case, limit=1)
    return sh


def run_shard(desc):
    if desc[0] == "interleaved":
        return _run_interleaved(desc)
    if desc[0] == "wavelength":
        return _run_wavelength(desc)
    if desc[0] == "bigtable":
        return _run_bigtable(desc)
    if desc[0] == "mosaic":
        return _run_mosaic(desc)
    if desc[0] == "callers":
        # score_and_refine (behind scorethem) is declared threadsafe: two indexers in two python threads are inside it at once
        from vt.props import c06
        return c06._run_callers(("callers",))
    only_low, extra_shift, wide = False, 0, False
    if desc[0] == "index_low":
        _, li, ng, tier, extra_shift = desc
        only_low = True
    elif desc[0] == "index_wide":
        _, li, ng, tier, extra_shift = desc
        wide = True
    else:
        _, li, ng, tier = desc
    from ImageD11 import indexing, unitcell as ucm
    indexing.loglevel = 4
    sh = Shard()
    cell, sym, dsmax = LATTICES[li]
    hk, B = O.brute_hkls(cell, sym, dsmax)
    hkls = np.array(sorted(hk), float)
    nref = len(hkls)
    shift = (seed_of() + extra_shift) % len(ROT_TABLE)
    rots = [O.rotation_from_axis_angle(*ROT_TABLE[(k + shift) % len(ROT_TABLE)]) for k in range(ng)]
    ubis_true = [np.linalg.inv(np.dot(R, B)) for R in rots]
    gv_grain = [np.dot(np.dot(R, B), hkls.T).T for R in rots]
    # the harness checks that the grains are well separated
    for a in range(ng):
        for b in range(ng):
            if a != b and npk_within(ubis_true[a], gv_grain[b], 0.05) > 0.25 * nref:
                raise RuntimeError("rotation table not well separated for lattice %d" % li)
    ringds = sorted(set(round(v, 6) for v in hk.values()))
    kinds = ("ideal", "spurious", "offsets", "partial")
    combos = list(itertools.product((0.01, 0.05), (0.002, -0.002), (0.5, 0.8), (0.005,) if tier == "quick" else (0.005, 0.002), kinds))
    # a low minimum (30 % of a grain's reflections: orientations that index a third of a grain's peaks must be recognised as
    # alternatives of a real grain, not reported) in both cosine_tol modes, and a partial grain holding EXACTLY minpks peaks
    combos += [(0.01, ct, 0.3, 0.005, "ideal") for ct in (0.002, -0.002)] + [(0.01, 0.002, -1.0, 0.005, "partial")]
    combos += [(0.02, ct, 0.08, 0.005, "ideal") for ct in (0.002, -0.002)]
    # every grain indexes exactly minpks + 1 peaks (all of its reflections): each must still be reported, whichever grain owns the
    # last g-vector of the list and whether the list has an odd or an even length (one extra spurious vector makes the other parity)
    combos += [(0.01, 0.002, -2.0, 0.005, "ideal"), (0.01, 0.002, -2.0, 0.005, "ideal+1")]
    # an extra grain of which only ONE ZONE of reflections was recorded (hkl with h+k+l = 0, or h+2k = 0: a coplanar set in a general
    # direction): whatever is reported for it must still be a right-handed copy of the lattice indexing more than the minimum
    combos += [(0.02, 0.002, -3.0, 0.005, "zone111"), (0.02, 0.002, -3.0, 0.005, "zone120")]
    # noise-free data with a ring tolerance of 1e-8 (computed ring positions must be good to the last digits, not to six decimals)
    combos += [(0.01, 0.002, 0.5, 1e-8, "ideal")]
    # a slightly mosaic first grain: besides its exact reflections, the high-order reflections of a sub-domain 0.46 degrees away (split
    # high-angle peaks), fewer than the minimum: the sub-domain alone is not reportable, and a trial through two of its peaks indexes
    # mostly peaks the grain already owns - the grain must not be reported a second time
    if only_low:
        combos = [(0.02, ct, mf, 0.005, "ideal") for ct in (0.002, -0.002) for mf in (0.08, 0.2, 0.3)]
    if wide:
        # generous ring tolerances (still below a third of the smallest d*): in a low-symmetry cell successive reflections are closer than
        # the tolerance over long stretches of d*, a ring must still not span more than the tolerance
        combos = [(0.01, 0.002, 0.5, dt, "ideal") for dt in (0.05, 0.02)]
    for hkl_tol, ctol, mfrac, ds_tol, kind in combos:
        if ctol < 0 and ng > 3:
            continue        # all-candidates mode is quadratic; kept to the small grain sets
        minpks = int(mfrac * nref) if mfrac > 0 else (int(((np.arange(nref) * 7 + 3) % 10 < 3).sum()) if mfrac == -1.0 else nref - 1)
        gvs = [g.copy() for g in gv_grain]
        n_expected = ng
        if kind == "subdomain":
            Rs = np.dot(O.rotation_from_axis_angle((3, -1, 2), 0.46), rots[0])
            gsub = np.dot(np.dot(Rs, B), hkls.T).T
            far = np.sqrt((np.dot(ubis_true[0], gsub.T) - hkls.T) ** 2).sum(axis=0) > 1.3 * hkl_tol        # clearly off the grain's own lattice
            take = np.nonzero(far)[0][::-1][:int(0.4 * nref)]                                               # the highest orders first
            if len(take) < 6:
                continue
            gvs.append(gsub[take])
        if kind.startswith("zone"):
            zsel = (hkls[:, 0] + hkls[:, 1] + hkls[:, 2] == 0) if kind == "zone111" else (hkls[:, 0] + 2 * hkls[:, 1] == 0)
            if zsel.sum() < 6 or ng > 3:
                # (with many grains and a minimum of a handful of peaks, orientations through a few peaks of different grains are
                # legitimately reported, and nothing ties their refined cell to the supplied one)
                continue
            Rz = O.rotation_from_axis_angle(*ROT_TABLE[(ng + shift) % len(ROT_TABLE)])
            gvs.append(np.dot(np.dot(Rz, B), hkls[zsel].T).T)
            minpks = int(zsel.sum()) - 1             # the zone grain is just reportable
        if kind == "offsets":
            # deterministic "noise": a fixed lattice of small offsets in hkl space (well inside hkl_tol)
            for gi, (g, R) in enumerate(zip(gvs, rots)):
                off = 0.25 * hkl_tol * np.array([np.sin(1.0 + np.arange(nref) * 0.7), np.cos(np.arange(nref) * 1.3), np.sin(2.0 + np.arange(nref) * 0.37)]).T
                gvs[gi] = np.dot(np.dot(R, B), (hkls + off).T).T
        if kind == "partial" and ng >= 1:
            keep = (np.arange(nref) * 7 + 3) % 10 < 3            # 30 % of the last grain's peaks
            gvs[-1] = gvs[-1][keep]
            n_expected = ng - 1
        allgv = np.concatenate(gvs)
        if kind == "ideal+1":
            allgv = np.concatenate([np.array([[0.0137, -0.0291, 0.0411]]), allgv])      # one vector that belongs to nothing
            kind = "ideal"
        if kind == "spurious":
            nsp = max(6, len(allgv) // 5)
            dirs = fib_dirs(nsp, phase=0.3 * li)
            ds_s = np.array([ringds[k % len(ringds)] for k in range(nsp)])
            allgv = np.concatenate([allgv, dirs * ds_s[:, None]])
        # deterministic shuffle (the indexer must not depend on grains being contiguous)
        order = (np.arange(len(allgv)) * 7919) % len(allgv) if np.gcd(7919, len(allgv)) == 1 else np.arange(len(allgv))[::-1]
        allgv = np.ascontiguousarray(allgv[order])
        case = {"lattice": li, "cell": cell, "sym": sym, "ngrains": ng, "hkl_tol": hkl_tol, "cosine_tol": ctol, "minpks": minpks,
                "ds_tol": ds_tol, "data": kind, "seed": seed_of(), "orientation_set": extra_shift}
        uc = ucm.unitcell(cell, sym)
        # the caller's work array is refilled (here: with the next data set, another sample) once the indexer has been made: the indexer
        # searches the g-vectors it was given
        work = allgv.copy()
        ind = indexing.indexer(unitcell=uc, gv=work, cosine_tol=ctol, minpks=minpks, hkl_tol=hkl_tol, ds_tol=ds_tol, wavelength=0.3,
                               uniqueness=0.5, max_grains=100)
        work[:] = np.dot(work[::-1], O.rotation_from_axis_angle((2, 3, -1), 77.0).T) * 1.013
        ind.assigntorings()
        try:
            ind.score_all_pairs()
        except Exception as e:
            sh.violation("indexer:raises", case, {"error": "%s: %s" % (type(e).__name__, e)})
            sh.evaluations += 1
            continue
        found = [np.array(u) for u in ind.ubis]
        # ---- soundness
        ok = True
        for k, u in enumerate(found):
            n = npk_within(u, allgv, hkl_tol)
            if n <= minpks:
                sh.violation("soundness:reported-orientation-indexes-too-few-peaks", dict(case, index=k), {"npeaks": n, "minpks": minpks}); ok = False; break
            if np.linalg.det(u) <= 0:
                sh.violation("soundness:left-handed", dict(case, index=k), {}); ok = False; break
            cp = O.metric_to_cell(np.dot(u, u.T))
            # what hkl_tol allows: a cell length off by eps moves hkl by eps.|h|; peaks of other grains that fall inside the
            # tolerance take part in the refinement even on ideal data, so the bound is the same for every data kind
            rel = hkl_tol + 1e-6
            if np.abs(cp[:3] / np.array(cell[:3]) - 1).max() > rel or np.abs(cp[3:] - np.array(cell[3:])).max() > np.degrees(rel) + 1e-4:
                sh.violation("soundness:cell-parameters-off", dict(case, index=k), {"cell": cp}); ok = False; break
        if ok:
            for a, b in itertools.combinations(range(len(found)), 2):
                if O.lattice_equivalent(found[a], found[b], tol=0.02):
                    sh.violation("soundness:same-lattice-reported-twice", dict(case, a=a, b=b), {"ubi_a": found[a], "ubi_b": found[b]}); ok = False
                    break
        # ---- completeness on ideal data (and on data where every complete grain is present)
        if ok and kind == "subdomain" and len(found) != ng:
            sh.violation("soundness:mosaic-grain-reported-more-than-once", case, {"reported": len(found), "grains": ng})
        if ok and kind in ("ideal", "offsets", "spurious", "partial"):
            matched = []
            for t in range(n_expected):
                m = [k for k, u in enumerate(found) if O.lattice_equivalent(u, ubis_true[t], tol=0.02)]
                matched.append(m)
            if kind == "ideal":
                if any(len(m) != 1 for m in matched) or len(found) != ng:
                    sh.violation("completeness:grains-not-found-exactly-once", case, {"matches_per_true_grain": [len(m) for m in matched], "reported": len(found)})
            else:
                # noisy data: only soundness is demanded; record how many were found
                sh.count("nonideal_runs")
                sh.count("nonideal_true_grains_found", sum(1 for m in matched if m))
        sh.evaluations += 1
        if ng >= 2 or kind != "ideal":
            sh.nontrivial += 1
        sh.outcomes.add((kind, len(found) - n_expected))
    if only_low or wide:
        sh.sample(dict(case, reflections_per_grain=nref, found=len(found)), limit=1)
        return sh
    # ---- further ways of driving the search, ideal data, one hkl_tol: (a) only one ring available (data restricted to it, or
    # rings_to_use=[r]): the ring must be paired with itself; (b) the search repeated on the same indexer object (as indexing.index()
    # does with its list of (minpks, hkl_tol) settings): grains found in the first pass must not be reported again
    allgv = np.ascontiguousarray(np.concatenate(gv_grain))
    dsall = np.sqrt((allgv * allgv).sum(axis=1))
    mults = {}
    for v in hk.values():
        mults[round(v, 6)] = mults.get(round(v, 6), 0) + 1
    best_ring = max(mults, key=lambda d: (mults[d], -d))

    def judge(found, what, case2):
        for a, b in itertools.combinations(range(len(found)), 2):
            if O.lattice_equivalent(found[a], found[b], tol=0.02):
                sh.violation("%s:same-lattice-reported-twice" % what, case2, {"reported": len(found)})
                return
        m = [sum(1 for u in found if O.lattice_equivalent(u, t, tol=0.02)) for t in ubis_true]
        if any(x != 1 for x in m) or len(found) != ng:
            sh.violation("%s:grains-not-found-exactly-once" % what, case2, {"matches_per_true_grain": m, "reported": len(found)})

    if mults[best_ring] >= 6:
        for mode in ("data_on_one_ring", "rings_to_use"):
            gsel = allgv[np.abs(dsall - best_ring) < 1e-5] if mode == "data_on_one_ring" else allgv
            uc = ucm.unitcell(cell, sym)
            minp = int(0.6 * mults[best_ring]) if mode == "data_on_one_ring" else int(0.5 * nref)
            ind = indexing.indexer(unitcell=uc, gv=gsel.copy(), cosine_tol=0.002, minpks=minp, hkl_tol=0.02, ds_tol=0.005, wavelength=0.3, uniqueness=0.5,
                                   max_grains=100)
            ind.assigntorings()
            rid = int(np.argmin(np.abs(np.array(uc.ringds) - best_ring)))
            case2 = {"lattice": li, "cell": cell, "sym": sym, "ngrains": ng, "data": "single_ring:" + mode, "seed": seed_of()}
            if mode == "data_on_one_ring":
                ind.score_all_pairs()
            else:
                ind.score_all_pairs(rings_to_use=[rid])
            judge([np.array(u) for u in ind.ubis], "single-ring[%s]" % mode, case2)
            sh.evaluations += 1
            sh.nontrivial += 1
    for mode in ("score_all_pairs_twice", "indexing.index", "assigntorings_between"):
        case2 = {"lattice": li, "cell": cell, "sym": sym, "ngrains": ng, "data": "repeat:" + mode, "seed": seed_of()}
        uc = ucm.unitcell(cell, sym)
        if mode == "indexing.index":
            from ImageD11 import columnfile as cfm
            cf = cfm.colfile_from_dict({"gx": allgv[:, 0].copy(), "gy": allgv[:, 1].copy(), "gz": allgv[:, 2].copy()})
            for k_, v in zip(("cell__a", "cell__b", "cell__c", "cell_alpha", "cell_beta", "cell_gamma"), cell):
                cf.parameters.set(k_, v)
            cf.parameters.set("cell_lattice_[P,A,B,C,I,F,R]", sym)
            cf.parameters.set("wavelength", 0.3)
            ind = indexing.index(cf, npk_tol=[(int(0.8 * nref), 0.01), (int(0.5 * nref), 0.02)], cosine_tol=0.002, ds_tol=0.005, max_grains=100, rmulmax=48,
                                 log_level=4)
        else:
            ind = indexing.indexer(unitcell=uc, gv=allgv.copy(), cosine_tol=0.002, minpks=int(0.8 * nref), hkl_tol=0.01, ds_tol=0.005, wavelength=0.3, uniqueness=0.5,
                                   max_grains=100)
            ind.assigntorings()
            ind.score_all_pairs()
            if mode == "assigntorings_between":
                ind.assigntorings()
            ind.minpks = int(0.5 * nref)
            ind.hkl_tol = 0.02
            ind.score_all_pairs()
        indexing.loglevel = 4
        judge([np.array(u) for u in ind.ubis], "repeated-search[%s]" % mode, case2)
        sh.evaluations += 1
        sh.nontrivial += 1
    # (b1) reset() between searches, as a script that tries several parameter sets on one indexer does: reset, a permissive search
    # (which also reports a weak extra grain holding 30 % of its reflections), reset, a strict search - the second answer is that of
    # the strict parameters only
    Rw = O.rotation_from_axis_angle(*ROT_TABLE[(ng + shift) % len(ROT_TABLE)])
    keep_w = (np.arange(nref) * 7 + 3) % 10 < 3
    data_w = np.ascontiguousarray(np.concatenate([allgv, np.dot(np.dot(Rw, B), hkls.T).T[keep_w]]))
    case2 = {"lattice": li, "cell": cell, "sym": sym, "ngrains": ng, "data": "repeat:reset_between_searches", "seed": seed_of()}
    ind = indexing.indexer(unitcell=ucm.unitcell(cell, sym), gv=data_w.copy(), cosine_tol=0.002, minpks=int(0.2 * nref), hkl_tol=0.02, ds_tol=0.005,
                           wavelength=0.3, uniqueness=0.5, max_grains=100)
    ind.reset()
    ind.assigntorings()
    ind.score_all_pairs()
    n_first = len(ind.ubis)
    ind.reset()
    ind.minpks = int(0.8 * nref)
    ind.assigntorings()
    ind.score_all_pairs()
    indexing.loglevel = 4
    weak_reported = [u for u in ind.ubis if npk_within(np.array(u), data_w, 0.02) <= int(0.8 * nref)]
    if weak_reported:
        sh.violation("repeated-search[reset between]:orientation-below-the-requested-minimum-reported", case2,
                     {"reported": len(ind.ubis), "below_minimum": len(weak_reported), "reported_by_the_first_search": n_first})
    else:
        judge([np.array(u) for u in ind.ubis], "repeated-search[reset between]", case2)
    sh.evaluations += 1
    sh.nontrivial += 1
    # (b1') max_grains smaller than the number of grains in the sample: it limits what ONE ring pair may add, the search over all ring pairs
    # still reports every grain
    if ng >= 2:
        case2 = {"lattice": li, "cell": cell, "sym": sym, "ngrains": ng, "data": "max_grains=%d" % (ng - 1), "seed": seed_of()}
        ind = indexing.indexer(unitcell=ucm.unitcell(cell, sym), gv=allgv.copy(), cosine_tol=0.002, minpks=int(0.5 * nref), hkl_tol=0.02, ds_tol=0.005,
                               wavelength=0.3, uniqueness=0.5, max_grains=ng - 1)
        ind.assigntorings()
        ind.score_all_pairs()
        indexing.loglevel = 4
        judge([np.array(u) for u in ind.ubis], "search[max_grains below the number of grains]", case2)
        sh.evaluations += 1
        sh.nontrivial += 1
    # (b2) the notebook driver indexing.do_index: peaks selected by ring (foridx = all rings), orientations generated from all ring pairs,
    # looping over (fraction, hkl_tol) on one indexer; with and without an explicit unitcell object
    import io, contextlib
    from ImageD11 import columnfile as cfm2
    for with_uc in (False, True):
        cf = cfm2.colfile_from_dict({"gx": allgv[:, 0].copy(), "gy": allgv[:, 1].copy(), "gz": allgv[:, 2].copy(),
                                     "omega": np.linspace(0.0, 180.0, len(allgv), endpoint=False)})
        for k_, v in zip(("cell__a", "cell__b", "cell__c", "cell_alpha", "cell_beta", "cell_gamma"), cell):
            cf.parameters.set(k_, v)
        cf.parameters.set("cell_lattice_[P,A,B,C,I,F,R]", sym)
        cf.parameters.set("wavelength", 0.3)
        uc0 = ucm.unitcell(cell, sym)
        uc0.makerings(dsmax + 0.01, 0.005)
        nr = len(uc0.ringds)
        top2 = sorted(sorted(range(nr), key=lambda r_: (-len(uc0.ringhkls[uc0.ringds[r_]]), r_))[:2])
        case2 = {"lattice": li, "cell": cell, "sym": sym, "ngrains": ng, "data": "do_index:" + ("unitcell given" if with_uc else "cell from parameters"), "seed": seed_of()}
        try:
            with contextlib.redirect_stdout(io.StringIO()):
                grains_found, ind = indexing.do_index(cf, dstol=0.005, hkl_tols=(0.01, 0.02), fracs=(0.9, 0.6), forgen=list(range(nr)), foridx=list(range(nr)), max_grains=100,
                                                      **({"unitcell": ucm.unitcell(cell, sym)} if with_uc else {}))
        except Exception as e:
            sh.violation("do_index:raises", case2, {"error": "%s: %s" % (type(e).__name__, str(e)[:200])})
            continue
        finally:
            indexing.loglevel = 4
        judge([np.array(g_.ubi) for g_ in grains_found], "do_index", case2)
        if len(grains_found) != len(ind.ubis):
            sh.violation("do_index:grains-differ-from-indexer", case2, {})
        sh.evaluations += 1
        sh.nontrivial += 1
    # (c) ONE unitcell object shared by two searches whose ring tables differ (a coarse ds_tol first, with a minpks nothing reaches, then
    # the fine one), the generating rings restricted to two rings: ring numbers mean different reflections in the two tables
    fine = sorted(mults)
    two = sorted(sorted(fine, key=lambda d: (-mults[d], d))[:2])
    if len(fine) >= 3:
        uc = ucm.unitcell(cell, sym)
        case2 = {"lattice": li, "cell": cell, "sym": sym, "ngrains": ng, "data": "shared_unitcell:coarse_then_fine_ring_table", "seed": seed_of()}
        # the ring NUMBERS of the fine table are used in both searches (in the coarse table the same numbers mean other, merged rings)
        ucf = ucm.unitcell(cell, sym)
        ucf.makerings(dsmax + 0.005, 0.005)
        rids_fine = sorted(set(int(np.argmin(np.abs(np.array(ucf.ringds) - d))) for d in two))
        for ds_tol, minp in ((0.05, nref + 1), (0.005, int(0.5 * nref))):
            ind = indexing.indexer(unitcell=uc, gv=allgv.copy(), cosine_tol=0.002, minpks=minp, hkl_tol=0.02, ds_tol=ds_tol, wavelength=0.3, uniqueness=0.5,
                                   max_grains=100)
            ind.assigntorings()
            rids = [r_ for r_ in rids_fine if r_ < len(uc.ringds)]
            if rids:
                ind.score_all_pairs(rings_to_use=rids)
        # a search restricted to two rings need not find every grain (the property promises completeness for all ring pairs); what it
        # finds must not depend on what the unitcell object was used for before: the reference is the same search with a fresh object
        ind0 = indexing.indexer(unitcell=ucm.unitcell(cell, sym), gv=allgv.copy(), cosine_tol=0.002, minpks=int(0.5 * nref), hkl_tol=0.02, ds_tol=0.005, wavelength=0.3,
                                uniqueness=0.5, max_grains=100)
        ind0.assigntorings()
        ind0.score_all_pairs(rings_to_use=[r_ for r_ in rids_fine if r_ < len(ind0.unitcell.ringds)])
        got_, ref_ = [np.array(u) for u in ind.ubis], [np.array(u) for u in ind0.ubis]
        if len(got_) != len(ref_) or any(sum(1 for v in got_ if O.lattice_equivalent(u, v, tol=0.02)) != 1 for u in ref_):
            sh.violation("shared-unitcell[coarse then fine ring table]:result-differs-from-the-same-search-with-a-fresh-unitcell", case2,
                         {"reported": len(got_), "reported_with_fresh_unitcell": len(ref_)})
        for a, b in itertools.combinations(range(len(got_)), 2):
            if O.lattice_equivalent(got_[a], got_[b], tol=0.02):
                sh.violation("shared-unitcell[coarse then fine ring table]:same-lattice-reported-twice", case2, {"reported": len(got_)})
                break
        sh.evaluations += 1
        sh.nontrivial += 1
    sh.sample(dict(case, reflections_per_grain=nref, found=len(found)), limit=1)
    return sh


def replay(case):
    if case.get("kind") == "interleaved":
        os.environ["VERIF_SEED"] = str(case.get("seed", 0))
        r = _run_interleaved(("interleaved", case["which"]))
        v = [x for x in r.violations if x["case"]["order_of_calls"] == case["order_of_calls"] and x["case"]["indexer"] == case["indexer"]]
        return (not v), {"violations": v[:2]}
    if case.get("kind") == "wavelength":
        os.environ["VERIF_SEED"] = str(case.get("seed", 0))
        r = _run_wavelength(("wavelength", case["which"]))
        return (not r.violations), {"violations": r.violations[:2]}
    if case.get("kind") == "bigtable":
        os.environ["VERIF_SEED"] = str(case.get("seed", 0))
        r = _run_bigtable(("bigtable", case["threads"], case["orientation_set"]))
        return (not r.violations), {"violations": r.violations[:2]}
    if case.get("kind") == "callers":
        from vt.props import c06
        return c06.replay(case)
    os.environ["VERIF_SEED"] = str(case.get("seed", 0))
    if case.get("kind") == "mosaic":
        r = _run_mosaic(("mosaic", case["ngrains"], case["subdomain_peaks"] / float(case["reflections_per_grain"]) + 1e-9, case["orientation_set"]))
        return (not r.violations), {"violations": r.violations[:3]}
    if case.get("ds_tol", 0) > 0.01:
        r = run_shard(("index_wide", case["lattice"], case["ngrains"], "thorough", case.get("orientation_set", 0)))
    elif case.get("orientation_set"):
        r = run_shard(("index_low", case["lattice"], case["ngrains"], "thorough", case["orientation_set"]))
    else:
        r = run_shard(("index", case["lattice"], case["ngrains"], "thorough"))
    v = [x for x in r.violations if all(x["case"].get(k) == case.get(k) for k in ("hkl_tol", "cosine_tol", "minpks", "ds_tol", "data"))]
    return (not v), {"violations": v[:3]}
