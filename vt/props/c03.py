"""C03 - reflection lists are complete, sound and correctly grouped into rings.

Bounded exhaustive exploration: a stated list of cells (all seven systems, genuinely oblique and
rhombohedral ones, plus;
quick: the full grid a,b,c in {3,4,5} x angles in {60,75,90,100,120}; thorough: a,b,c in {2,3,5,8,13,30} x angles in {55,70,90,110,125}, positive volume) x ALL seven centrings x d*
limits x ring tolerances.  Oracle: brute-force enumeration of the rigorous box |h| <= |a| d*max,
the seven textbook centring rules written independently, ds = |B.hkl| with B recomputed from the
cell.  Rings: ascending, a partition of the list, neighbours inside a ring differ by < tol,
reflections with identical d* share a ring.
"""
from __future__ import annotations
import itertools, os
import numpy as np
from vt.runner import Shard
from vt import oracles as O

LEVEL = "exploration"
RULE = ("cases = (cell, centring, d* limit[, ring tolerance]) from the stated finite lists, all combinations; non-trivial = "
        "the centring forbids >= 1 hkl inside the limit or the cell is oblique (some angle != 90), and the list has >= 2 rings")
ASSUMPTIONS = ["cells and limits from the stated lists only; d* limits scaled so that lists stay below ~3000 reflections",
               "reflections whose d* is within 1e-9 of the limit are borderline (either in or out is accepted)"]

SYMS = ["P", "A", "B", "C", "I", "F", "R"]

BASE_CELLS = [
    [4.0, 4.0, 4.0, 90, 90, 90], [4.0, 4.0, 5.5, 90, 90, 90], [3.0, 4.0, 5.0, 90, 90, 90],
    [3.0, 3.0, 5.0, 90, 90, 120], [5.0, 5.0, 5.0, 60, 60, 60], [4.0, 4.0, 4.0, 75, 75, 75],
    [4.0, 4.0, 4.0, 100, 100, 100], [3.0, 4.0, 5.0, 90, 100, 90], [3.0, 4.0, 5.0, 90, 120, 90],
    [5.0, 4.0, 3.0, 90, 75, 90], [3.0, 4.0, 5.0, 70, 80, 110], [4.1, 5.2, 6.3, 80, 95, 105],
    [3.0, 4.0, 5.0, 60, 75, 100], [5.0, 3.0, 4.0, 120, 100, 75], [2.0, 8.0, 3.0, 90, 90, 90],
    [3.0, 3.0, 3.0, 55, 55, 55], [6.0, 2.5, 4.0, 110, 70, 95],
    # refined cells: angles a few 1e-4 degrees away from a right angle
    [4.05, 4.05, 4.05, 90, 90, 90.0008], [3.0, 4.0, 5.0, 89.9995, 90, 90.0004],
]


def volume_ok(cell):
    ca, cb, cg = np.cos(np.radians(cell[3:]))
    return 1 - ca * ca - cb * cb - cg * cg + 2 * ca * cb * cg > 0.05


def cells_for(tier):
    cells = [list(c) for c in BASE_CELLS]
    if tier == "quick":
        lens, angs = (3.0, 4.0, 5.0), (60, 75, 90, 100, 120)
    else:
        lens, angs = (2.0, 3.0, 5.0, 8.0, 13.0, 30.0), (55, 70, 90, 110, 125)
    for abc in itertools.product(lens, repeat=3):
        for ang in itertools.product(angs, repeat=3):
            c = list(abc) + list(ang)
            if volume_ok(c):
                cells.append(c)
    return cells


def plan(tier, seed):
    cells = cells_for(tier)
    shards = []
    step = max(2, len(cells) // 256)
    for ci in range(0, len(cells), step):
        shards.append(("cells", tier, ci, min(len(cells), ci + step)))
    for li in range(len(HIST_LATTICES)):
        shards.append(("hist", li, 3 if tier == "quick" else 4))
    for k_ in range(len(DEEP)):
        shards.append(("deep", k_))
    for k_ in range(len(JUSTABOVE)):
        shards.append(("justabove", k_))
    for li in (0, 3, 5):
        shards.append(("threads", li, 1 if tier == "quick" else 2))
    k = seed % len(shards)
    return shards[k:] + shards[:k]


HIST_LATTICES = [([4.04, 4.04, 4.04, 90, 90, 90], "F"), ([2.87, 2.87, 2.87, 90, 90, 90], "I"), ([3.0, 3.0, 5.0, 90, 90, 120], "P"),
                 ([3.0, 4.0, 5.0, 70, 80, 110], "P"), ([5.0, 5.0, 5.0, 60, 60, 60], "P"), ([3.0, 4.0, 5.0, 90, 100, 90], "C"),
                 ([5.0, 5.0, 13.0, 90, 90, 120], "R"), ([4.0, 4.0, 5.5, 90, 90, 90], "A"),
                 # pseudo-cubic: d*(001) = 0.2500, d*(010) = 0.2508, d*(100) = 0.2513 - rings with a width, the next one starting closer than the tolerance
                 ([3.9793, 3.9872, 4.0, 90, 90, 90], "P")]
HIST_LIMITS = (0.41, 0.63, 0.97)


# one long axis and a high limit: Miller indices up to +-192 along it (the library documents |h| < 200)
DEEP = [([30.0, 2.0, 2.0, 90, 90, 90], "P", 4.3), ([30.0, 2.0, 2.0, 90, 90, 90], "I", 6.4), ([2.0, 30.0, 2.2, 90, 90, 90], "P", 5.5), ([2.0, 2.0, 30.0, 90, 90, 90], "F", 6.4),
        ([2.5, 2.5, 30.0, 90, 90, 120], "P", 4.4), ([2.0, 2.3, 29.0, 80, 75, 100], "P", 6.0)]


# the limit put just above EVERY reflection of the list in turn (1e-8 relative: far above double rounding, far below any single precision
# shortcut); flat oblique cells (three obtuse angles adding up to nearly 360 degrees) make h.g*.h a sum of large terms of both signs
JUSTABOVE = [([4.05, 4.05, 4.05, 90, 90, 90], "F", 1.5), ([2.95, 2.95, 4.68, 90, 90, 120], "P", 1.2), ([5.0, 5.0, 5.0, 118, 118, 118], "P", 1.5),
             ([10.0, 12.0, 8.0, 124, 115, 119], "P", 0.8), ([10.0, 12.0, 8.0, 124, 115, 119], "I", 0.9), ([21.0, 17.0, 26.0, 121, 123, 115], "P", 0.35),
             ([7.0, 8.0, 9.0, 70, 80, 100], "P", 0.7), ([9.0, 6.0, 11.0, 90, 124, 90], "C", 0.7)]


def _run_justabove(desc):
    from ImageD11 import unitcell as uc_mod
    import io, contextlib
    sh = Shard()
    cell, sym, top = JUSTABOVE[desc[1]]
    want, B = O.brute_hkls(cell, sym, top)
    ds = np.array(sorted(set(want.values())))
    hk = list(want.items())
    for i, d in enumerate(ds):
        if i and d - ds[i - 1] < 1e-9:
            continue
        limit = float(d * (1 + 1e-8))
        if any(abs(x - limit) < 2e-9 * limit for x in ds[max(0, i - 3):i + 4]):
            sh.borderline += 1
            continue
        sure = {h for h, x in hk if x < limit}
        # every other object is made with verbose=1: the print-out of the intermediate results changes nothing
        with contextlib.redirect_stdout(io.StringIO()):
            uc = uc_mod.unitcell(cell, sym, verbose=i % 2)
        got = {tuple(int(v) for v in p[1]): p[0] for p in uc.gethkls(limit)}
        case = {"kind": "justabove", "index": desc[1], "cell": cell, "sym": sym, "dsmax": limit, "verbose": i % 2}
        if set(got) != sure:
            sh.violation("gethkls:missing-reflections" if sure - set(got) else "gethkls:unexpected-reflections", case,
                         {"missing": sorted(sure - set(got))[:4], "extra": sorted(set(got) - sure)[:4], "below_the_limit_by": float(limit - d)})
            break
        Bl = np.array(uc.B, float)
        worst = max(abs(float(np.linalg.norm(np.dot(Bl, h))) - x) for h, x in got.items())
        if worst > 1e-9:
            sh.violation("gethkls:ds-not-length-of-the-cell's-own-B.hkl", case, {"max_diff": worst})
            break
        sh.evaluations += 1
        sh.nontrivial += 1
    sh.outcomes.add(("justabove", desc[1]))
    sh.sample({"kind": "justabove", "cell": cell, "sym": sym, "limits": int(sh.evaluations)}, limit=1)
    return sh


def _run_deep(desc):
    from ImageD11 import unitcell as uc_mod
    sh = Shard()
    cell, sym, dsmax = DEEP[desc[1]]
    case = {"cell": cell, "sym": sym, "dsmax": dsmax, "kind": "deep"}
    r = check_list(sh, uc_mod, cell, sym, dsmax, case)
    if r is not None:
        hmax = max(max(abs(int(x)) for x in p[1]) for p in r[0])
        sh.counters["max_miller_index"] = hmax
        check_rings(sh, uc_mod, cell, sym, dsmax, 1e-3, dict(case, ringtol=1e-3))
    sh.evaluations += 2
    sh.nontrivial += 2
    sh.outcomes.add(("deep", desc[1]))
    sh.sample(case, limit=1)
    return sh


def _run_threads(desc):
    """two python threads ask ONE shared unitcell object for the same reflection list at the same time (workers indexing one phase):
    every schedule with one preemption at a statement of gethkls / makerings is executed; each caller must receive the complete,
    sorted, duplicate-free list for its limit, and the object must hold it afterwards"""
    li = desc[1]
    bound = desc[2] if len(desc) > 2 else 1
    from ImageD11 import unitcell as uc_mod
    from vt import pysched
    sh = Shard()
    cell, sym = HIST_LATTICES[li]
    dmin = min(O.brute_hkls(cell, sym, 1.0)[0].values())
    lim = round(dmin * 1.45, 4)
    want = sorted(O.brute_hkls(cell, sym, lim)[0])
    wantds = O.brute_hkls(cell, sym, lim)[0]
    codes = (uc_mod.unitcell.gethkls.__code__, uc_mod.unitcell.makerings.__code__, uc_mod.unitcell.ds.__code__)
    holder = {}
    # an unrelated phase that another worker thread works on (its own object, nothing passed between the threads)
    cell2, sym2 = HIST_LATTICES[(li + 3) % len(HIST_LATTICES)]
    lim2 = round(min(O.brute_hkls(cell2, sym2, 1.0)[0].values()) * 1.3, 4)
    want2 = O.brute_hkls(cell2, sym2, lim2)[0]

    def reset():
        holder["uc"] = uc_mod.unitcell(cell, sym)
        holder["uc2"] = uc_mod.unitcell(cell2, sym2)

    def listed(peaks):
        return [tuple(int(x) for x in p[1]) for p in peaks], [p[0] for p in peaks]
    for mode in ("gethkls+gethkls", "gethkls+makerings", "gethkls+gethkls-of-another-cell-object"):
        def make():
            def a():
                return listed(holder["uc"].gethkls(lim))

            def b():
                if mode == "gethkls+gethkls":
                    return listed(holder["uc"].gethkls(lim))
                if mode == "gethkls+gethkls-of-another-cell-object":
                    return listed(holder["uc2"].gethkls(lim2))
                holder["uc"].makerings(lim - 1e-3, 1e-3)
                return listed(holder["uc"].peaks)
            return [a, b]
        nexec = 0
        for sw, res, err in pysched.explore(make, lambda fr: fr.f_code in codes, bound=bound, reset=reset, max_exec=6000 if bound == 1 else 60000):
            nexec += 1
            case = {"kind": "threads", "cell": cell, "sym": sym, "mode": mode, "switch_at_points": list(sw), "dsmax": lim}
            for t in range(2):
                if err[t] is not None:
                    sh.violation("gethkls:concurrent-call-raises", dict(case, thread=t), {"error": repr(err[t])[:200]})
                    break
                hk, ds = res[t]
                wl, wd_ = (want, wantds) if (t == 0 or not mode.endswith("object")) else (sorted(want2), want2)
                if sorted(hk) != wl or len(set(hk)) != len(hk) or any(ds[i] > ds[i + 1] for i in range(len(ds) - 1)):
                    sh.violation("gethkls:caller-received-an-incomplete-unsorted-or-duplicated-list", dict(case, thread=t),
                                 {"n": len(hk), "expected": len(wl), "duplicates": len(hk) - len(set(hk))})
                    break
                if any(abs(d_ - wd_[h_]) > 1e-9 for h_, d_ in zip(hk, ds)):
                    sh.violation("gethkls:listed-dstar-is-not-that-of-the-hkl", dict(case, thread=t), {})
                    break
            else:
                hk, ds = listed(holder["uc"].gethkls(lim))
                if sorted(hk) != want or len(set(hk)) != len(hk):
                    sh.violation("gethkls:object-holds-a-wrong-list-afterwards", case, {"n": len(hk), "expected": len(want)})
            sh.states += 1
            sh.traces_validated += 1
            if sh.violations:
                break
        sh.count("thread_schedules_executed", nexec)
        sh.evaluations += 1
        sh.nontrivial += 1
    sh.outcomes.add(("threads", li))
    sh.sample({"kind": "threads", "cell": cell, "sym": sym, "schedules": nexec, "reflections": len(want)}, limit=1)
    return sh


def _run_hist(desc):
    """histories on ONE unitcell object: every sequence of gethkls(l) / makerings(l, tol) calls up to the given depth; after
    each call the returned / stored list must be the complete, sound list for the limit of that call (cached state from
    earlier calls must not leak)."""
    _, li, depth = desc
    from ImageD11 import unitcell as uc_mod
    sh = Shard()
    cell, sym = HIST_LATTICES[li]
    # limits relative to the first reflection so that no list is empty (makerings on an empty list is outside the alphabet)
    dmin = min(O.brute_hkls(cell, sym, 1.0)[0].values())
    limits = tuple(round(dmin * f, 4) for f in (1.23, 1.71, 2.37))
    # makerings three ways: the tolerance given (0.001), left to its documented default (0.001), and a wide one (0.02) as the indexer
    # passes its ds_tol - the default must stay 0.001 whatever an earlier caller of the same object asked for
    WIDE = 0.02
    ops = [("gethkls", l, None) for l in limits] + [("makerings", l, 1e-3) for l in limits] + \
          [("makerings-default-tol", l, None) for l in (limits[0], limits[2])] + [("makerings", l, WIDE) for l in (limits[0], limits[2])]
    oracle = {}
    for l in limits:
        for lim in (l, l + 1e-3, l + WIDE):
            w, B = O.brute_hkls(cell, sym, lim)
            oracle[lim] = w
    fresh_rings = {}
    for name, l, t in ops:
        if name != "gethkls":
            f = uc_mod.unitcell(cell, sym)
            f.makerings(l, 1e-3 if t is None else t)
            fresh_rings[(l, 1e-3 if t is None else t)] = [sorted(tuple(int(x) for x in hh) for hh in f.ringhkls[d_]) for d_ in f.ringds]
    for d in range(1, depth + 1):
        for seq in itertools.product(range(len(ops)), repeat=d):
            # built from an array the caller goes on using: the object must own its cell
            arr = np.array(cell, float)
            uc = uc_mod.unitcell(arr, sym)
            arr[:3] *= 0.3
            arr[3:] = 90.0
            names = []
            bad = False
            for oi in seq:
                name, l, t = ops[oi]
                names.append("%s(%g%s)" % (name, l, "" if t is None else ", %g" % t))
                if name == "gethkls":
                    peaks = uc.gethkls(l)
                    lim = l
                else:
                    tol = 1e-3 if t is None else t
                    if t is None:
                        uc.makerings(l)
                    else:
                        uc.makerings(l, t)
                    peaks = uc.peaks
                    lim = l + tol
                got = {tuple(int(x) for x in p[1]): p[0] for p in peaks}
                want = oracle[lim]
                if len(got) != len(peaks) or set(got) != set(want):
                    sh.violation("history:list-wrong-after-sequence", {"kind": "hist", "cell": cell, "sym": sym, "history": list(names)},
                                 {"n_got": len(peaks), "n_expected": len(want), "missing": sorted(set(want) - set(got))[:5],
                                  "extra": sorted(set(got) - set(want))[:5]})
                    bad = True
                    break
                if name != "gethkls":
                    rings = [sorted(tuple(int(x) for x in hh) for hh in uc.ringhkls[d_]) for d_ in uc.ringds]
                    inr = sorted(h for r_ in rings for h in r_)
                    if inr != sorted(got):
                        sh.violation("history:rings-not-a-partition-after-sequence", {"kind": "hist", "cell": cell, "sym": sym, "history": list(names)}, {})
                        bad = True
                        break
                    for r_ in rings:
                        md = sorted(got[h] for h in r_)
                        if any(md[i + 1] - md[i] >= tol for i in range(len(md) - 1)):
                            sh.violation("history:ring-neighbours-differ-by-more-than-the-tolerance-of-this-call",
                                         {"kind": "hist", "cell": cell, "sym": sym, "history": list(names)}, {"tol": tol, "ring_ds": md[:6]})
                            bad = True
                            break
                    if not bad and rings != fresh_rings[(l, tol)]:
                        sh.violation("history:rings-differ-from-the-same-call-on-a-fresh-object",
                                     {"kind": "hist", "cell": cell, "sym": sym, "history": list(names)},
                                     {"n_rings": len(rings), "n_rings_fresh_object": len(fresh_rings[(l, tol)])})
                        bad = True
                    if not bad and len(uc.ringds) >= 2 and len(names) == len(seq):
                        # (after the last call of the history) the rings are USED (the angle tables the indexer asks for, three ring pairs): reading them changes nothing
                        for r1, r2 in ((0, len(uc.ringds) - 1), (1, 0), (0, 0)):
                            uc.getanglehkls(r1, r2)
                        rings2 = [sorted(tuple(int(x) for x in hh) for hh in uc.ringhkls[d_]) for d_ in uc.ringds]
                        if rings2 != fresh_rings[(l, tol)]:
                            names.append("getanglehkls x3")
                            sh.violation("history:rings-changed-by-asking-for-angle-tables",
                                         {"kind": "hist", "cell": cell, "sym": sym, "history": list(names)},
                                         {"ring_sizes": [len(r_) for r_ in rings2][:8], "fresh": [len(r_) for r_ in fresh_rings[(l, tol)]][:8]})
                            bad = True
                    if bad:
                        break
            sh.evaluations += 1
            sh.states += 1
            if d >= 2:
                sh.nontrivial += 1
    sh.sample({"kind": "hist", "cell": cell, "sym": sym, "history": names}, limit=1)
    sh.outcomes.add(("hist", li))
    return sh


def limits_for(cell, tier):
    a = max(cell[:3])
    lims = [0.53, 0.83] if tier == "quick" else [0.31, 0.53, 0.83]
    # keep the box small for long axes
    scale = min(1.0, 8.0 / a)
    return [round(l * scale, 4) for l in lims]


def check_list(sh, uc_mod, cell, sym, dsmax, case):
    uc = uc_mod.unitcell(cell, sym)
    peaks = uc.gethkls(dsmax)
    want, B = O.brute_hkls(cell, sym, dsmax * (1 + 1e-9) + 1e-9)
    got = {}
    for ds, hkl in peaks:
        hkl = tuple(int(x) for x in hkl)
        if hkl in got:
            sh.violation("gethkls:duplicate-hkl", case, {"hkl": hkl})
            return None
        got[hkl] = ds
    border = {h for h, d in want.items() if abs(d - dsmax) < 1e-9}
    sure = {h for h, d in want.items() if d < dsmax - 1e-9}
    missing = sorted(sure - set(got))
    if missing:
        sh.violation("gethkls:missing-reflections", case, {"n_missing": len(missing), "first": missing[:6], "n_expected": len(sure)})
        return None
    extra = sorted(set(got) - sure - border)
    if extra:
        why = []
        for h in extra[:6]:
            d = float(np.linalg.norm(np.dot(B, h)))
            why.append({"hkl": h, "ds": d, "allowed_by_centring": O.centring_allows(*h, sym), "zero": h == (0, 0, 0)})
        sh.violation("gethkls:unexpected-reflections", case, {"n_extra": len(extra), "first": why})
        return None
    for h, ds in got.items():
        d = float(np.linalg.norm(np.dot(B, h)))
        if abs(d - ds) > 1e-10:
            sh.violation("gethkls:ds-not-length-of-B.hkl", case, {"hkl": h, "ds": ds, "expected": d})
            return None
    # ... and of the object's OWN B matrix (the one orientations are built with): B.hkl has the listed length, B^T.B is the reciprocal metric
    Blib = np.array(uc.B, float)
    for h, ds in got.items():
        d = float(np.linalg.norm(np.dot(Blib, h)))
        if abs(d - ds) > 1e-9 * max(1.0, ds):
            sh.violation("gethkls:ds-not-length-of-the-cell's-own-B.hkl", case, {"hkl": h, "ds": ds, "length_of_B_hkl": d})
            return None
    dss = [p[0] for p in peaks]
    if dss and max(dss) >= dsmax:
        sh.violation("gethkls:listed-reflection-not-below-the-limit", case, {"ds": max(dss), "dsmax": dsmax})
        return None
    if any(dss[i] > dss[i + 1] for i in range(len(dss) - 1)):
        sh.violation("gethkls:not-ascending", case, {})
        return None
    sh.borderline += len(border)
    nabsent = len(O.brute_hkls(cell, "P", dsmax)[0]) - len(sure)
    return peaks, nabsent


def check_rings(sh, uc_mod, cell, sym, limit, tol, case):
    uc = uc_mod.unitcell(cell, sym)
    uc.makerings(limit, tol)
    peaks = uc.peaks
    allhkl = [tuple(int(x) for x in p[1]) for p in peaks]
    ds_of = {tuple(int(x) for x in p[1]): p[0] for p in peaks}
    rds = list(uc.ringds)
    if any(rds[i] >= rds[i + 1] for i in range(len(rds) - 1)):
        sh.violation("makerings:ringds-not-ascending", case, {})
        return 0
    seen = {}
    for r, d in enumerate(rds):
        members = [tuple(int(x) for x in h) for h in uc.ringhkls[d]]
        if any(m not in ds_of for m in members):
            sh.violation("makerings:ring-member-not-in-the-reflection-list", case, {"ring": r, "hkl": [m for m in members if m not in ds_of][0]})
            return 0
        md = sorted(ds_of[m] for m in members)
        if any(md[i + 1] - md[i] >= tol for i in range(len(md) - 1)):
            sh.violation("makerings:neighbours-differ-by-more-than-tol", case, {"ring": r})
            return 0
        if r > 0 and md[0] < max(ds_of[m] for m in prev_members) - 1e-15:
            sh.violation("makerings:rings-overlap-in-ds", case, {"ring": r})
            return 0
        prev_members = members
        for m in members:
            if m in seen:
                sh.violation("makerings:reflection-in-two-rings", case, {"hkl": m})
                return 0
            seen[m] = r
    if set(seen) != set(allhkl) or len(allhkl) != len(seen):
        sh.violation("makerings:not-a-partition-of-the-list", case, {"in_rings": len(seen), "in_list": len(allhkl)})
        return 0
    # identical d* => same ring
    order = sorted(allhkl, key=lambda h: ds_of[h])
    for x, y in zip(order[:-1], order[1:]):
        if abs(ds_of[x] - ds_of[y]) < 1e-12 and seen[x] != seen[y]:
            sh.violation("makerings:equal-ds-in-different-rings", case, {"hkl1": x, "hkl2": y})
            return 0
    return len(rds)


def run_shard(desc):
    if desc[0] == "hist":
        return _run_hist(desc)
    if desc[0] == "deep":
        return _run_deep(desc)
    if desc[0] == "justabove":
        return _run_justabove(desc)
    if desc[0] == "threads":
        return _run_threads(desc)
    _, tier, c0, c1 = desc
    from ImageD11 import unitcell as uc_mod
    sh = Shard()
    cells = cells_for(tier)[c0:c1]
    tols = [1e-4, 1e-3, 5e-3]
    for cell in cells:
        oblique = any(abs(x - 90) > 1e-9 for x in cell[3:])
        for sym in SYMS:
            for dsmax in limits_for(cell, tier):
                case = {"cell": cell, "sym": sym, "dsmax": dsmax}
                r = check_list(sh, uc_mod, cell, sym, dsmax, case)
                sh.evaluations += 1
                nrings = 0
                if r is not None and len(r[0]) == 0:
                    sh.count("empty_lists")
                if r is not None and len(r[0]) > 0:
                    for tol in tols:
                        nrings = check_rings(sh, uc_mod, cell, sym, dsmax, tol, dict(case, ringtol=tol))
                        sh.evaluations += 1
                    if (r[1] > 0 or oblique) and nrings >= 2:
                        sh.nontrivial += 1 + len(tols)
                    sh.outcomes.add((sym, oblique, min(len(r[0]), 50) // 10))
                    # the limit put exactly ON a reflection (the library's own d* of it): strictly-below means it is not listed, and
                    # everything the longer list had below it still is
                    if sym == "P" and len(r[0]) >= 3 and dsmax == limits_for(cell, tier)[-1]:
                        for pk in (r[0][len(r[0]) // 2], r[0][-1]):
                            lim = pk[0]
                            got2 = uc_mod.unitcell(cell, sym).gethkls(lim)
                            if any(q[0] >= lim for q in got2):
                                sh.violation("gethkls:limit-on-a-reflection-is-not-strict", dict(case, dsmax=lim), {"n_at_or_above": sum(1 for q in got2 if q[0] >= lim)})
                            elif len(got2) != sum(1 for q in r[0] if q[0] < lim):
                                sh.violation("gethkls:limit-on-a-reflection-loses-lower-ones", dict(case, dsmax=lim), {})
                            sh.evaluations += 1
        sh.sample({"cell": cell, "sym": "F", "dsmax": dsmax}, limit=1)
    return sh


def replay(case):
    from ImageD11 import unitcell as uc_mod
    sh = Shard()
    if case.get("kind") == "threads":
        li = [i for i, (c, s_) in enumerate(HIST_LATTICES) if c == case["cell"] and s_ == case["sym"]][0]
        r = _run_threads(("threads", li))
        return (not r.violations), {"violations": r.violations[:2]}
    if case.get("kind") == "justabove":
        r = _run_justabove(("justabove", case["index"]))
        return (not r.violations), {"violations": r.violations[:2]}
    if case.get("kind") == "hist":
        li = [i for i, (c, s_) in enumerate(HIST_LATTICES) if c == case["cell"] and s_ == case["sym"]][0]
        r = _run_hist(("hist", li, len(case["history"])))
        v = [x for x in r.violations if x["case"]["history"] == case["history"]]
        return (not v), {"violations": v}
    r = check_list(sh, uc_mod, case["cell"], case["sym"], case["dsmax"], case)
    if r is not None and "ringtol" in case:
        check_rings(sh, uc_mod, case["cell"], case["sym"], case["dsmax"], case["ringtol"], case)
    return (not sh.violations), {"violations": sh.violations}
