"""C13 - local-maximum labelling follows steepest ascent for every thread count.

(a) inputs, sequential semantics (f2py build, 1 thread): images are total orders of pixel values
    (no equal neighbours): frames whose k x l interior takes ALL orders and whose border is
    (i) below every interior value, (ii) a fixed mixed pattern with border pixels above some
    interior pixels (ascent leaves the image -> background); sparse: ALL subsets of a 3x3 grid in
    all orders; dense/sparse agreement on the same pixels.
(b) schedules (E3, model checking): `localmaxlabel` compiled from /repo/src with tsan
    instrumentation and run on the vrt runtime; ALL schedules up to a preemption bound for
    T in {2,3,4} threads on all 720 orders of a 2x3 interior in a 4x5 frame (thorough: also 3x3
    interior samples... see plan); `schedule(dynamic)` row hand-out is part of the explored choices;
    labels/wrk pre-filled with two different poisons; every schedule's result must equal the oracle.
(c) thread count as configuration: real libgomp with 1,2,3,4,8,16 threads on the (a) images (auxiliary).
Oracle: direct steepest-ascent walk written for the purpose.
"""
from __future__ import annotations
import itertools, os, ctypes
import numpy as np
from vt.runner import Shard
from vt import oracles as O

LEVEL = "model_checking"
RULE = ("(a) cases = (frame shape, border pattern, order of interior pixel values) enumerated completely; "
        "(b) cases = (image, thread count, poison) each explored over ALL schedules within the preemption bound; "
        "non-trivial (a) = image with >= 2 local maxima or an ascent path of length >= 2; "
        "non-trivial (b) = (image, T) whose conflict set is non-empty (threads really share words)")
ASSUMPTIONS = ["sequentially consistent interleavings of the -O0 loads/stores (compiler/CPU reordering not modelled)",
               "images without equal-valued neighbours (the property's precondition)",
               "conflict set computed to a fixpoint over all explored executions; accesses outside it commute",
               "thread counts 2..4 in the schedule exploration; higher counts only in the free-running auxiliary pass"]

NB8 = [(-1, -1), (-1, 0), (-1, 1), (0, -1), (0, 1), (1, -1), (1, 0), (1, 1)]


# ------------------------------------------------------------------------------------------ oracles
def dense_oracle(im):
    """Steepest ascent for interior pixels; border pixels are background (0); an ascent that
    reaches a border pixel ends there (background). Returns canonical partition and #labels."""
    d0, d1 = im.shape
    a = im.tolist()
    up = {}
    for i in range(1, d0 - 1):
        for j in range(1, d1 - 1):
            best, bi, bj = a[i][j], i, j
            for di, dj in NB8:
                v = a[i + di][j + dj]
                if v > best:
                    best, bi, bj = v, i + di, j + dj
            up[(i, j)] = (bi, bj)
    maxima = sorted(p for p, q in up.items() if p == q)
    rank = {p: k + 1 for k, p in enumerate(maxima)}
    lab = np.zeros((d0, d1), np.int32)
    longest = 0
    for p in up:
        q = p
        steps = 0
        while q in up and up[q] != q:
            q = up[q]
            steps += 1
        longest = max(longest, steps)
        lab[p] = rank.get(q, 0)   # q not interior => border => background
    return lab, len(maxima), longest


def sparse_oracle(ii, jj, v):
    pos = {(int(a), int(b)): k for k, (a, b) in enumerate(zip(ii, jj))}
    up = []
    for k, (a, b) in enumerate(zip(ii, jj)):
        best, bk = v[k], k
        for di, dj in NB8:
            q = pos.get((int(a) + di, int(b) + dj))
            if q is not None and v[q] > best:
                best, bk = v[q], q
        up.append(bk)
    maxima = [k for k in range(len(v)) if up[k] == k]
    rank = {k: n + 1 for n, k in enumerate(maxima)}
    lab = np.zeros(len(v), np.int32)
    for k in range(len(v)):
        q = k
        while up[q] != q:
            q = up[q]
        lab[k] = rank[q]
    return lab, len(maxima)


def make_frame(shape, border, perm):
    """shape (d0,d1); interior gets values 10*(perm+1); border pattern 'low' or 'mixed'."""
    d0, d1 = shape
    im = np.zeros(shape, np.float32)
    bpos = [(i, j) for i in range(d0) for j in range(d1) if i in (0, d0 - 1) or j in (0, d1 - 1)]
    n_int = (d0 - 2) * (d1 - 2)
    for k, (i, j) in enumerate(bpos):
        if border == "low":
            im[i, j] = -1.0 - k
        else:  # mixed: every other border pixel sits between two interior levels (distinct everywhere)
            # the high border pixels run through all the interior levels in turn (so that ascents do end on the border, on
            # every side of the frame)
            im[i, j] = (-1.0 - k) if k % 2 == 0 else 10.0 * (1 + ((k + 1) // 2) % (n_int + 1)) + 5.0 + 0.01 * k
    im[1:-1, 1:-1] = (10.0 * (np.asarray(perm, np.float32) + 1)).reshape(d0 - 2, d1 - 2)
    return im


# ------------------------------------------------------------------------------------------ plan
def plan(tier, seed):
    shards = []
    # (a) dense sequential: (shape, border) x all interior orders, split by the first element(s)
    if tier == "quick":
        dense = [((3, 3), "low"), ((3, 3), "mixed"), ((4, 5), "low"), ((4, 5), "mixed"), ((5, 4), "low"),
                 ((3, 8), "low"), ((3, 8), "mixed"), ((5, 5), "low")]
        sparse_max = 6
        sched = [((4, 5), "low", T, b, 1) for (T, b) in ((2, 1), (3, 1), (4, 1), (2, 2))]
        sched += [((4, 5), "low", 3, 2, 4), ((4, 5), "mixed", 3, 1, 1), ((4, 5), "mixed", 2, 2, 1)]
        nthreads = [1, 2, 3, 4, 8]
    else:
        dense = [((3, 3), "low"), ((3, 3), "mixed"), ((4, 5), "low"), ((4, 5), "mixed"), ((5, 4), "low"), ((5, 4), "mixed"),
                 ((3, 8), "low"), ((3, 8), "mixed"), ((8, 3), "low"), ((5, 5), "low"), ((5, 5), "mixed"),
                 ((3, 10), "low"), ((4, 6), "low")]
        sparse_max = 9
        sched = [((4, 5), bd, T, b, 1) for bd in ("low", "mixed") for (T, b) in ((2, 1), (3, 1), (4, 1), (2, 2), (3, 2), (2, 3), (4, 2))]
        sched += [((5, 4), "low", T, b, 1) for (T, b) in ((2, 2), (3, 2), (4, 1))]
        sched += [((5, 5), "low7", T, b, 1) for (T, b) in ((2, 2), (3, 1), (4, 1))] + [((5, 5), "low7", 3, 2, 8)]
        nthreads = [1, 2, 3, 4, 8, 16, 32, 64]
    for shp, bd in dense:
        n = (shp[0] - 2) * (shp[1] - 2)
        if n <= 6:
            shards.append(("dense", shp, bd, None, [1]))
            shards.append(("threads", shp, bd, None, nthreads))
        else:
            for first in itertools.permutations(range(n), 2 if n >= 9 else 1):
                shards.append(("dense", shp, bd, first, [1]))
            for first in itertools.permutations(range(n), 1):
                shards.append(("threads", shp, bd, first, nthreads))
    for k in range(1, sparse_max + 1):
        subsets = list(itertools.combinations(range(9), k))
        step = max(1, len(subsets) // (16 if k >= 7 else 4))
        for s in range(0, len(subsets), step):
            shards.append(("sparse", k, s, min(len(subsets), s + step)))
    for c in range(4):
        shards.append(("scan", c, 4, tier))
    shards.append(("serpentine", tier, nthreads))
    shards.append(("callers", tier))
    for shp, bd, T, b, stride in sched:
        if bd == "low7":
            perms = 5040
            nsh = 32
        else:
            perms = 720
            nsh = 8 if b <= 1 else 16
        for c in range(nsh):
            shards.append(("sched", shp, bd, T, b, c, nsh, stride))
    for T, mx in ((2, 3), (2, 5), (3, 4)) if tier == "quick" else ((2, 3), (2, 5), (3, 4), (3, 7), (4, 5)):
        for c in range(8):
            shards.append(("sched_team", (4, 5), "low", T, 1, c, 8, 2 if tier == "quick" else 1, mx))
    k = seed % len(shards)
    return shards[k:] + shards[:k]


# ------------------------------------------------------------------------------------------ (a)
POIS = ((-7, 77), (1234567, 5))


def _dense_case(sh, cI, im, nthreads, case):
    want, n_want, longest = dense_oracle(im)
    wantc = O.canon_labels(want)
    im_in = im.copy()
    for nt in nthreads:
        cI.cimaged11_omp_set_num_threads(nt)
        outs = []
        for pl, pw in POIS:
            lab = np.full(im.shape, pl, np.int32)
            wrk = np.full(im.shape, pw, np.int8)
            n = cI.localmaxlabel(im, lab, wrk)
            outs.append((n, lab))
        if not np.array_equal(im, im_in):
            sh.violation("localmaxlabel:image-modified", dict(case, nthreads=nt), {})
            im[...] = im_in
        if outs[0][0] != outs[1][0] or not np.array_equal(outs[0][1], outs[1][1]):
            sh.violation("localmaxlabel:poison-dependent", dict(case, nthreads=nt), {"a": outs[0][1], "b": outs[1][1]})
            break
        n, lab = outs[0]
        if n != n_want:
            sh.violation("localmaxlabel:count", dict(case, nthreads=nt), {"returned": n, "expected": n_want, "labels": lab})
            break
        b = np.ones(im.shape, bool)
        b[1:-1, 1:-1] = False
        if (lab[b] != 0).any():
            sh.violation("localmaxlabel:border-not-background", dict(case, nthreads=nt), {"labels": lab})
            break
        if not np.array_equal(O.canon_labels(lab), wantc) or not np.array_equal(lab == 0, want == 0):
            sh.violation("localmaxlabel:partition", dict(case, nthreads=nt), {"labels": lab, "expected": want})
            break
        if n_want and (lab.max() != n_want or len(np.unique(lab[lab > 0])) != n_want):
            sh.violation("localmaxlabel:labels-not-1..n", dict(case, nthreads=nt), {"labels": lab})
            break
        if nt == nthreads[0]:
            # the same image after a constant was subtracted (background-subtracted data: every pixel NEGATIVE); the levels used here are
            # small integers and halves, so the subtraction is exact and the order of the pixels - hence the labelling - is the same
            shift = np.float32(np.ceil(float(im.max())) + 16.0)
            im_neg = (im - shift).astype(np.float32)
            if np.array_equal((im_neg + shift).astype(np.float32), im):
                lab2 = np.full(im.shape, POIS[0][0], np.int32)
                n2 = cI.localmaxlabel(im_neg, lab2, np.full(im.shape, POIS[0][1], np.int8))
                if n2 != n or not np.array_equal(lab2, lab):
                    sh.violation("localmaxlabel:labelling-changes-when-a-constant-is-subtracted-from-the-image", dict(case, nthreads=nt, subtracted=float(shift)),
                                 {"labels": lab2, "expected": lab})
                    break
    cI.cimaged11_omp_set_num_threads(1)
    sh.evaluations += 1
    if n_want >= 2 or longest >= 2:
        sh.nontrivial += 1
    sh.outcomes.add((n_want, longest))
    return want, n_want


def _run_dense(desc):
    _, shp, bd, first, nthreads = desc
    from ImageD11 import cImageD11 as cI
    sh = Shard()
    n = (shp[0] - 2) * (shp[1] - 2)
    if first is None:
        perms = itertools.permutations(range(n))
    else:
        rest = [x for x in range(n) if x not in first]
        perms = (tuple(first) + p for p in itertools.permutations(rest))
    do_sparse = bd == "low" and desc[0] == "dense"
    threads_mode = desc[0] == "threads"
    for idx, perm in enumerate(perms):
        if threads_mode and idx % 53 != 0:
            continue
        im = make_frame(shp, bd, perm)
        case = {"kind": "dense", "shape": list(shp), "border": bd, "perm": list(perm)}
        want, n_want = _dense_case(sh, cI, im, nthreads, case)
        if idx == 0:
            sh.sample({"case": case, "image": im, "expected_labels": want})
        if do_sparse:
            # the same interior pixels as a sparse frame: same partition
            ii, jj = np.nonzero(np.ones((shp[0] - 2, shp[1] - 2), bool))
            v = im[1:-1, 1:-1].ravel().astype(np.float32)
            labs = []
            for pl, pw in POIS:
                lab = np.full(len(v), pl, np.int32)
                mv = np.full(len(v), float(pw), np.float32)
                imv = np.full(len(v), pl, np.int32)
                ns = cI.sparse_localmaxlabel(v, (ii + 1).astype(np.uint16), (jj + 1).astype(np.uint16), mv, imv, lab)
                labs.append((ns, lab))
            if labs[0][0] != labs[1][0] or not np.array_equal(labs[0][1], labs[1][1]):
                sh.violation("sparse_localmaxlabel:poison-dependent", case, {"a": labs[0][1], "b": labs[1][1]})
            elif labs[0][0] != n_want or not np.array_equal(O.canon_labels(labs[0][1]),
                                                             O.canon_labels(want[1:-1, 1:-1].ravel())):
                sh.violation("dense/sparse:partitions-differ", case, {"sparse": labs[0][1], "dense": want[1:-1, 1:-1]})
    return sh


def _sparse_case(sh, cI, cells, perm, collect=False, offset=0.0):
    ii = np.array([c // 3 for c in cells], np.uint16)
    jj = np.array([c % 3 for c in cells], np.uint16)
    v = (10.0 * (np.asarray(perm, np.float32) + 1) - offset).astype(np.float32)
    case = {"kind": "sparse", "cells": list(cells), "perm": list(perm), "offset": offset}
    want, n_want = sparse_oracle(ii, jj, v)
    labs = []
    for pl, pw in POIS:
        lab = np.full(len(v), pl, np.int32)
        mv = np.full(len(v), float(pw), np.float32)
        imv = np.full(len(v), pl, np.int32)
        ns = cI.sparse_localmaxlabel(v, ii, jj, mv, imv, lab)
        labs.append((ns, lab))
    if labs[0][0] != labs[1][0] or not np.array_equal(labs[0][1], labs[1][1]):
        sh.violation("sparse_localmaxlabel:poison-dependent", case, {"a": labs[0][1], "b": labs[1][1]})
    elif labs[0][0] != n_want:
        sh.violation("sparse_localmaxlabel:count", case, {"returned": labs[0][0], "expected": n_want, "labels": labs[0][1]})
    elif not np.array_equal(O.canon_labels(labs[0][1]), O.canon_labels(want)) or (labs[0][1] <= 0).any():
        sh.violation("sparse_localmaxlabel:partition", case, {"labels": labs[0][1], "expected": want})
    if len(cells) >= 3 and offset == 0.0 and not sh.violations:
        # the python wrapper on a frame OBJECT, asked again after the frame changed: the labelling is that of the pixels it holds now -
        # (a) a sub-frame cut out with mask() (the middle pixel of the list dropped), (b) the intensities reversed in place
        from ImageD11 import sparseframe as sf
        fr = sf.sparse_frame(ii.copy(), jj.copy(), (3, 3), itype=np.uint16, pixels={"intensity": v.copy()})
        n0 = sf.sparse_localmax(fr)
        keep = np.ones(len(v), bool); keep[len(v) // 2] = False
        sub = fr.mask(keep)
        ns_ = sf.sparse_localmax(sub)
        w_sub, n_sub = sparse_oracle(ii[keep], jj[keep], v[keep])
        if n0 != n_want or ns_ != n_sub or not np.array_equal(O.canon_labels(sub.pixels["localmax"]), O.canon_labels(w_sub)):
            sh.violation("sparse_localmax[history: label, mask(), label the sub-frame]:partition", case, {"n": int(ns_), "expected_n": int(n_sub)})
        else:
            fr.pixels["intensity"][:] = v[::-1]
            nr = sf.sparse_localmax(fr)
            w_r, n_r = sparse_oracle(ii, jj, v[::-1].copy())
            if nr != n_r or not np.array_equal(O.canon_labels(fr.pixels["localmax"]), O.canon_labels(w_r)):
                sh.violation("sparse_localmax[history: label, intensities changed in place, label]:partition", case, {"n": int(nr), "expected_n": int(n_r)})
            else:
                # a second channel on the same frame (a cleaned / smoothed copy stored next to the raw intensities) labelled under its
                # own names: the labels are those of the channel that was asked for
                fr2 = sf.sparse_frame(ii.copy(), jj.copy(), (3, 3), itype=np.uint16, pixels={"intensity": v[::-1].copy(), "clean": v.copy()})
                nc = sf.sparse_localmax(fr2, label_name="cleanmax", data_name="clean")
                if nc != n_want or not np.array_equal(O.canon_labels(fr2.pixels["cleanmax"]), O.canon_labels(want)):
                    sh.violation("sparse_localmax[data_name = a second channel]:labels-are-not-those-of-the-channel-asked-for", case, {"n": int(nc), "expected_n": int(n_want)})
    sh.evaluations += 1
    if n_want >= 2:
        sh.nontrivial += 1
    sh.outcomes.add(("sparse", n_want))
    return case


def _run_sparse(desc):
    _, k, s0, s1 = desc
    from ImageD11 import cImageD11 as cI
    sh = Shard()
    subsets = list(itertools.combinations(range(9), k))[s0:s1]
    for cells in subsets:
        for perm in itertools.permutations(range(k)):
            c = _sparse_case(sh, cI, cells, perm)
            if k <= 6:
                # background-subtracted data: values below and exactly at zero (all negative; straddling zero with one pixel at 0.0)
                _sparse_case(sh, cI, cells, perm, offset=10.0 * (k + 2))
                _sparse_case(sh, cI, cells, perm, offset=10.0 * ((k + 1) // 2))
        sh.sample(c, limit=1)
    return sh


def serpentine(shape, reverse=False, walls="low"):
    """an image whose single ridge winds through the whole interior (corridor rows joined at alternating ends): the ascent from the
    start of the ridge is much longer than dim0 + dim1; wall pixels all differ and lie below the ridge"""
    d0, d1 = shape
    im = np.zeros(shape, np.float32)
    k = 0
    for i in range(d0):
        for j in range(d1):
            k += 1
            im[i, j] = -1.0 - 0.001 * ((k * 7919) % (d0 * d1))          # distinct negative background
    path = []
    rows = list(range(1, d0 - 1, 2))
    for n_, i in enumerate(rows):
        cols = list(range(1, d1 - 1))
        if n_ % 2:
            cols = cols[::-1]
        path += [(i, j) for j in cols]
        if n_ + 1 < len(rows):
            path.append((i + 1, cols[-1]))
    if reverse:
        path = path[::-1]
    for v, (i, j) in enumerate(path):
        im[i, j] = 10.0 + v
    return im, len(path)


def _run_serpentine(desc):
    _, tier, nthreads = desc
    from ImageD11 import cImageD11 as cI
    sh = Shard()
    shapes = [(9, 8), (8, 9), (13, 11), (17, 16)] if tier == "quick" else [(9, 8), (8, 9), (13, 11), (17, 16), (16, 17), (33, 32), (65, 64)]
    for shp in shapes:
        for rev in (False, True):
            im, plen = serpentine(shp, rev)
            case = {"kind": "serpentine", "shape": list(shp), "reverse": rev, "ridge_length": plen}
            _dense_case(sh, cI, im, nthreads, case)
            sh.counters["max_ridge_length"] = max(sh.counters.get("max_ridge_length", 0), plen)
    sh.sample(case, limit=1)
    return sh


def _run_callers(desc):
    """sparse_localmaxlabel is declared threadsafe (GIL released): two calls on different frames as two logical threads on the
    schedule-exploring runtime, every interleaving at shared words within 2 preemptions; each call's labels are those it produces alone"""
    _, tier = desc
    from vt.vrt import callers_interfere
    from vt.sani import Call, A, I
    sh = Shard()
    V = _vrt()
    fr = []
    for cells, order in SCAN_FRAMES:
        if len(cells) == 0:
            continue
        ii = np.array([q // 4 for q in cells], np.uint16); jj = np.array([q % 4 for q in cells], np.uint16)
        fr.append((ii, jj, (10.0 * (np.array(order, np.float32) + 1)).astype(np.float32)))

    def spec(f):
        ii, jj, v = f
        n = len(ii)
        return Call("sparse_localmaxlabel", [A(v), A(ii), A(jj), I(n), A(np.full(n, -7.0, np.float32), "out"), A(np.full(n, -7, np.int32), "out"),
                                             A(np.full(n, -7, np.int32), "out")])
    pairs = [(a, b) for a in range(len(fr)) for b in range(len(fr)) if a != b]
    if tier == "quick":
        pairs = pairs[::4]
    for a, b in pairs:
        bad, r = callers_interfere(V, spec(fr[a]), spec(fr[b]))
        case = {"kind": "callers", "frames": [a, b]}
        for sched in (bad or [])[:1]:
            sh.violation("concurrent-callers:sparse_localmaxlabel-calls-interfere", dict(case, schedule=sched), {"conflict_words": r["filter_size"]})
        sh.states += r["nodes"]
        sh.transitions += r["nodes"] - 1 + r["executions"]
        sh.count("caller_pair_executions", r["total_executions"])
        sh.evaluations += 1
        sh.nontrivial += 1
    sh.sample(case, limit=1)
    return sh


SCAN_FRAMES = [  # (cells of a 4x4 grid, value order) : sparse patterns with gaps, long ascents, several maxima, a single pixel, empty
    ((0, 1, 2, 3, 7, 11, 15), (0, 1, 2, 3, 4, 5, 6)), ((0, 1, 2, 3, 7, 11, 15), (6, 5, 4, 3, 2, 1, 0)), ((0, 5, 10, 15), (3, 0, 2, 1)),
    ((0, 2, 8, 10), (0, 1, 2, 3)), ((5,), (0,)), ((), ()), (tuple(range(16)), tuple((k * 7) % 16 for k in range(16))),
    ((1, 2, 4, 7, 8, 11, 13, 14), (7, 0, 6, 1, 5, 2, 4, 3)), ((0, 1, 4, 5, 10, 11, 14, 15), (0, 3, 2, 1, 7, 4, 5, 6)),
    ((3, 6, 9, 12), (0, 3, 1, 2))]


def _run_scan(desc):
    """SparseScan.lmlabel (the per-scan driver of the sparse labelling, work buffers shared by all frames of the scan) and the
    sparse_localmax wrapper: every ordered triple of the ten catalogue frames (quick: a quarter) stored as an HDF5 scan; each frame's
    labels are the steepest-ascent partition of THAT frame (of the smoothed signal when smoothing is on), numbered after the previous
    frames' labels when countall is set"""
    _, c, nch, tier = desc
    import h5py, shutil
    from ImageD11 import sparseframe as sf
    sh = Shard()
    wd = os.path.join(os.path.dirname(os.path.dirname(os.path.dirname(os.path.abspath(__file__)))), ".work", "c13_scan_%d" % os.getpid())
    os.makedirs(wd, exist_ok=True)
    fr = []
    for cells, order in SCAN_FRAMES:
        ii = np.array([q // 4 for q in cells], np.uint16); jj = np.array([q % 4 for q in cells], np.uint16)
        fr.append((ii, jj, (10.0 * (np.array(order, np.float32) + 1)).astype(np.float32)))
    try:
        idx = 0
        for trip in itertools.product(range(len(fr)), repeat=3):
            idx += 1
            if idx % nch != c or (tier == "quick" and (idx // nch) % 4 != 1):
                continue
            if all(len(fr[t][0]) == 0 for t in trip):
                continue
            fn = os.path.join(wd, "s.h5")
            with h5py.File(fn, "w") as h:
                g = h.create_group("1.1")
                g.attrs["nframes"] = 3; g.attrs["shape0"] = 4; g.attrs["shape1"] = 4
                g["row"] = np.concatenate([fr[t][0] for t in trip]).astype(np.uint16)
                g["col"] = np.concatenate([fr[t][1] for t in trip]).astype(np.uint16)
                g["intensity"] = np.concatenate([fr[t][2] for t in trip]).astype(np.float32)
                g["nnz"] = np.array([len(fr[t][0]) for t in trip], np.int32)
            for smooth in (False, True):
                for countall in (True, False):
                    ss = sf.SparseScan(fn, "1.1")
                    ss.lmlabel(threshold=0, countall=countall, smooth=smooth)
                    case = {"kind": "scan", "frames": list(trip), "smooth": smooth, "countall": countall}
                    off = 0
                    for k_, t in enumerate(trip):
                        a, b = ss.ipt[k_], ss.ipt[k_ + 1]
                        ii, jj = fr[t][0], fr[t][1]
                        sig = np.asarray(ss.signal[a:b], np.float32)
                        if smooth:
                            # equal-valued neighbours in the smoothed signal are outside the property's domain
                            pos = {(int(x), int(y)): q for q, (x, y) in enumerate(zip(ii, jj))}
                            tie = any(pos.get((int(x) + dx, int(y) + dy)) is not None and sig[pos[(int(x) + dx, int(y) + dy)]] == sig[q]
                                      for q, (x, y) in enumerate(zip(ii, jj)) for dx, dy in NB8)
                            if tie:
                                sh.borderline += 1
                                off += int(ss.nlabels[k_]) if countall else 0
                                continue
                        want, n_want = sparse_oracle(ii, jj, sig)
                        lab = np.asarray(ss.labels[a:b])
                        if int(ss.nlabels[k_]) != n_want:
                            sh.violation("SparseScan.lmlabel:count", dict(case, frame=k_), {"nlabels": int(ss.nlabels[k_]), "expected": n_want}); break
                        if len(lab) and (not np.array_equal(O.canon_labels(lab), O.canon_labels(want)) or lab.min() != off + 1 or lab.max() != off + n_want):
                            sh.violation("SparseScan.lmlabel:partition-or-label-range", dict(case, frame=k_), {"labels": lab, "expected": want, "offset": off}); break
                        if countall:
                            off += n_want
                    else:
                        if int(ss.total_labels) != int(np.sum(ss.nlabels)):
                            sh.violation("SparseScan.lmlabel:total", case, {})
                    sh.evaluations += 1
                    sh.nontrivial += 1
            # the frame-level wrapper: each frame right after labelling, and every frame AGAIN after the whole series was labelled
            kept = []
            for t in trip:
                ii, jj, v = fr[t]
                if len(ii) == 0:
                    continue
                f = sf.sparse_frame(ii.copy(), jj.copy(), (4, 4), pixels={"intensity": v.copy()})
                nl = sf.sparse_localmax(f)
                want, n_want = sparse_oracle(ii, jj, v)
                kept.append((f, want))
                if nl != n_want or not np.array_equal(O.canon_labels(f.pixels["localmax"]), O.canon_labels(want)):
                    sh.violation("sparse_localmax:wrapper", {"kind": "scan", "frames": list(trip), "smooth": False, "countall": False}, {"labels": f.pixels["localmax"]})
            for f, want in kept:
                if not np.array_equal(O.canon_labels(f.pixels["localmax"]), O.canon_labels(want)):
                    sh.violation("sparse_localmax:labels-of-an-earlier-frame-changed-when-later-frames-were-labelled",
                                 {"kind": "scan", "frames": list(trip), "smooth": False, "countall": False}, {"labels": f.pixels["localmax"], "expected": want})
                    break
        sh.sample(case, limit=1)
        sh.outcomes.add("scan")
    finally:
        shutil.rmtree(wd, ignore_errors=True)
    return sh


# ------------------------------------------------------------------------------------------ (b)
def _same_partition(lab, want):
    return np.array_equal(lab == 0, want == 0) and np.array_equal(O.canon_labels(lab), O.canon_labels(want))


_V = None


def _vrt():
    global _V
    if _V is None:
        from vt.vrt import VRT
        _V = VRT()
    return _V


def explore_image(im, T, bound, poison, max_exec=3_000_000, early_stop=None):
    V = _vrt()
    lout = np.zeros(im.shape, np.int32)
    l = np.zeros(im.shape, np.uint8)
    imc = np.ascontiguousarray(im, np.float32)
    V.register(imc, lout, l)
    pl, pw = poison

    def prepare():
        lout[:] = pl
        l[:] = pw & 0xFF

    call = V.kernel("localmaxlabel", [imc, lout, l, im.shape[0], im.shape[1]])

    def observe(ret):
        return (int(ret), lout.tobytes())
    r = V.explore(prepare, call, observe, T, bound, max_exec=max_exec, early_stop=early_stop)
    return r, (prepare, call, observe, lout)


def _sched_perms(shp, bd):
    if bd == "low7":
        # 5x5 frame: 7 of the 9 interior pixels take all orders, the two remaining (corner 0 and corner 8) are low
        for p in itertools.permutations(range(7)):
            full = [-1] + list(p) + [-2]
            yield tuple(full)
    else:
        n = (shp[0] - 2) * (shp[1] - 2)
        for p in itertools.permutations(range(n)):
            yield p


def _frame_for(shp, bd, perm):
    if bd == "low7":
        im = make_frame(shp, "low", [0] * 9)
        vals = np.array([(-50.0 + x) if x < 0 else 10.0 * (x + 1) for x in perm], np.float32)
        im[1:-1, 1:-1] = vals.reshape(3, 3)
        return im
    return make_frame(shp, bd, perm)


def _run_sched(desc):
    if desc[0] == "sched_team":
        # the runtime grants a team smaller than the maximum it reports (OMP_THREAD_LIMIT, OMP_DYNAMIC): same exploration, same answer
        V = _vrt()
        V.L.vrt_report_max_threads(int(desc[-1]))
        try:
            sh = _run_sched(("sched",) + tuple(desc[1:-1]))
        finally:
            V.L.vrt_report_max_threads(0)
        for v in sh.violations:
            v["case"]["max_threads_reported"] = int(desc[-1])
            v["key"] = v["key"].replace("schedule-dependent", "schedule-dependent[team smaller than omp_get_max_threads]")
        return sh
    _, shp, bd, T, bound, c, nsh, stride = desc
    sh = Shard()
    V = _vrt()
    for idx, perm in enumerate(_sched_perms(shp, bd)):
        if idx % nsh != c or (idx // nsh) % stride != (seed_of() % stride):
            continue
        im = _frame_for(shp, bd, perm)
        want, n_want, longest = dense_oracle(im)
        for poison in POIS:
            case = {"kind": "sched", "shape": list(shp), "border": bd, "perm": list(perm), "T": T, "bound": bound,
                    "poison": list(poison)}
            def bad(obs, _w=want, _n=n_want, _shape=im.shape):
                if obs == ("DEADLOCK",):
                    return True
                return obs[0] != _n or not _same_partition(np.frombuffer(obs[1], np.int32).reshape(_shape), _w)
            r, (prepare, call, observe, lout) = explore_image(im, T, bound, poison, early_stop=bad)
            sh.evaluations += 1
            sh.states += r["nodes"]
            sh.transitions += r["nodes"] - 1 + r["executions"]
            sh.traces_validated += r["executions"]
            sh.count("executions", r["total_executions"])
            sh.count("pruned_by_region_state", r["pruned"])
            sh.count("conflict_events", r["conflict_events"])
            if r["capped"]:
                sh.capped = True
            if r["filter_size"] > 0 and r["conflict_events"] > 0:
                sh.nontrivial += 1
            sh.counters["max_points"] = max(sh.counters.get("max_points", 0), r["points_max"])
            sh.outcomes.add((T, len(r["outcomes"])))
            for (obs, sched) in r["outcomes"].items():
                if obs == ("DEADLOCK",):
                    sh.violation("localmaxlabel:deadlock:T=%d" % T, dict(case, schedule=sched), {})
                    continue
                n, buf = obs
                lab = np.frombuffer(buf, np.int32).reshape(im.shape)
                if n != n_want or not _same_partition(lab, want):
                    # determinism gate: the same schedule twice must give the same observation
                    prepare(); r1 = V.run(call, T, sched); o1 = observe(r1["ret"])
                    prepare(); r2 = V.run(call, T, sched); o2 = observe(r2["ret"])
                    if o1 != o2 or o1 != obs:
                        raise RuntimeError("non-deterministic replay of schedule %r" % (sched,))
                    sh.violation("localmaxlabel:schedule-dependent:T=%d" % T, dict(case, schedule=sched, image=im),
                                 {"labels": lab, "expected": want, "n": n, "preemptions_bound": bound,
                                  "distinct_outcomes": len(r["outcomes"])})
            if idx == c:
                sh.sample({"case": case, "executions": r["executions"], "scheduling_points_max": r["points_max"],
                           "conflict_words": r["filter_size"], "distinct_outcomes": len(r["outcomes"])}, limit=1)
    return sh


def seed_of():
    return int(os.environ.get("VERIF_SEED", "0") or 0)


def run_shard(desc):
    if desc[0] in ("dense", "threads"):
        return _run_dense(desc)
    if desc[0] == "sparse":
        return _run_sparse(desc)
    if desc[0] == "scan":
        return _run_scan(desc)
    if desc[0] == "serpentine":
        return _run_serpentine(desc)
    if desc[0] == "callers":
        return _run_callers(desc)
    return _run_sched(desc)


def finalize(merged, tier, seed):
    return {"preemption_bound_completed": "see plan(): T=2..4 bound 1; T=2,3 bound 2" + ("; T=2 bound 3; T=4 bound 2" if tier == "thorough" else ""),
            "schedule_executions": merged.counters.get("executions", 0)}


def replay(case):
    from ImageD11 import cImageD11 as cI
    sh = Shard()
    if case["kind"] == "dense":
        im = make_frame(tuple(case["shape"]), case["border"], case["perm"])
        _dense_case(sh, cI, im, [case.get("nthreads", 1)], case)
        return (not sh.violations), {"violations": sh.violations}
    if case["kind"] == "sparse":
        _sparse_case(sh, cI, case["cells"], case["perm"], offset=case.get("offset", 0.0))
        return (not sh.violations), {"violations": sh.violations}
    if case["kind"] == "serpentine":
        im, plen = serpentine(tuple(case["shape"]), case["reverse"])
        _dense_case(sh, cI, im, [case.get("nthreads", 1)], case)
        return (not sh.violations), {"violations": sh.violations}
    if case["kind"] == "callers":
        r = _run_callers(("callers", "thorough"))
        v = [x for x in r.violations if x["case"]["frames"] == case["frames"]]
        return (not v), {"violations": v[:2]}
    if case["kind"] == "scan":
        r = _run_scan(("scan", 0, 1, "thorough"))
        v = [x for x in r.violations if x["case"]["frames"] == case["frames"]]
        return (not v), {"violations": v[:3]}
    shp = tuple(case["shape"])
    im = _frame_for(shp, case["border"], case["perm"])
    want, n_want, _ = dense_oracle(im)
    V = _vrt()
    lout = np.zeros(im.shape, np.int32); l = np.zeros(im.shape, np.uint8)
    V.register(im, lout, l)
    # the conflict filter must be the fixpoint one: recompute it by a bound-0 exploration first
    V.L.vrt_report_max_threads(int(case.get("max_threads_reported", 0)))
    r, (prepare, call, observe, lout2) = explore_image(im, case["T"], case["bound"], tuple(case["poison"]))
    prepare()
    rr = V.run(call, case["T"], case["schedule"])
    V.L.vrt_report_max_threads(0)
    n, buf = observe(rr["ret"])
    lab = np.frombuffer(buf, np.int32).reshape(im.shape)
    ok = (n == n_want) and _same_partition(lab, want)
    return ok, {"labels": lab, "expected": want, "n": n, "status": rr["status"]}
