"""C04 - UBI, UB, U, B, metric tensor and cell parameters are mutually consistent.

Bounded exhaustive exploration: 12 cells (all systems, two triclinic) x 8 rotations (identity, 90
deg about each axis, 180 deg, three generic) x 5 strains -> 480 UBIs; for each one the algebraic
identities (U orthogonal det +1; B upper triangular positive diagonal; U.B = inv(UBI); mt =
UBI.UBI^T; rmt = inv(mt) = B^T.B; cell from mt; Rodrigues <-> U; build-then-decompose) are
evaluated on every implementation named in the property: grain.*, unitcell.B, indexing.ubito*,
tensor_map guvectorised functions, TensorMap properties, point_by_point helpers.
Vectorised versions: map shapes (n,), (2,3), (1,2,2) filled from that list and ALL 2^n NaN masks
(n <= 4 quick, <= 6 thorough): masked voxels NaN, others bit-identical to the unmasked map.
"""
from __future__ import annotations
import itertools, os
import numpy as np
from vt.runner import Shard
from vt import oracles as O

LEVEL = "exploration"
RULE = ("cases = (cell, rotation, strain) from the stated tables, all combinations, and (map shape, NaN mask) with all masks; "
        "non-trivial = oblique cell or non-identity rotation (for maps: mask neither empty nor full)")
ASSUMPTIONS = ["cells, rotations and strains from the stated finite tables; tolerances 1e-9 relative on matrix entries",
               "Rodrigues vector not checked for the 180 degree rotation (singular by definition)"]

CELLS = [[4.0, 4.0, 4.0, 90, 90, 90], [2.87, 2.87, 2.87, 90, 90, 90], [3.0, 3.0, 5.0, 90, 90, 120],
         [4.0, 4.0, 5.5, 90, 90, 90], [3.0, 4.0, 5.0, 90, 90, 90], [3.0, 4.0, 5.0, 90, 100, 90],
         [5.0, 5.0, 5.0, 60, 60, 60], [4.0, 4.0, 4.0, 100, 100, 100], [4.1, 5.2, 6.3, 80, 95, 105],
         [3.0, 4.0, 5.0, 70, 80, 110], [9.0, 5.0, 13.0, 90, 124, 90], [2.5, 2.5, 30.0, 90, 90, 120]]

STRAINS = [np.zeros((3, 3)), np.diag([1e-3, 1e-3, 1e-3]), np.diag([-1e-3, 2e-3, 0.0]),
           np.array([[0, 2e-3, 0], [2e-3, 0, 0], [0, 0, 0.0]]),
           np.array([[3e-3, 1e-3, -2e-3], [1e-3, -5e-3, 4e-3], [-2e-3, 4e-3, 2e-3]]),
           # a shear of a few 1e-6: cell angles 2e-4 .. 6e-4 degrees away from where they were (an angle of 90.0003 is not 90)
           np.array([[0, 3e-6, -5e-6], [3e-6, 0, 2e-6], [-5e-6, 2e-6, 0.0]])]


def rotations(seed, tier="quick"):
    R = [np.eye(3), O.rotation_from_axis_angle((1, 0, 0), 90), O.rotation_from_axis_angle((0, 1, 0), 90),
         O.rotation_from_axis_angle((0, 0, 1), 90), O.rotation_from_axis_angle((1, 1, 0), 180)]
    R = R + O.generic_rotations(seed)[:3]
    # a degree or so short of a half turn, about axes whose largest component is negative (where the Rodrigues vector is long and the
    # usual formula starts to cancel)
    R = R + [O.rotation_from_axis_angle((-3, 1, 2), 178.6), O.rotation_from_axis_angle((3, -1, -2), 178.6), O.rotation_from_axis_angle((1, -2, 0.5), 178.9),
             O.rotation_from_axis_angle((-1, 2, -0.5), 178.9)]
    if tier == "thorough":
        # every table of generic rotations, the 24 exact proper signed permutations, and rotations within 1e-3 .. 2 degrees of 180
        for tab in range(len(O.GENERIC_ROTATIONS)):
            R += O.generic_rotations(tab)
        for perm in itertools.permutations(range(3)):
            for signs in itertools.product((1.0, -1.0), repeat=3):
                P = np.zeros((3, 3))
                for r_ in range(3):
                    P[r_, perm[r_]] = signs[r_]
                if np.linalg.det(P) > 0:
                    R.append(P)
        for ax in ((1, 2, 3), (0, 0, 1), (1, -1, 0)):
            for d in (178.0, 179.5, 179.999, 0.001, 1e-6):
                R.append(O.rotation_from_axis_angle(ax, d))
    return R


STRAINS_T = [np.diag([1e-2, -2e-2, 5e-3]), np.array([[0, 1e-2, 0], [1e-2, 0, 0], [0, 0, 0.0]]), np.array([[1e-4, 2e-4, -3e-4], [2e-4, -1e-4, 1e-4], [-3e-4, 1e-4, 5e-5]]),
             np.array([[2e-2, 1e-2, -1e-2], [1e-2, -3e-2, 2e-2], [-1e-2, 2e-2, 1e-2]]), np.diag([1e-6, 0.0, -1e-6]), np.diag([5e-2, 5e-2, -5e-2])]


def strains(tier):
    return STRAINS + (STRAINS_T if tier == "thorough" else [])


def make_ubi(cell, U, eps):
    B = O.cell_to_B(cell)
    F = np.eye(3) + eps
    UB = np.dot(U, np.dot(np.linalg.inv(F).T, B))     # reciprocal vectors of the strained lattice
    return np.linalg.inv(UB)


def seed_of():
    return int(os.environ.get("VERIF_SEED", "0") or 0)


def plan(tier, seed):
    shards = [("ubi", ci, tier) for ci in range(len(CELLS))]
    nmax = 4 if tier == "quick" else 6
    for n in range(1, nmax + 1):
        shards.append(("mask", n))
    shards.append(("shapes",))
    shards += [("grainhist", c) for c in range(4)]
    shards += [("combine", ci) for ci in range(0, len(CELLS), 2 if tier == "quick" else 1)]
    shards += [("threads_map", c_) for c_ in range(2)]
    shards += [("threads", c) for c in range(2)]
    k = seed % len(shards)
    return shards[k:] + shards[:k]


def close(a, b, tol=1e-9):
    a = np.asarray(a, float); b = np.asarray(b, float)
    if a.shape != b.shape:
        return False
    return bool(np.abs(a - b).max() <= tol * max(1.0, np.abs(b).max()))


def rod_to_rot(r):
    r = np.asarray(r, float)
    rr = np.dot(r, r)
    K = np.array([[0, -r[2], r[1]], [r[2], 0, -r[0]], [-r[1], r[0], 0]])
    return ((1 - rr) * np.eye(3) + 2 * np.outer(r, r) + 2 * K) / (1 + rr)


def check_ubi(sh, mods, ubi, cell, U0, eps, case):
    grain_m, ucm, indexing, tm, pbp = mods
    g = grain_m.grain(ubi)
    mt = np.dot(ubi, ubi.T)
    rmt = np.linalg.inv(mt)
    ucell = O.metric_to_cell(mt)
    UB = np.linalg.inv(ubi)

    def bad(what, detail=None):
        sh.violation(what, case, detail or {})
        return False
    if not close(g.mt, mt, 1e-12): return bad("grain.mt")
    if not close(g.rmt, rmt): return bad("grain.rmt")
    if not close(g.unitcell, ucell, 1e-10): return bad("grain.unitcell", {"got": g.unitcell, "expected": ucell})
    if not close(g.UB, UB): return bad("grain.UB")
    B, U = g.B, g.U
    Bo = O.cell_to_B(ucell)
    if not close(B, Bo): return bad("grain.B:differs-from-Busing-Levy", {"got": B, "expected": Bo})
    if abs(B[1, 0]) + abs(B[2, 0]) + abs(B[2, 1]) > 1e-12 or (np.diag(B) <= 0).any(): return bad("grain.B:not-upper-triangular-positive")
    if not close(np.dot(B.T, B), rmt): return bad("grain.B:BtB-not-reciprocal-metric")
    if not close(np.dot(U.T, U), np.eye(3)): return bad("grain.U:not-orthogonal")
    if abs(np.linalg.det(U) - 1) > 1e-9: return bad("grain.U:det-not-plus-one", {"det": float(np.linalg.det(U))})
    if not close(np.dot(U, B), UB): return bad("grain:U.B-not-inverse-of-UBI")
    ang = np.degrees(np.arccos(np.clip((np.trace(U) - 1) / 2, -1, 1)))
    if ang < 179.0:
        # xfab (GrainSpotter) convention: the Rodrigues vector describes U transposed; either convention is accepted
        RR = rod_to_rot(g.Rod)
        if not (close(RR, U, 1e-8) or close(RR, U.T, 1e-8)): return bad("grain.Rod:does-not-reproduce-U", {"rod": g.Rod})
        if not close(indexing.ubitoRod(ubi), g.Rod, 1e-8): return bad("indexing.ubitoRod", {"got": indexing.ubitoRod(ubi), "expected": g.Rod})
    if np.abs(eps).max() == 0:
        if not close(g.unitcell, cell, 1e-9): return bad("decompose:cell-not-recovered", {"got": g.unitcell, "expected": cell})
        if not close(U, U0, 1e-9): return bad("decompose:rotation-not-recovered", {"got": U, "expected": U0})
    # the same grain carrying a reference (strain-free) unit cell, as indexing.do_index and the dataset loaders attach: the reference
    # is what strain is measured against, it does not change what the grain reports about its own lattice
    for when in ("before", "after"):
        g2 = grain_m.grain(ubi.copy())
        if when == "after":
            g2.B, g2.U
        g2.ref_unitcell = ucm.unitcell(cell, "P")
        for nm in ("unitcell", "B", "U", "UB", "mt", "rmt") + (("Rod",) if ang < 179.0 else ()):
            if not close(getattr(g2, nm), getattr(g, nm), 1e-12):
                return bad("grain.%s:changes-when-a-reference-unit-cell-is-attached" % nm, {"got": getattr(g2, nm), "expected": getattr(g, nm), "attached": when + " first read"})
    # the matrix in other memory layouts and container types (Fortran order, a view of a larger array, a nested list): same grain
    big = np.zeros((3, 6)); big[:, ::2] = ubi
    for lname, arr in (("fortran-ordered", np.asfortranarray(ubi)), ("strided view", big[:, ::2]), ("nested list", ubi.tolist())):
        g3 = grain_m.grain(arr)
        for nm in ("ubi", "unitcell", "B", "U", "UB", "mt", "rmt"):
            if not close(getattr(g3, nm), getattr(g, nm), 1e-12):
                return bad("grain.%s:depends-on-the-memory-layout-of-the-matrix-given" % nm, {"layout": lname})
        for fn_name, fn in (("ubitocellpars", indexing.ubitocellpars), ("ubitoU", indexing.ubitoU), ("ubitoB", indexing.ubitoB)):
            if not isinstance(arr, list) and not close(fn(arr), fn(ubi), 1e-12):
                return bad("indexing.%s:depends-on-the-memory-layout" % fn_name, {"layout": lname})
    # unitcell class
    uc = ucm.unitcell(ucell)
    if not close(uc.B, Bo): return bad("unitcell.B", {"got": uc.B, "expected": Bo})
    if not close(uc.g, mt, 1e-9): return bad("unitcell.g")
    if not close(uc.gi, rmt, 1e-9): return bad("unitcell.gi")
    # indexing helpers
    if not close(indexing.ubitocellpars(ubi), ucell, 1e-10): return bad("indexing.ubitocellpars")
    if not close(indexing.ubitoU(ubi), U, 1e-8): return bad("indexing.ubitoU", {"got": indexing.ubitoU(ubi), "expected": U})
    Bi = indexing.ubitoB(ubi)
    if not close(Bi, Bo, 1e-8): return bad("indexing.ubitoB:differs-from-Busing-Levy-B", {"got": Bi, "expected": Bo, "cell": ucell})
    # tensor map guvectorised functions on a single matrix
    if not close(tm.ubi_to_mt(ubi), mt, 1e-12): return bad("tensor_map.ubi_to_mt")
    if not close(tm.fast_invert(ubi), UB): return bad("tensor_map.fast_invert")
    tc = tm.mt_to_unitcell(mt, np.arange(6))
    if not close(tc, ucell, 1e-10): return bad("tensor_map.mt_to_unitcell", {"got": tc})
    tb = tm.unitcell_to_b(ucell, np.eye(3))
    if not close(tb, Bo): return bad("tensor_map.unitcell_to_b", {"got": tb, "expected": Bo})
    tu = tm.ubi_and_b_to_u(ubi, tb)
    if not close(tu, U): return bad("tensor_map.ubi_and_b_to_u", {"got": tu, "expected": U})
    mt_in, ubi_in = mt.copy(), ubi.copy()
    tm.mt_to_unitcell(mt_in, np.arange(6)); tm.ubi_to_mt(ubi_in); tm.fast_invert(ubi_in); tm.ubi_and_b_to_u(ubi_in, tb)
    if not (np.array_equal(mt_in, mt) and np.array_equal(ubi_in, ubi) and np.array_equal(mt, np.dot(ubi, ubi.T))):
        return bad("tensor_map:kernel-overwrites-its-input", {"mt_changed": not np.array_equal(mt_in, mt)})
    # the same kernels writing into a caller-supplied output array that holds old content (NaN, then 7.5): every element is defined by
    # the kernel, nothing of the old content survives
    for fill in (np.nan, 7.5):
        for nm, fn, args, shp, want_, tol_ in (("ubi_to_mt", tm.ubi_to_mt, (ubi,), (3, 3), mt, 1e-12), ("fast_invert", tm.fast_invert, (ubi,), (3, 3), UB, 1e-9),
                                               ("mt_to_unitcell", tm.mt_to_unitcell, (mt, np.arange(6)), (6,), ucell, 1e-10),
                                               ("unitcell_to_b", tm.unitcell_to_b, (ucell, np.eye(3)), (3, 3), Bo, 1e-9),
                                               ("ubi_and_b_to_u", tm.ubi_and_b_to_u, (ubi, tb), (3, 3), U, 1e-9)):
            out_ = np.full(shp, fill)
            fn(*args, out_)
            if not close(out_, want_, tol_):
                return bad("tensor_map.%s:output-array-keeps-old-content" % nm, {"got": out_, "expected": want_, "old_content": repr(fill)})
    # point by point
    if not close(pbp.ubi_to_unitcell(ubi), ucell, 1e-10): return bad("point_by_point.ubi_to_unitcell")
    pu = pbp.ubi_and_ucell_to_u(ubi, ucell)
    if not close(pu, U): return bad("point_by_point.ubi_and_ucell_to_u", {"got": pu, "expected": U})
    return True


def _mods():
    from ImageD11 import grain as grain_m, unitcell as ucm, indexing
    from ImageD11.sinograms import tensor_map as tm, point_by_point as pbp
    indexing.loglevel = 3
    return grain_m, ucm, indexing, tm, pbp


def _run_ubi(desc):
    _, ci, tier = desc
    mods = _mods()
    sh = Shard()
    cell = CELLS[ci]
    oblique = any(abs(x - 90) > 1e-9 for x in cell[3:])
    for ri, U in enumerate(rotations(seed_of(), tier)):
        for si, eps in enumerate(strains(tier)):
            ubi = make_ubi(cell, U, eps)
            case = {"kind": "ubi", "cell": cell, "rotation": ri, "strain": si, "seed": seed_of(), "ubi": ubi, "tier": tier}
            check_ubi(sh, mods, ubi, cell, U, eps, case)
            sh.evaluations += 1
            if oblique or ri > 0:
                sh.nontrivial += 1
            sh.outcomes.add((ci, ri > 0, si > 0))
    sh.sample({"cell": cell, "rotation": ri, "strain": si, "ubi": ubi}, limit=1)
    return sh


def all_ubis(seed):
    out = []
    for cell in CELLS:
        for U in rotations(seed):
            for eps in STRAINS:
                out.append(make_ubi(cell, U, eps))
    return out


def check_map(sh, tm, ubis, shape, mask, case):
    """ubis: array (*shape,3,3); mask: bool array shape (True = NaN voxel)."""
    um = ubis.copy()
    um[mask] = np.nan
    dummy6, dummy33 = np.arange(6), np.eye(3)
    full = {}
    masked = {}
    for name, arr, store in (("full", ubis, full), ("masked", um, masked)):
        store["UB"] = tm.fast_invert(arr)
        store["mt"] = tm.ubi_to_mt(arr)
        store["unitcell"] = tm.mt_to_unitcell(store["mt"], dummy6)
        store["B"] = tm.unitcell_to_b(store["unitcell"], dummy33)
        store["U"] = tm.ubi_and_b_to_u(arr, store["B"])
    # the kernels read their inputs and write their output: the metric-tensor map handed to mt_to_unitcell (etc.) is still the metric tensor
    for name, arr, store in (("full", ubis, full), ("masked", um, masked)):
        again = tm.ubi_to_mt(arr)
        if not np.array_equal(np.isnan(again), np.isnan(store["mt"])) or not np.array_equal(again[~np.isnan(again)], store["mt"][~np.isnan(again)]):
            sh.violation("tensor_map.mt_to_unitcell:overwrites-the-map-it-was-given", case, {"map": name})
            return False
    if not np.array_equal(um[~mask], ubis[~mask]):
        sh.violation("tensor_map:kernel-overwrites-its-UBI-input", case, {})
        return False
    # TensorMap properties on the masked map (maps need 3 leading axes); mt is read again AFTER the maps derived from it
    if len(shape) == 3:
        T = tm.TensorMap(maps={"UBI": um.copy()})
        tprops = {"UB": T.UB, "mt": T.mt, "unitcell": T.unitcell, "B": T.B, "U": T.U}
        mt_again = T.mt
        if not np.array_equal(np.isnan(mt_again), np.isnan(masked["mt"])) or not np.array_equal(mt_again[~mask], masked["mt"][~mask]):
            sh.violation("TensorMap.mt:changes-after-unitcell-B-U-were-read", case, {})
            return False
    else:
        tprops = {}
    for k in full:
        f, m = full[k], masked[k]
        if not np.isnan(m[mask]).all():
            sh.violation("tensor_map.%s:masked-voxel-not-NaN" % k, case, {})
            return False
        if not np.array_equal(m[~mask], f[~mask]):
            sh.violation("tensor_map.%s:neighbour-of-NaN-voxel-disturbed" % k, case,
                         {"max_diff": float(np.nanmax(np.abs(m[~mask] - f[~mask]))) if (~mask).any() else 0.0})
            return False
        if np.isnan(f).any():
            sh.violation("tensor_map.%s:NaN-in-unmasked-map" % k, case, {})
            return False
        if k in tprops:
            t = tprops[k]
            if t.shape != m.shape or not np.array_equal(np.isnan(t), np.isnan(m)) or not np.array_equal(t[~mask], m[~mask]):
                sh.violation("TensorMap.%s:differs-from-function" % k, case, {})
                return False
    # the same UBI map in other memory layouts: Fortran order, and a view of nine component images ubi_ij[voxels] (the last two axes
    # strided): the kernels are handed views of the voxel blocks and must honour their strides
    comp = np.ascontiguousarray(np.moveaxis(um, [-2, -1], [0, 1]))
    for lname, arr in (("fortran-ordered", np.asfortranarray(um)), ("view of nine component images", np.moveaxis(comp, [0, 1], [-2, -1]))):
        try:
            alt = {"UB": tm.fast_invert(arr), "mt": tm.ubi_to_mt(arr)}
            alt["unitcell"] = tm.mt_to_unitcell(alt["mt"], dummy6)
            alt["B"] = tm.unitcell_to_b(alt["unitcell"], dummy33)
            alt["U"] = tm.ubi_and_b_to_u(arr, alt["B"])
            if len(shape) == 3:
                T3 = tm.TensorMap(maps={"UBI": arr})
                alt.update({"TensorMap." + k: np.asarray(getattr(T3, k)) for k in ("UB", "mt", "unitcell", "B", "U")})
        except Exception as e:
            sh.violation("tensor_map:raises-for-a-UBI-map-in-another-memory-layout", dict(case, layout=lname), {"error": repr(e)[:200]})
            return False
        for k, a_ in alt.items():
            w_ = masked[k.split(".")[-1]]
            if a_.shape != w_.shape or not np.array_equal(np.isnan(a_), np.isnan(w_)) or not np.allclose(a_[~np.isnan(a_)], w_[~np.isnan(w_)], rtol=0, atol=1e-12 * max(1.0, np.nanmax(np.abs(w_)) if (~np.isnan(w_)).any() else 1.0)):
                sh.violation("tensor_map.%s:depends-on-the-memory-layout-of-the-UBI-map" % k, dict(case, layout=lname), {})
                return False
    if len(shape) == 3:
        # history on ONE map object: the derived maps are read, the UBI map is replaced through each of the three public routes (the voxels
        # in another order, another NaN mask), the derived maps are read again: they are those of the new UBI map
        new = um[..., ::-1, :, :].copy() if um.shape[-3] > 1 else um * 1.01
        want = {"UB": tm.fast_invert(new), "mt": tm.ubi_to_mt(new)}
        want["unitcell"] = tm.mt_to_unitcell(want["mt"], dummy6)
        want["B"] = tm.unitcell_to_b(want["unitcell"], dummy33)
        want["U"] = tm.ubi_and_b_to_u(new, want["B"])
        for route in ("attribute", "item", "add_map"):
            T2 = tm.TensorMap(maps={"UBI": um.copy()})
            for k in ("UB", "mt", "unitcell", "B", "U"):
                getattr(T2, k)
            if route == "attribute":
                T2.UBI = new.copy()
            elif route == "item":
                T2["UBI"] = new.copy()
            else:
                T2.add_map("UBI", new.copy())
            for k in ("UB", "mt", "unitcell", "B", "U"):
                t = getattr(T2, k)
                if t.shape != want[k].shape or not np.array_equal(np.isnan(t), np.isnan(want[k])) or not np.array_equal(t[~np.isnan(t)], want[k][~np.isnan(want[k])]):
                    sh.violation("TensorMap.%s:stale-after-the-UBI-map-was-replaced" % k, dict(case, route=route), {})
                    return False
    return True


def _run_mask(desc):
    _, n = desc
    from ImageD11 import grain as grain_m
    from ImageD11.sinograms import tensor_map as tm
    sh = Shard()
    ubl = all_ubis(seed_of())
    shapes = [(n,)]
    if n == 4:
        shapes += [(1, 2, 2), (2, 2)]
    if n == 6:
        shapes += [(2, 3), (1, 2, 3), (1, 3, 2)]
    if n in (1, 2, 3, 5):
        shapes += [(1, 1, n)]
    for shape in shapes:
        # fill from the list, three different fillings
        for start in (0, 7, 101):
            ubis = np.array([ubl[(start + 37 * k) % len(ubl)] for k in range(n)]).reshape(shape + (3, 3))
            # per-voxel values equal the per-grain ones
            mtf = tm.ubi_to_mt(ubis).reshape(n, 3, 3)
            for k in range(n):
                g = grain_m.grain(ubis.reshape(n, 3, 3)[k])
                if not close(mtf[k], g.mt, 1e-12):
                    sh.violation("tensor_map.ubi_to_mt:differs-from-grain", {"kind": "mask", "shape": list(shape), "start": start, "voxel": k}, {})
            for bits in range(1 << n):
                mask = np.array([(bits >> k) & 1 for k in range(n)], bool).reshape(shape)
                case = {"kind": "mask", "shape": list(shape), "start": start, "mask": bits, "seed": seed_of()}
                check_map(sh, tm, ubis, shape, mask, case)
                sh.evaluations += 1
                if 0 < bits < (1 << n) - 1:
                    sh.nontrivial += 1
        sh.sample(case, limit=1)
        sh.outcomes.add(shape)
    return sh


def _run_shapes(desc):
    """whole list as one map: vectorised results equal the per-grain ones voxel by voxel"""
    from ImageD11 import grain as grain_m
    from ImageD11.sinograms import tensor_map as tm
    sh = Shard()
    ubl = np.array(all_ubis(seed_of()))
    n = len(ubl)
    for shape in ((n,), (1, 1, n), (1, n // 8, 8), (2, n // 16, 8)):
        ub = ubl[:int(np.prod(shape))].reshape(shape + (3, 3))
        mt = tm.ubi_to_mt(ub); uc = tm.mt_to_unitcell(mt, np.arange(6)); B = tm.unitcell_to_b(uc, np.eye(3))
        U = tm.ubi_and_b_to_u(ub, B); UB = tm.fast_invert(ub)
        flat = ub.reshape(-1, 3, 3)
        for k in range(len(flat)):
            g = grain_m.grain(flat[k])
            case = {"kind": "shapes", "shape": list(shape), "voxel": k, "seed": seed_of()}
            for name, arr, ref, tol in (("mt", mt, g.mt, 1e-12), ("unitcell", uc, g.unitcell, 1e-10), ("B", B, g.B, 1e-9),
                                        ("U", U, g.U, 1e-9), ("UB", UB, g.UB, 1e-9)):
                v = arr.reshape((-1,) + arr.shape[len(shape):])[k]
                if not close(v, ref, tol):
                    sh.violation("tensor_map.%s:differs-from-grain" % name, case, {"got": v, "expected": ref})
            sh.evaluations += 1
            sh.nontrivial += 1
    sh.sample({"shapes": "(n,), (1,1,n), (1,n/8,8), (2,n/16,8)", "n": n})
    return sh


def warm():
    """compile every numba function this check calls once (serially) into the base cache"""
    sh = Shard()
    ubi = make_ubi(CELLS[8], rotations(0)[5], STRAINS[4])
    check_ubi(sh, _mods(), ubi, CELLS[8], rotations(0)[5], STRAINS[4], {})
    from ImageD11.sinograms import tensor_map as tm
    check_map(sh, tm, np.array([ubi, ubi]).reshape(1, 1, 2, 3, 3), (1, 1, 2), np.array([[[True, False]]]), {})


PROPS = ("UB", "B", "U", "Rod", "mt", "rmt", "unitcell")


def _run_grainhist(desc):
    """histories on ONE grain object: read some cached properties, set_ubi(another matrix), read everything again; the
    second reading must equal that of a fresh grain (stale cached values must not survive set_ubi)"""
    _, c = desc
    from ImageD11 import grain as gm
    sh = Shard()
    R = rotations(seed_of())
    table = [make_ubi(CELLS[ci], R[ri], STRAINS[si]) for ci, ri, si in ((0, 5, 0), (0, 5, 4), (2, 6, 0), (2, 6, 2), (8, 7, 0), (8, 7, 4), (5, 1, 3), (9, 5, 1))]
    reads = [()] + [(p,) for p in PROPS] + [PROPS]
    idx = 0
    for a, ua in enumerate(table):
        for b, ub_ in enumerate(table):
            for first in reads:
                idx += 1
                if idx % 4 != c:
                    continue
                if not first:
                    # whatever the grain hands out on the FIRST read after construction can be scribbled on by the caller
                    fresh0 = gm.grain(ua.copy())
                    for pfirst in PROPS:
                        g0 = gm.grain(ua.copy())
                        v = getattr(g0, pfirst)                 # the very first read of this grain
                        if isinstance(v, np.ndarray):
                            v[...] = 7.25
                        v = getattr(g0, pfirst)                 # and the second one
                        if isinstance(v, np.ndarray):
                            v[...] = -3.5
                        def differs(p):
                            try:
                                return not close(getattr(g0, p), getattr(fresh0, p), 1e-12)
                            except Exception:          # e.g. xfab refusing a U built from a cell the caller edited
                                return True
                        bad_p = [p for p in PROPS if differs(p)]
                        if bad_p:
                            sh.violation("grain.%s:changes-when-the-caller-writes-into-a-returned-array" % bad_p[0],
                                         {"kind": "grainhist", "first_ubi": a, "second_ubi": b, "read_before_set_ubi": ["scribble on " + pfirst], "seed": seed_of()}, {})
                            break
                work = ua.copy()                   # the caller's array: overwritten after the grain was built / updated from it
                g = gm.grain(work)
                for p in first:
                    getattr(g, p)
                work[:] = ub_
                g.set_ubi(work)
                work *= 1.5
                fresh = gm.grain(ub_.copy())
                if not np.array_equal(g.ubi, ub_):
                    sh.violation("grain.ubi:shares-the-array-it-was-built-from", {"kind": "grainhist", "first_ubi": a, "second_ubi": b,
                                                                                  "read_before_set_ubi": list(first), "seed": seed_of()}, {})
                    continue
                for p in PROPS:
                    if not close(getattr(g, p), getattr(fresh, p), 1e-12):
                        sh.violation("grain.%s:stale-after-set_ubi" % p, {"kind": "grainhist", "first_ubi": a, "second_ubi": b,
                                                                        "read_before_set_ubi": list(first), "seed": seed_of()},
                                     {"got": getattr(g, p), "expected": getattr(fresh, p)})
                        break
                sh.evaluations += 1
                if a != b and first:
                    sh.nontrivial += 1
    sh.sample({"kind": "grainhist", "first_ubi": a, "second_ubi": b, "read_before_set_ubi": list(first)}, limit=1)
    sh.outcomes.add("grainhist")
    return sh


def _run_combine(desc):
    """TensorMap.from_combine_phases: afterwards the INPUT maps are what they were (their UBI, their NaN mask, and the derived maps they had
    cached still describe that UBI: U.B = UB = inverse of UBI), and the combined map's UB / mt / unitcell / B / U are those of its UBI"""
    _, ci = desc
    from ImageD11 import unitcell as ucm
    from ImageD11.sinograms import tensor_map as tm
    from vt.props import c10
    import io, contextlib
    sh = Shard()
    cells = [CELLS[ci], CELLS[(ci + 1) % len(CELLS)], CELLS[(ci + 3) % len(CELLS)]]
    R = rotations(seed_of())

    def ubis_for(k, v):
        return make_ubi(cells[k], R[(k + 2 * v) % len(R)], STRAINS[(k + v) % len(STRAINS)])
    dummy6, dummy33 = np.arange(6), np.eye(3)
    for owners in c10.OWNERS:
        for cached in ((), ("UB", "U", "B"), ("mt", "unitcell")):
            with contextlib.redirect_stdout(io.StringIO()):
                parts = c10.build_phase_maps(tm, ucm, cells, ubis_for, owners)
                for T_ in parts[:2]:
                    for nm in cached:
                        getattr(T_, nm)
                before = [{nm: np.array(T_.maps[nm]).copy() for nm in T_.maps} for T_ in parts]
                comb = tm.TensorMap.from_combine_phases(parts)
            case = {"kind": "combine", "cell": CELLS[ci], "owners": list(owners), "read_before_combining": list(cached), "seed": seed_of()}
            ok = True
            for q, (T_, b_) in enumerate(zip(parts, before)):
                for nm, arr in b_.items():
                    now = np.asarray(T_.maps[nm])
                    if now.shape != arr.shape or not np.array_equal(np.isnan(now.astype(float)), np.isnan(arr.astype(float))) or \
                            not np.array_equal(now[~np.isnan(now.astype(float))], arr[~np.isnan(arr.astype(float))]):
                        sh.violation("TensorMap.from_combine_phases:changes-an-input-map", dict(case, input=q, map=nm), {})
                        ok = False
                        break
                if not ok:
                    break
            if ok:
                u = np.asarray(comb.UBI)
                want = {"UB": tm.fast_invert(u), "mt": tm.ubi_to_mt(u)}
                want["unitcell"] = tm.mt_to_unitcell(want["mt"], dummy6)
                want["B"] = tm.unitcell_to_b(want["unitcell"], dummy33)
                want["U"] = tm.ubi_and_b_to_u(u, want["B"])
                for nm, w in want.items():
                    got = np.asarray(getattr(comb, nm))
                    if got.shape != w.shape or not np.array_equal(np.isnan(got), np.isnan(w)) or not np.allclose(got[~np.isnan(got)], w[~np.isnan(w)], rtol=0, atol=1e-12):
                        sh.violation("TensorMap.from_combine_phases:%s-of-the-combined-map-is-not-that-of-its-UBI" % nm, case, {})
                        break
            sh.evaluations += 1
            sh.nontrivial += 1
    # TensorMap.from_stack: three one-layer maps, every pattern of "this layer had its derived maps read before stacking" (they sit in
    # .maps then): the stack's UB / mt / unitcell / B / U are those of ITS UBI in every layer, the layers are left as they were
    phase = {0: ucm.unitcell(cells[0], "P")}
    layers_ubi = []
    for z in range(3):
        u = np.array([ubis_for(0, 3 * z + v) for v in range(4)]).reshape(1, 2, 2, 3, 3)
        if z == 1:
            u[0, 1, 0] = np.nan
        layers_ubi.append(u)
    for pattern in itertools.product((False, True), repeat=3):
        for cached in (("UB",), ("UB", "U", "B"), ("mt", "unitcell")):
            with contextlib.redirect_stdout(io.StringIO()):
                parts = [tm.TensorMap(maps={"UBI": layers_ubi[z].copy(), "phase_ids": np.zeros((1, 2, 2), int)}, phases=phase) for z in range(3)]
                for z in range(3):
                    if pattern[z]:
                        for nm in cached:
                            getattr(parts[z], nm)
                before = [{nm: np.array(T_.maps[nm]).copy() for nm in T_.maps} for T_ in parts]
                comb = tm.TensorMap.from_stack(parts, zstep=1.0)
            case = {"kind": "combine", "cell": CELLS[ci], "owners": "from_stack", "layers_with_derived_maps_read": list(pattern), "read_before_stacking": list(cached),
                    "seed": seed_of()}
            u = np.asarray(comb.UBI)
            if u.shape != (3, 2, 2, 3, 3) or not np.array_equal(np.isnan(u), np.isnan(np.concatenate(layers_ubi))):
                sh.violation("TensorMap.from_stack:UBI-of-the-stack-is-not-the-layers", case, {"shape": list(u.shape)})
                continue
            if any(set(T_.maps) != set(b_) or any(not np.array_equal(np.asarray(T_.maps[nm]), b_[nm], equal_nan=True) for nm in b_ if np.asarray(b_[nm]).dtype.kind == "f")
                   for T_, b_ in zip(parts, before)):
                sh.violation("TensorMap.from_stack:changes-an-input-map", case, {})
                continue
            want = {"UB": tm.fast_invert(u), "mt": tm.ubi_to_mt(u)}
            want["unitcell"] = tm.mt_to_unitcell(want["mt"], dummy6)
            want["B"] = tm.unitcell_to_b(want["unitcell"], dummy33)
            want["U"] = tm.ubi_and_b_to_u(u, want["B"])
            for nm, w in want.items():
                got = np.asarray(getattr(comb, nm))
                if got.shape != w.shape or not np.array_equal(np.isnan(got), np.isnan(w)) or not np.allclose(got[~np.isnan(got)], w[~np.isnan(w)], rtol=0, atol=1e-12):
                    sh.violation("TensorMap.from_stack:%s-of-the-stack-is-not-that-of-its-UBI" % nm, case, {"nan_voxels": int(np.isnan(got).any(axis=-1).sum())})
                    break
            sh.evaluations += 1
            sh.nontrivial += 1
    sh.outcomes.add(("combine", ci))
    sh.sample(case, limit=1)
    return sh


def _run_threads(desc):
    """two python threads read the cached properties of two DIFFERENT grains at the same time (a thread pool mapped over a grain list):
    every schedule with one preemption at a BYTECODE of the grain module is executed (engine E7, opcode points: a product and the copy of
    its result inside one statement can be separated); each grain must end up with the
    properties it has when it is read alone"""
    _, c = desc
    from ImageD11 import grain as gm
    from vt import pysched
    sh = Shard()
    R = rotations(seed_of())
    ubis = [make_ubi(CELLS[ci], R[ri], STRAINS[si]) for ci, ri, si in ((0, 5, 0), (8, 7, 4), (2, 6, 2), (5, 1, 3))]
    pairs = [(0, 1), (2, 3), (1, 2)][c::2]
    modfile = gm.__file__
    names = ("U", "B", "UB", "mt", "rmt", "unitcell")
    for a, b in pairs:
        alone = [{nm: np.array(getattr(gm.grain(ubis[k].copy()), nm)) for nm in names} for k in (a, b)]
        holder = {}

        def reset():
            holder["g"] = [gm.grain(ubis[a].copy()), gm.grain(ubis[b].copy())]

        def make():
            return [lambda: {nm: np.array(getattr(holder["g"][0], nm)) for nm in names},
                    lambda: {nm: np.array(getattr(holder["g"][1], nm)) for nm in names}]
        nexec = 0
        for sw, res, err in pysched.explore(make, lambda fr: fr.f_code.co_filename == modfile, bound=1, reset=reset, max_exec=20000, opcodes=True):
            nexec += 1
            case = {"kind": "threads", "grains": [a, b], "switch_at_points": list(sw), "seed": seed_of()}
            for t in range(2):
                if err[t] is not None:
                    sh.violation("grain:concurrent-read-raises", dict(case, thread=t), {"error": repr(err[t])[:200]})
                    break
                badn = [nm for nm in names if not np.array_equal(res[t][nm], alone[t][nm]) or
                        not np.array_equal(np.array(getattr(holder["g"][t], nm)), alone[t][nm])]
                if badn:
                    sh.violation("grain.%s:differs-when-another-grain-is-read-at-the-same-time" % badn[0], dict(case, thread=t), {})
                    break
            sh.states += 1
            sh.traces_validated += 1
            if sh.violations:
                break
        sh.count("thread_schedules_executed", nexec)
        sh.evaluations += 1
        sh.nontrivial += 1
    sh.outcomes.add(("threads", c))
    sh.sample({"kind": "threads", "schedules": nexec}, limit=1)
    return sh


def _run_threads_map(desc):
    """two python threads read derived maps (UB, U, B, mt, unitcell) of ONE TensorMap nobody has read before (a thread pool over tiles or
    layers of one map): every schedule with one preemption at a line of the tensor_map module (engine E7); what a thread is handed is, at
    the moment it gets it, the map that belongs to the UBI map - complete, NaN only where the UBI is NaN"""
    _, c = desc
    from ImageD11 import unitcell as ucm
    from ImageD11.sinograms import tensor_map as tm
    from vt import pysched
    import io, contextlib
    sh = Shard()
    R = rotations(seed_of())
    cell = CELLS[(3 * c) % len(CELLS)]
    u = np.array([make_ubi(cell, R[(v + c) % len(R)], STRAINS[v % len(STRAINS)]) for v in range(4)]).reshape(1, 2, 2, 3, 3)
    u[0, 1, 1] = np.nan
    dummy6, dummy33 = np.arange(6), np.eye(3)
    want = {"UB": tm.fast_invert(u), "mt": tm.ubi_to_mt(u)}
    want["unitcell"] = tm.mt_to_unitcell(want["mt"], dummy6)
    want["B"] = tm.unitcell_to_b(want["unitcell"], dummy33)
    want["U"] = tm.ubi_and_b_to_u(u, want["B"])
    modfile = tm.__file__
    holder = {}
    pairs = [("UB", "UB"), ("UB", "U"), ("U", "UB"), ("mt", "unitcell"), ("B", "B"), ("U", "U"), ("unitcell", "B")][c::2]
    nexec = 0
    for na, nb in pairs:
        def reset():
            with contextlib.redirect_stdout(io.StringIO()):
                holder["T"] = tm.TensorMap(maps={"UBI": u.copy(), "phase_ids": np.zeros((1, 2, 2), int)}, phases={0: ucm.unitcell(cell, "P")})

        def make():
            return [lambda: np.array(getattr(holder["T"], na)), lambda: np.array(getattr(holder["T"], nb))]
        for sw, res, err in pysched.explore(make, lambda fr: fr.f_code.co_filename == modfile, bound=1, reset=reset, max_exec=20000):
            nexec += 1
            case = {"kind": "threads_map", "c": c, "reads": [na, nb], "switch_at_points": list(sw), "seed": seed_of()}
            for t, nm in enumerate((na, nb)):
                if err[t] is not None:
                    sh.violation("TensorMap.%s:concurrent-read-raises" % nm, dict(case, thread=t), {"error": repr(err[t])[:200]})
                    break
                got, w = res[t], want[nm]
                if got.shape != w.shape or not np.array_equal(np.isnan(got), np.isnan(w)) or not np.allclose(got[~np.isnan(got)], w[~np.isnan(w)], rtol=0, atol=1e-12):
                    sh.violation("TensorMap.%s:thread-is-handed-a-map-that-is-not-that-of-the-UBI" % nm, dict(case, thread=t),
                                 {"nan_voxels_handed_out": int(np.isnan(got).any(axis=-1).sum()) if got.ndim > 3 else -1})
                    break
            sh.states += 1
            sh.traces_validated += 1
            if sh.violations:
                break
        sh.evaluations += 1
        sh.nontrivial += 1
        if sh.violations:
            break
    sh.count("thread_schedules_executed", nexec)
    sh.outcomes.add(("threads_map", c))
    sh.sample({"kind": "threads_map", "schedules": nexec}, limit=1)
    return sh


def run_shard(desc):
    if desc[0] == "threads_map":
        return _run_threads_map(desc)
    if desc[0] == "threads":
        return _run_threads(desc)
    if desc[0] == "combine":
        return _run_combine(desc)
    if desc[0] == "grainhist":
        return _run_grainhist(desc)
    return {"ubi": _run_ubi, "mask": _run_mask, "shapes": _run_shapes}[desc[0]](desc)


def replay(case):
    os.environ["VERIF_SEED"] = str(case.get("seed", 0))
    sh = Shard()
    if case["kind"] == "threads":
        r = _run_threads(("threads", 0))
        r2 = _run_threads(("threads", 1))
        v = [x for x in r.violations + r2.violations if x["case"]["grains"] == case["grains"]]
        return (not v), {"violations": v[:3]}
    if case["kind"] == "threads_map":
        r = _run_threads_map(("threads_map", case["c"]))
        v = [x for x in r.violations if x["case"]["reads"] == case["reads"]]
        return (not v), {"violations": v[:3]}
    if case["kind"] == "combine":
        r = _run_combine(("combine", CELLS.index(case["cell"])))
        keys = ("owners", "read_before_combining", "layers_with_derived_maps_read", "read_before_stacking")
        v = [x for x in r.violations if all(x["case"].get(k_) == case.get(k_) for k_ in keys)]
        return (not v), {"violations": v[:3]}
    if case["kind"] == "ubi":
        ci = CELLS.index(case["cell"])
        U = rotations(case.get("seed", 0), case.get("tier", "quick"))[case["rotation"]]
        eps = strains(case.get("tier", "quick"))[case["strain"]]
        check_ubi(sh, _mods(), make_ubi(case["cell"], U, eps), case["cell"], U, eps, case)
    elif case["kind"] == "mask":
        r = _run_mask(("mask", int(np.prod(case["shape"]))))
        sh.violations = [v for v in r.violations if v["case"].get("mask") == case.get("mask") and v["case"]["shape"] == case["shape"]]
    elif case["kind"] == "grainhist":
        for c in range(4):
            r = _run_grainhist(("grainhist", c))
            sh.violations += [v for v in r.violations if v["case"]["first_ubi"] == case["first_ubi"] and v["case"]["second_ubi"] == case["second_ubi"]
                              and v["case"]["read_before_set_ubi"] == case["read_before_set_ubi"]]
    else:
        sh.violations = _run_shapes(("shapes",)).violations[:3]
    return (not sh.violations), {"violations": sh.violations}
