"""C12 - peak properties and frame-to-frame merging conserve pixels and intensity.

Bounded exhaustive exploration of frame histories: ALL sequences of F frames over ALL binary
images of a small shape (2x3: 64 images, F <= 3 quick = 266 304 sequences incl. empty frames;
thorough adds F = 4, 2x4 with F = 3 and 3x3 with F = 2), driven through the real
labelimage.peaksearch / mergelast / finalise exactly as peaksearcher does, plus a catalogue of
longer structured histories (up to 40 frames).  Voxel (f,i,j) carries intensity 2^(index), so the
summed intensity of an output peak identifies its voxel set exactly (exact in double): a lost,
duplicated or split blob is visible in one number.
Oracle: 3-D connected components (8-connected in a frame, same pixel on adjacent frames) by an own
flood fill cross-checked with scipy.ndimage.label; every output row must match one component in
pixel count, sums, centroids (s, f, omega), maximum and bounding box; totals conserved.
"""
from __future__ import annotations
import itertools, os
import numpy as np
from vt.runner import Shard
from vt import oracles as O

LEVEL = "exploration"
RULE = ("cases = (shape, frame sequence, omega step) with every frame ranging over all binary images of the shape; "
        "non-trivial = the sequence contains a join, a fork or two blobs on one frame linked only through a neighbouring frame "
        "(some 3-D component has >= 2 two-dimensional blobs on one frame)")
ASSUMPTIONS = ["intensities are distinct powers of two (so sums identify voxel sets); threshold between 0 and the smallest",
               "frames of the enumerated small shapes; longer histories only from the stated catalogue"]

COLS = ("sc fc omega Number_of_pixels avg_intensity s_raw f_raw sigs sigf covsf sigo covso covfo sum_intensity "
        "sum_intensity2 IMax_int IMax_s IMax_f IMax_o Min_s Max_s Min_f Max_f Min_o Max_o dety detz onfirst onlast spot3d_id").split()


class Sink:
    def __init__(self):
        self.lines = []

    def write(self, s):
        self.lines.append(s)


def components3d(vol):
    """own flood fill: 8-connected in plane, same pixel on adjacent frames"""
    F, S, Fa = vol.shape
    lab = np.zeros(vol.shape, np.int32)
    n = 0
    nb = [(0, a, b) for a in (-1, 0, 1) for b in (-1, 0, 1) if (a, b) != (0, 0)] + [(-1, 0, 0), (1, 0, 0)]
    v = vol.tolist()
    L = lab.tolist()
    for f in range(F):
        for i in range(S):
            for j in range(Fa):
                if v[f][i][j] and not L[f][i][j]:
                    n += 1
                    L[f][i][j] = n
                    st = [(f, i, j)]
                    while st:
                        a, b, c = st.pop()
                        for da, db, dc in nb:
                            x, y, z = a + da, b + db, c + dc
                            if 0 <= x < F and 0 <= y < S and 0 <= z < Fa and v[x][y][z] and not L[x][y][z]:
                                L[x][y][z] = n
                                st.append((x, y, z))
    return np.array(L, np.int32), n


_ST = None


def scipy3d(vol):
    global _ST
    import scipy.ndimage as ndi
    if _ST is None:
        _ST = np.zeros((3, 3, 3), int)
        _ST[1] = 1
        _ST[0, 1, 1] = _ST[2, 1, 1] = 1
    return ndi.label(vol, structure=_ST)


def expected_peaks(vol, inten, omegas):
    lab, n = components3d(vol)
    l2, n2 = scipy3d(vol)
    if n != n2:
        raise RuntimeError("oracles disagree")
    out = []
    multi = False
    import scipy.ndimage as ndi
    for k in range(1, n + 1):
        f, s, fa = np.nonzero(lab == k)
        I = inten[f, s, fa]
        o = omegas[f]
        tot = I.sum()
        im = int(np.argmax(I))
        out.append(dict(npix=len(I), sumI=float(tot), sumI2=float((I * I).sum()),
                               s=float((s * I).sum() / tot), f=float((fa * I).sum() / tot), o=float((o * I).sum() / tot),
                               imax=float(I[im]), imax_s=int(s[im]), imax_f=int(fa[im]), imax_o=float(o[im]),
                               mins=int(s.min()), maxs=int(s.max()), minf=int(fa.min()), maxf=int(fa.max()),
                               mino=float(o.min()), maxo=float(o.max())))
        for fr in set(f.tolist()):
            m2 = (lab[fr] == k)
            if ndi.label(m2, structure=np.ones((3, 3), int))[1] > 1:
                multi = True
    return out, multi


def expected_peaks_many(vol, inten, omegas):
    """expected_peaks for volumes with tens of thousands of components (one pass over the sorted voxel list)"""
    lab, n = components3d(vol)
    l2, n2 = scipy3d(vol)
    if n != n2:
        raise RuntimeError("oracles disagree")
    f, s, fa = np.nonzero(lab)
    k = lab[f, s, fa]
    order = np.argsort(k, kind="stable")
    f, s, fa, k = f[order], s[order], fa[order], k[order]
    cuts = np.nonzero(np.diff(k))[0] + 1
    out = []
    for fi, si, fai in zip(np.split(f, cuts), np.split(s, cuts), np.split(fa, cuts)):
        I = inten[fi, si, fai]
        o = omegas[fi]
        tot = I.sum()
        im = int(np.argmax(I))
        out.append(dict(npix=len(I), sumI=float(tot), sumI2=float((I * I).sum()),
                        s=float((si * I).sum() / tot), f=float((fai * I).sum() / tot), o=float((o * I).sum() / tot),
                        imax=float(I[im]), imax_s=int(si[im]), imax_f=int(fai[im]), imax_o=float(o[im]),
                        mins=int(si.min()), maxs=int(si.max()), minf=int(fai.min()), maxf=int(fai.max()),
                        mino=float(o.min()), maxo=float(o.max())))
    return out


def run_sequence(li_mod, frames, inten, omegas, thr=0.5, bg=0.0):
    """frames: bool array (F,S,Fa). Returns parsed rows (list of dict).  bg: value of the pixels that are not in a blob (not above thr)."""
    F = frames.shape[0]
    sink = Sink()
    li = li_mod.labelimage(frames.shape[1:], fileout=sink, sptfile=Sink())
    for f in range(F):
        data = np.where(frames[f], inten[f], bg).astype(np.float32)
        li.peaksearch(data, thr, float(omegas[f]))
        li.mergelast()
    li.finalise()
    rows = []
    for line in sink.lines[1:]:
        vals = [float(x) for x in line.split()]
        rows.append(dict(zip(COLS, vals)))
    return rows


def compare(sh, case, rows, exp_list, loose=False):
    if loose:   # catalogue: sums are not powers of two; identify a peak by sum, pixel count and where it starts
        kr = lambda r: (round(r["sum_intensity"], 3), int(r["Number_of_pixels"]), int(r["Min_s"]), int(r["Min_f"]), round(r["Min_o"], 3))
        ke = lambda e: (round(e["sumI"], 3), e["npix"], e["mins"], e["minf"], round(e["mino"], 3))
    else:
        kr = lambda r: r["sum_intensity"]
        ke = lambda e: e["sumI"]
    exp = {}
    for e in exp_list:
        if ke(e) in exp:
            raise RuntimeError("oracle keys collide: %r" % (ke(e),))
        exp[ke(e)] = e
    got = {}
    for r in rows:
        key = kr(r)
        if key in got:
            sh.violation("labelimage:duplicate-peak", case, {"sum_intensity": key})
            return False
        got[key] = r
    if set(got) != set(exp):
        missing = sorted(set(exp) - set(got))
        extra = sorted(set(got) - set(exp))
        sh.violation("labelimage:peaks-do-not-match-components", case,
                     {"missing_component_sums": missing[:5], "unexpected_peak_sums": extra[:5],
                      "n_rows": len(rows), "n_components": len(exp)})
        return False
    for key, e in exp.items():
        r = got[key]
        chk = [("Number_of_pixels", e["npix"], 0), ("sum_intensity", e["sumI"], 1e-3), ("sum_intensity2", e["sumI2"], 1e-3), ("s_raw", e["s"], 2e-4),
               ("f_raw", e["f"], 2e-4), ("omega", e["o"], 2e-4), ("IMax_int", e["imax"], 1e-3), ("IMax_s", e["imax_s"], 0),
               ("IMax_f", e["imax_f"], 0), ("IMax_o", e["imax_o"], 2e-4), ("Min_s", e["mins"], 0), ("Max_s", e["maxs"], 0),
               ("Min_f", e["minf"], 0), ("Max_f", e["maxf"], 0), ("Min_o", e["mino"], 2e-4), ("Max_o", e["maxo"], 2e-4),
               ("avg_intensity", e["sumI"] / e["npix"], 1e-3), ("sc", e["s"], 2e-4), ("fc", e["f"], 2e-4)]
        for name, want, tol in chk:
            if abs(r[name] - want) > tol + 1e-9 * abs(want):
                sh.violation("labelimage:property-%s" % name, case, {"got": r[name], "expected": want, "component_sum": key})
                return False
    return True


def make_inten(F, shape):
    n = shape[0] * shape[1]
    # intensity of voxel (f,i,j) = 2^(index); index order chosen so that later frames are NOT always brighter
    idx = np.arange(F * n).reshape(F, *shape)
    perm = (idx * 7 + 3) % (F * n) if (F * n) % 7 else idx
    return (2.0 ** perm).astype(np.float64)


def plan(tier, seed):
    shards = []
    if tier == "quick":
        # (2,6)/(6,2)/(2,7): elongated frames - blobs that lie further along the long axis than the short one is wide
        specs = [((2, 3), 1), ((2, 3), 2), ((2, 3), 3), ((3, 3), 2), ((2, 2), 4), ((1 + 1, 4), 2), ((2, 6), 1), ((6, 2), 1), ((2, 7), 1), ((7, 2), 1)]
    else:
        specs = [((2, 3), 1), ((2, 3), 2), ((2, 3), 3), ((2, 3), 4), ((3, 3), 2), ((2, 2), 4), ((2, 2), 5), ((2, 4), 2),
                 ((2, 4), 3), ((3, 2), 3), ((2, 6), 1), ((6, 2), 1), ((2, 7), 1), ((7, 2), 1), ((2, 6), 2), ((6, 2), 2)]
    for shape, F in specs:
        nimg = 1 << (shape[0] * shape[1])
        total = nimg ** F
        nchunk = max(1, min(256, total // 4000))
        for c in range(nchunk):
            shards.append(("seq", shape, F, c, nchunk))
    shards.append(("catalogue",))
    shards.append(("bigframe",))
    shards.append(("callers",))
    shards += [("dset", 5, 4)] if tier == "quick" else [("dset", 6, 4), ("dset", 5, 5)]
    for c in range(8):
        shards.append(("peaksearcher", c, 8, tier))
    for c in range(4):
        shards.append(("sched", c, 4, tier))
    k = seed % len(shards)
    return shards[k:] + shards[:k]


def _bits_img(x, shape):
    n = shape[0] * shape[1]
    return np.array([(x >> k) & 1 for k in range(n)], bool).reshape(shape)


def _run_seq(desc):
    _, shape, F, c, nchunk = desc
    from ImageD11 import labelimage
    sh = Shard()
    n = shape[0] * shape[1]
    nimg = 1 << n
    imgs = [_bits_img(x, shape) for x in range(nimg)]
    total = nimg ** F
    seed = int(os.environ.get("VERIF_SEED", "0") or 0)
    steps = (1.0, 0.25, -1.0)
    inten = make_inten(F, shape)
    for q in range(c, total, nchunk):
        digs = []
        x = q
        for _ in range(F):
            digs.append(x % nimg)
            x //= nimg
        frames = np.array([imgs[d] for d in digs])
        step = steps[(q + seed) % 3]
        omegas = 10.0 + step * np.arange(F)
        case = {"kind": "seq", "shape": list(shape), "frames": digs, "omega_step": step}
        # every fourth sequence with all intensities (and the threshold) scaled down by 16: weak normalised data, peaks whose whole
        # intensity is below 0.1 (multiples of 1/16 still print exactly in the four-decimal output format)
        # (small sequence spaces: every sequence both ways)
        for scale in ((1.0, 2.0 ** -4) if n * F <= 12 else ((2.0 ** -4,) if (q + q // nimg) % 4 == 1 else (1.0,))):
            if scale != 1.0:
                case = dict(case, intensity_scale=scale)
            exp, multi = expected_peaks(frames, inten * scale, omegas)
            rows = run_sequence(labelimage, frames, inten * scale, omegas, thr=0.5 * scale)
            compare(sh, case, rows, exp)
            if scale == 1.0 and (n * F <= 12 or (q + q // nimg) % 4 == 2):
                # the background sits exactly AT the threshold (integer counts searched with a threshold inside the background range):
                # those pixels are not above it, the peaks are the same
                rows = run_sequence(labelimage, frames, inten, omegas, thr=0.5, bg=0.5)
                compare(sh, dict(case, background_equals_threshold=True), rows, exp)
        sh.evaluations += 1
        if multi:
            sh.nontrivial += 1
        sh.outcomes.add((len(exp), multi))
        if q == c:
            sh.sample({"case": case, "components": len(exp)}, limit=1)
    return sh


def catalogue():
    """longer structured histories on a 4x5 detector"""
    S, Fa = 4, 5
    out = {}
    F = 40
    v = np.zeros((F, S, Fa), bool)
    v[::2, 1, 1] = True                       # blinking pixel: 20 separate peaks
    out["blink"] = v
    v = np.zeros((F, S, Fa), bool)
    for f in range(F):                         # two blobs joined only through the previous frame, repeatedly
        if f % 2 == 0:
            v[f, 1, 0] = True
            v[f, 1, 4] = True
        else:
            v[f, 1, :] = True
    out["bridge_repeat"] = v
    v = np.zeros((F, S, Fa), bool)
    v[0:10, 0, 0] = True                       # fork then join
    v[10:20, 0, 0] = True
    v[10:20, 0, 1] = True
    v[12:18, 0, 1] = False
    v[12:18, 2, 3] = True
    v[20:30, :, :] = True
    v[30:40, 3, 4] = True
    out["fork_join"] = v
    v = np.zeros((F, S, Fa), bool)
    for f in range(F):
        v[f, f % S, (f // 2) % Fa] = True      # drifting pixel: joins by 3-D adjacency only when the same pixel repeats
    out["drift"] = v
    v = np.zeros((F, S, Fa), bool)
    v[5:35] = True
    v[10:12] = False                           # empty frames in the middle
    out["full_with_gap"] = v
    v = np.zeros((F, S, Fa), bool)
    for f in range(F):
        v[f] = ((np.add.outer(np.arange(S), np.arange(Fa)) + f) % 3 == 0)
    out["moving_stripes"] = v
    out["empty"] = np.zeros((6, S, Fa), bool)
    return out


def _run_catalogue(desc):
    from ImageD11 import labelimage
    sh = Shard()
    for name, frames in catalogue().items():
        F = frames.shape[0]
        # intensities: powers of two would overflow for 800 voxels; use distinct values whose subset sums are
        # still unique enough per component for matching: value = 1 + index/4096 (exactly representable), and match on
        # (npix, sum) - components in the catalogue have distinct sums by construction (checked)
        idx = np.arange(frames.size).reshape(frames.shape)
        inten = 1.0 + ((idx * 37) % frames.size) / 64.0
        for step in (1.0, 0.25, -1.0):
            omegas = 5.0 + step * np.arange(F)
            case = {"kind": "catalogue", "name": name, "omega_step": step}
            exp, multi = expected_peaks(frames, inten, omegas)
            rows = run_sequence(labelimage, frames, inten, omegas)
            compare(sh, case, rows, exp, loose=True)
            sh.evaluations += 1
            if multi:
                sh.nontrivial += 1
            sh.sample({"case": case, "components": len(exp), "frames": F}, limit=1)
    return sh


class _Frame:
    """what peaksearcher.peaksearch needs of a fabio image"""
    def __init__(self, data, omega, k):
        self.data = data
        self.header = {"Omega": omega}
        self.currentframe = k


def _run_peaksearcher(desc):
    """the driver's per-image routine (peaksearcher.peaksearch): several thresholds searched on the same picture, one labelimage object
    per threshold; every 2x3 (thorough 3x3) sequence of 2 frames; each threshold's merged peaks are the components of the voxels above
    THAT threshold"""
    _, c, nch, tier = desc
    from ImageD11 import labelimage, peaksearcher
    import io, contextlib
    sh = Shard()
    for shape, F in ((((2, 3) if tier == "quick" else (3, 3)), 2), ((2, 2), 3 if tier == "quick" else 4)):
        _peaksearcher_family(sh, shape, F, c, nch, labelimage, peaksearcher)
    return sh


def _peaksearcher_family(sh, shape, F, c, nch, labelimage, peaksearcher):
    import io, contextlib
    n = shape[0] * shape[1]
    nimg = 1 << n
    imgs = [_bits_img(x, shape) for x in range(nimg)]
    inten = make_inten(F, shape)
    thresholds = [0.5, 2.0 ** (F * n // 2) + 0.5] if F == 2 else [0.5, 2.0 ** (F * n // 3) + 0.5, 2.0 ** (2 * F * n // 3) + 0.5]
    for q in range(c, nimg ** F, nch):
        digs = []
        x_ = q
        for _ in range(F):
            digs.append(x_ % nimg)
            x_ //= nimg
        frames = np.array([imgs[d] for d in digs])
        omegas = 10.0 + 0.5 * np.arange(F)
        sinks = {t: Sink() for t in thresholds}
        labims = {t: labelimage.labelimage(shape, fileout=sinks[t], sptfile=Sink()) for t in thresholds}
        with contextlib.redirect_stdout(io.StringIO()):
            for f in range(F):
                data = np.where(frames[f], inten[f], 0.0)
                peaksearcher.peaksearch("frame%d" % f, _Frame(data, float(omegas[f]), f), None, thresholds, labims)
            for t in thresholds:
                labims[t].finalise()
        for t in thresholds:
            rows = [dict(zip(COLS, [float(x) for x in line.split()])) for line in sinks[t].lines[1:]]
            vol = frames & (inten > t)
            exp, multi = expected_peaks(vol, inten, omegas)
            case = {"kind": "peaksearcher", "shape": list(shape), "frames": digs, "threshold": t, "thresholds": thresholds}
            compare(sh, case, rows, exp)
            sh.evaluations += 1
            if t > 1 and vol.any() and (frames & ~vol).any():
                sh.nontrivial += 1
    sh.sample(case, limit=1)


def _bigframes():
    """frames with more separate blobs than the labelling's initial bookkeeping holds (16384 slots): 16900 single-pixel blobs, then a
    frame that continues half of them and starts 4225 others, then an empty one"""
    S = Fa = 260
    v = np.zeros((3, S, Fa), bool)
    v[0, ::2, ::2] = True
    v[1, :130:2, ::2] = True
    v[1, 131::2, 1::4] = True
    return v


def _run_bigframe(desc):
    from ImageD11 import labelimage
    sh = Shard()
    frames = _bigframes()
    idx = np.arange(frames.size).reshape(frames.shape)
    inten = 1.0 + ((idx * 37) % 4096) / 64.0
    for step in (0.5, -1.0):
        omegas = 5.0 + step * np.arange(frames.shape[0])
        case = {"kind": "bigframe", "omega_step": step}
        exp = expected_peaks_many(frames, inten, omegas)
        rows = run_sequence(labelimage, frames, inten, omegas)
        compare(sh, case, rows, exp, loose=True)
        sh.evaluations += 1
        sh.nontrivial += 1
        sh.counters["max_components_in_one_history"] = max(sh.counters.get("max_components_in_one_history", 0), len(exp))
    sh.sample({"case": case, "components": len(exp), "blobs_in_first_frame": int(frames[0].sum())}, limit=1)
    return sh


def _run_sched(desc):
    """blobproperties (per-frame moments of every labelled blob) on the schedule-exploring runtime: every 3x3 image (thorough: 3x4),
    labelled by the reference flood fill, T = 2 and 3 logical threads, preemption bound 2: all schedules must leave the result table
    of the one-thread run.  (On the current tree the kernel has no parallel region: one schedule per call; the exploration is what
    notices if one is introduced.)"""
    _, c, nch, tier = desc
    from vt.vrt import VRT, check_schedule_independence
    sh = Shard()
    V = VRT()
    shp = (3, 3) if tier == "quick" else (3, 4)
    n = shp[0] * shp[1]
    from ImageD11 import cImageD11 as _cI
    NPROP = int(_cI.NPROPERTY)
    import ctypes
    for x in range(1 + c, 1 << n, nch):
        m = _bits_img(x, shp)
        lab, npk = O.flood_components(m, True)
        lab = np.ascontiguousarray(lab, np.int32)
        data = np.ascontiguousarray(np.where(m, 1.0 + np.arange(n).reshape(shp) * 0.5, 0.0), np.float32)
        res = np.full((npk, NPROP), -7.0)
        ref, out, bad = check_schedule_independence(V, "blobproperties", [data, lab, npk, 0, shp[0], shp[1], res], [11.0], (0,), [res],
                                                    threads=(2, 3), bound=2, void=True)
        case = {"kind": "sched", "shape": list(shp), "image": x}
        r1 = np.frombuffer(ref[1], float).reshape(npk, NPROP)
        # the one-thread table against the definition (pixel count and intensity sum per blob)
        for k in range(npk):
            if r1[k, 0] != (lab == k + 1).sum() or abs(r1[k, 1] - data[lab == k + 1].sum()) > 1e-9:
                sh.violation("blobproperties[vrt build]:counts", case, {"blob": k + 1, "row": r1[k, :3]})
                break
        for T, sched in bad:
            sh.violation("blobproperties:schedule-dependent:T=%d" % T, dict(case, schedule=sched), {})
        for r in out:
            sh.states += r["nodes"]
            sh.transitions += r["nodes"] - 1 + r["executions"]
            sh.traces_validated += r["executions"]
            sh.count("schedule_executions", r["total_executions"])
            sh.count("conflict_words", r["filter_size"])
            if r["capped"]:
                sh.capped = True
        sh.evaluations += 1
        if npk >= 2:
            sh.nontrivial += 1
    sh.sample(case, limit=1)
    return sh


def _run_callers(desc):
    """the kernels of this property that are declared threadsafe (the GIL is released while they run) as TWO CONCURRENT CALLERS on the
    schedule-exploring runtime: pairs of different well-formed calls from the C20 call tables, every interleaving at the words both
    touch within 2 preemptions; each call must leave in its arrays what it leaves when it runs alone"""
    from vt.vrt import VRT, callers_interfere
    from vt import sani
    sh = Shard()
    V = VRT()
    for a, b in sani.threadsafe_pairs(('blobproperties', 'bloboverlaps', 'blob_moments'), ('blobproperties', 'bloboverlaps', 'blob_moments')):
        bad, r = callers_interfere(V, a, b)
        if r is None:
            continue
        case = {"kind": "callers", "calls": [a.describe(), b.describe()]}
        for sched in (bad or [])[:1]:
            sh.violation("concurrent-callers:%s-calls-interfere" % a.kernel, dict(case, schedule=sched), {"conflict_words": r["filter_size"]})
        sh.states += r["nodes"]
        sh.transitions += r["nodes"] - 1 + r["executions"]
        sh.count("caller_pair_executions", r["total_executions"])
        sh.evaluations += 1
        sh.nontrivial += 1
        sh.outcomes.add(("callers", a.kernel))
    sh.sample(case, limit=1)
    return sh


def _run_dset(desc):
    """the disjoint set behind both levels of the merging (src/blobs.c: dset_new / dset_makeunion / dset_find / dset_compress, called by
    connectedpixels for touching pixels and by bloboverlaps for overlapping blobs): EVERY sequence of up to `depth` unions on `n`
    labels, both argument orders, executed on the real functions (DFS, the array copied at each node) against a reference partition:
    after every union two labels have the same root iff they were joined, and the compressed numbering has one peak per class"""
    _, n, depth = desc
    import ctypes
    sh = Shard()
    L = ctypes.CDLL(os.path.join(os.environ["VT_ROOT"], "lib", "libid11_plain.so"))
    libc = ctypes.CDLL(None)
    libc.free.argtypes = [ctypes.c_void_p]
    P32 = ctypes.POINTER(ctypes.c_int32)
    L.dset_initialise.restype = ctypes.c_void_p
    L.dset_new.restype = ctypes.c_void_p
    L.dset_new.argtypes = [ctypes.POINTER(ctypes.c_void_p), P32]
    L.dset_makeunion.argtypes = [ctypes.c_void_p, ctypes.c_int32, ctypes.c_int32]
    L.dset_makeunion.restype = None
    L.dset_find.argtypes = [ctypes.c_int32, ctypes.c_void_p]
    L.dset_find.restype = ctypes.c_int32
    L.dset_compress.argtypes = [ctypes.POINTER(ctypes.c_void_p), P32]
    L.dset_compress.restype = ctypes.c_void_p
    size = 16
    S0 = ctypes.c_void_p(L.dset_initialise(size))
    v = ctypes.c_int32(0)
    for _ in range(n):
        S0 = ctypes.c_void_p(L.dset_new(ctypes.byref(S0), ctypes.byref(v)))
    init = np.ctypeslib.as_array(ctypes.cast(S0, P32), shape=(size,)).copy()
    libc.free(S0)
    pairs = [(a, b) for a in range(1, n + 1) for b in range(1, n + 1) if a != b]

    def roots(S):
        q = S.copy()
        return [L.dset_find(x, q.ctypes.data) for x in range(1, n + 1)]

    def compressed(S):
        q = S.copy()
        pq = ctypes.c_void_p(q.ctypes.data)
        npk = ctypes.c_int32(-1)
        T = L.dset_compress(ctypes.byref(pq), ctypes.byref(npk))
        t = np.ctypeslib.as_array(ctypes.cast(T, P32), shape=(n + 1,)).copy()
        libc.free(T)
        return t[1:], npk.value
    stack = [(init, tuple(range(n)), [])]           # (array, reference class of every label, history)
    seen_partitions = set()
    while stack:
        S, ref, hist = stack.pop()
        for a, b in pairs:
            if len(hist) == 0 and a > b:
                continue                         # the first union in one argument order only (the other is its mirror image at depth 1)
            S2 = S.copy()
            L.dset_makeunion(S2.ctypes.data, a, b)
            ca, cb = ref[a - 1], ref[b - 1]
            ref2 = tuple(ca if c == cb else c for c in ref)
            h2 = hist + [(a, b)]
            sh.transitions += 1
            r = roots(S2)
            same_lib = [[r[i] == r[j] for j in range(n)] for i in range(n)]
            same_ref = [[ref2[i] == ref2[j] for j in range(n)] for i in range(n)]
            case = {"kind": "dset", "labels": n, "unions": [list(x) for x in h2]}
            if same_lib != same_ref:
                sh.violation("dset:labels-joined-by-unions-do-not-share-a-root", case, {"roots": r, "array": S2[:n + 1].tolist()})
                return sh
            t, npk = compressed(S2)
            if npk != len(set(ref2)) or [[t[i] == t[j] for j in range(n)] for i in range(n)] != same_ref or sorted(set(t.tolist())) != list(range(1, npk + 1)):
                sh.violation("dset_compress:numbering-is-not-one-peak-per-class", case, {"numbering": t.tolist(), "npeaks": int(npk), "classes": len(set(ref2))})
                return sh
            seen_partitions.add(tuple(ref2.index(c) for c in ref2))
            if len(h2) < depth:
                stack.append((S2, ref2, h2))
    sh.evaluations += sh.transitions
    sh.nontrivial += sh.transitions
    sh.states += len(seen_partitions)
    sh.outcomes.add(("dset", n, depth))
    sh.sample({"kind": "dset", "labels": n, "depth": depth, "sequences": int(sh.transitions), "partitions": len(seen_partitions)}, limit=1)
    return sh


def run_shard(desc):
    if desc[0] == "dset":
        return _run_dset(desc)
    if desc[0] == "callers":
        return _run_callers(desc)
    if desc[0] == "seq":
        return _run_seq(desc)
    if desc[0] == "bigframe":
        return _run_bigframe(desc)
    if desc[0] == "peaksearcher":
        return _run_peaksearcher(desc)
    if desc[0] == "sched":
        return _run_sched(desc)
    return _run_catalogue(desc)


def replay(case):
    if case.get("kind") == "dset":
        r = _run_dset(("dset", case["labels"], len(case["unions"])))
        return (not r.violations), {"violations": r.violations[:2]}
    if case.get("kind") == "callers":
        r = _run_callers(("callers",))
        v = [x for x in r.violations if x["case"]["calls"] == case["calls"]]
        return (not v), {"violations": v[:2]}
    from ImageD11 import labelimage
    sh = Shard()
    if case["kind"] == "seq":
        shape = tuple(case["shape"])
        F = len(case["frames"])
        frames = np.array([_bits_img(d, shape) for d in case["frames"]])
        inten = make_inten(F, shape)
        omegas = 10.0 + case["omega_step"] * np.arange(F)
        scale = case.get("intensity_scale", 1.0)
        exp, multi = expected_peaks(frames, inten * scale, omegas)
        rows = run_sequence(labelimage, frames, inten * scale, omegas, thr=0.5 * scale, bg=0.5 if case.get("background_equals_threshold") else 0.0)
        compare(sh, case, rows, exp)
        return (not sh.violations), {"rows": rows, "expected": exp, "violations": sh.violations}
    if case["kind"] == "peaksearcher":
        from ImageD11 import labelimage, peaksearcher
        nimg = 1 << (case["shape"][0] * case["shape"][1])
        q = sum(d * nimg ** k_ for k_, d in enumerate(case["frames"]))
        r = Shard()
        _peaksearcher_family(r, tuple(case["shape"]), len(case["frames"]), q, nimg ** len(case["frames"]), labelimage, peaksearcher)
        v = [x for x in r.violations if x["case"]["threshold"] == case["threshold"]]
        return (not v), {"violations": v}
    if case["kind"] == "bigframe":
        r = _run_bigframe(("bigframe",))
        v = [x for x in r.violations if x["case"]["omega_step"] == case["omega_step"]]
        return (not v), {"violations": v}
    if case["kind"] == "sched":
        r = _run_sched(("sched", (case["image"] - 1) % 4, 4, "quick" if case["shape"] == [3, 3] else "thorough"))
        v = [x for x in r.violations if x["case"]["image"] == case["image"]]
        return (not v), {"violations": v}
    r = _run_catalogue(("catalogue",))
    v = [x for x in r.violations if x["case"]["name"] == case["name"]]
    return (not v), {"violations": v}
