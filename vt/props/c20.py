"""C20 - compiled kernels never touch memory outside their arguments.

For every exported kernel of the image, sparse-image, labelling, overlap, geometry, scoring and
dark/flat families a table of well-formed calls at the boundary sizes the property names (2x2 ...
3x3 exhaustively, 2x17 / 17x2, > 16384 provisional labels; all subsets of a 3x3 sparse grid, nnz 0
where allowed, coordinates up to 65533; 0, 1, 4095, 4096, 4097 peaks; labels at capacity; histogram
values below / on / above the range) is executed under three monitors (vt/sani.py):
  asan  - python child under LD_PRELOAD=libasan.so, kernels from the -fsanitize=address,undefined build, every argument in an
          exactly sized heap block: any out-of-bounds access or UB aborts the child (reported with the sanitizer's message);
  diff  - -ftrivial-auto-var-init=zero vs =pattern builds: outputs must be identical (no read of uninitialised automatics);
  poison- two different poison fills of the pure outputs: promised outputs identical, and equal to the plain -O2 build.
"""
from __future__ import annotations
import ctypes, os, subprocess, sys
import numpy as np
from vt.runner import Shard
from vt import sani

LEVEL = "exploration"
RULE = ("cases = the calls of the per-kernel tables in vt/sani.py, each enumerated completely under every monitor; non-trivial = "
        "the call has at least one array argument with more than one element (so first/last element are distinct)")
ASSUMPTIONS = ["well-formed calls only: shapes and contents satisfy each kernel's documented preconditions (sorted sparse input, labels <= "
               "capacity, at least one pixel where the interface requires it)", "ASan/UBSan as built by gcc 12; exact-size blocks come from "
               "the interposed malloc so red zones are adjacent to every argument"]
MAXTASKS = 1


def plan(tier, seed):
    names = sani.group_names(tier)
    shards = [("asan", g, tier) for g in names] + [("diff", g, tier) for g in names] + [("stray", g, tier) for g in names] + \
        [("team", g, tier) for g in names] + [("wrapper", g, tier) for g in names] + [("sched", g, tier) for g in names]
    k = seed % len(shards)
    return shards[k:] + shards[:k]


def nprops():
    from ImageD11 import _cImageD11 as m
    return int(m.NPROPERTY), int(m.NPROPERTY2D)


def _libasan():
    return subprocess.check_output(["gcc", "-print-file-name=libasan.so"], text=True).strip()


def _run_asan(desc):
    _, group, tier = desc
    sh = Shard()
    root = os.environ["VT_ROOT"]
    lib = os.path.join(root, "lib", "libid11_asan.so")
    np3, np2 = nprops()
    work = os.path.join(os.path.dirname(os.path.dirname(os.path.dirname(os.path.abspath(__file__)))), ".work")
    os.makedirs(work, exist_ok=True)
    prog = os.path.join(work, "c20_%s_%d.progress" % (group, os.getpid()))
    env = dict(os.environ)
    env["LD_PRELOAD"] = _libasan()
    env["ASAN_OPTIONS"] = "detect_leaks=0:halt_on_error=1:exitcode=99:allocator_may_return_null=1:verify_asan_link_order=0"
    env["UBSAN_OPTIONS"] = "halt_on_error=1:print_stacktrace=0:exitcode=98"
    env["OMP_NUM_THREADS"] = "2"
    start = 0
    crashes = 0
    total = sum(1 for _ in sani.calls_of(group, tier))
    try:
        while start < total and crashes < 4:
            r = subprocess.run(["/venv/bin/python", "-m", "vt.sani_child", lib, group, tier, str(start), prog, str(np3), str(np2)], env=env,
                               stdout=subprocess.PIPE, stderr=subprocess.PIPE, text=True, timeout=3000)
            state = open(prog).read().split("\t") if os.path.exists(prog) else ["?", ""]
            if r.returncode == 0 and state[0] == "DONE":
                sh.evaluations += int(state[1])
                break
            crashes += 1
            idx = int(state[0]) if state[0].isdigit() else start
            msg = [l for l in r.stderr.splitlines() if "ERROR: AddressSanitizer" in l or "runtime error" in l or "SUMMARY" in l or "#0 " in l or "#1 " in l]
            sh.violation("sanitizer:%s" % (state[1].split("(")[0] if len(state) > 1 else group),
                         {"kind": "asan", "group": group, "tier": tier, "index": idx, "call": state[1].strip() if len(state) > 1 else ""},
                         {"exit": r.returncode, "report": msg[:8] or r.stderr[-600:]})
            sh.evaluations += max(0, idx - start)
            start = idx + 1
    finally:
        if os.path.exists(prog):
            os.remove(prog)
    sh.nontrivial += sh.evaluations
    sh.outcomes.add(("asan", group))
    sh.sample({"monitor": "asan+ubsan", "group": group, "calls": total}, limit=1)
    return sh


def _run_diff(desc):
    _, group, tier = desc
    sh = Shard()
    root = os.environ["VT_ROOT"]
    sani.NP_["NPROPERTY"], sani.NP_["NPROPERTY2D"] = nprops()
    libs = {k: ctypes.CDLL(os.path.join(root, "lib", "libid11_%s.so" % k)) for k in ("zero", "pat", "plain")}
    for k, L in libs.items():
        L.cimaged11_omp_set_num_threads(1)
    for idx, call in enumerate(sani.calls_of(group, tier)):
        case = {"kind": "diff", "group": group, "tier": tier, "index": idx, "call": call.describe()[:300]}
        res = {}
        for name, lib, poison in (("zero/A", libs["zero"], sani.POISON[0]), ("pat/A", libs["pat"], sani.POISON[0]), ("zero/B", libs["zero"], sani.POISON[1]),
                                  ("plain/A", libs["plain"], sani.POISON[0])):
            res[name] = sani.invoke(lib, call, exact=False, poison=poison)
        ref = res["zero/A"]

        def same(a, b):
            if a[0] != b[0] and not (isinstance(a[0], float) and abs(a[0] - b[0]) < 1e-12):
                return False
            return all(x.shape == y.shape and np.array_equal(x.view(np.uint8), y.view(np.uint8)) for x, y in zip(a[1], b[1]))
        if not same(ref, res["pat/A"]):
            sh.violation("uninitialised-automatic-variable:%s" % call.kernel, case, {"what": "outputs differ between -ftrivial-auto-var-init=zero and =pattern"})
        elif not same(ref, res["zero/B"]):
            sh.violation("output-depends-on-previous-buffer-content:%s" % call.kernel, case, {"what": "promised outputs differ for two poison fills"})
        elif not same_loose(ref, res["plain/A"]):
            sh.violation("optimised-build-differs:%s" % call.kernel, case, {"what": "-O2 build and -O0 zero-init build give different promised outputs"})
        sh.evaluations += 1
        if any(a[0] == "a" and a[1].size > 1 for a in call.args):
            sh.nontrivial += 1
        sh.outcomes.add(call.kernel)
    sh.sample({"monitor": "auto-init differential + double poison", "group": group, "last_call": case["call"]}, limit=1)
    return sh


def same_loose(a, b):
    """-O2 and -O0 may differ in floating point contraction: integers exact, floats to 1e-6 relative"""
    if isinstance(a[0], float) or isinstance(b[0], float):
        if a[0] is not None and b[0] is not None and abs(a[0] - b[0]) > 1e-9 * (1 + abs(a[0])):
            return False
    elif a[0] != b[0]:
        return False
    for x, y in zip(a[1], b[1]):
        if x.shape != y.shape:
            return False
        if np.issubdtype(x.dtype, np.floating):
            if not np.allclose(x, y, rtol=1e-5, atol=1e-6 * (1 + np.abs(x).max() if x.size else 1), equal_nan=True):
                return False
        elif not np.array_equal(x, y):
            return False
    return True


def _run_stray(desc):
    """every write of a kernel call must land in its arguments, in heap it allocated itself, or on the stack: the tsan-instrumented
    build on the vrt runtime sees every store of the whole call (callers mode); a store anywhere else is a write to static/global
    data, i.e. outside the arrays the kernel was handed"""
    _, group, tier = desc
    from vt.vrt import VRT, stray_writes_of
    sh = Shard()
    sani.NP_["NPROPERTY"], sani.NP_["NPROPERTY2D"] = nprops()
    V = VRT()
    seen_kernels = {}
    for idx, call in enumerate(sani.calls_of(group, tier)):
        k = call.kernel
        # a bounded number of calls per kernel (the first ones are the small shapes), every kernel at least 40 times
        if seen_kernels.get(k, 0) >= (40 if tier == "quick" else 400):
            continue
        if any(a[0] == "a" and a[1].nbytes > 2_000_000 for a in call.args):
            continue
        seen_kernels[k] = seen_kernels.get(k, 0) + 1
        r = stray_writes_of(V, call)
        if r is None:
            sh.count("calls_with_too_many_arguments_for_the_trampoline")
            continue
        if r[0] > 0:
            sh.violation("write-outside-arguments:%s" % k, {"kind": "stray", "group": group, "tier": tier, "index": idx, "call": call.describe()[:300]},
                         {"stores_outside": r[0], "first_address": hex(r[1]), "what": "the kernel stored to memory that is neither an argument, nor "
                          "heap it allocated, nor stack (static or global data)"})
        sh.evaluations += 1
        sh.nontrivial += 1
        sh.states += 1
        sh.outcomes.add(("stray", k))
    sh.sample({"monitor": "stores outside the arguments (vrt, whole call instrumented)", "group": group, "kernels": sorted(seen_kernels)}, limit=1)
    return sh


# kernels whose documented result depends on how the lines are dealt to the threads (a line without dark pixels inherits the average of
# the previous line OF THE SAME THREAD): DESIGN.md section 8.  They are still required to finish and to write every promised output.
TEAM_SIZE_DEPENDENT = ("frelon_lines", "frelon_lines_sub")


def _run_team(desc):
    """the kernels with OpenMP regions on the vrt runtime with teams of 2 and 3 threads while the runtime reports a LARGER maximum (what
    libgomp does under OMP_THREAD_LIMIT, OMP_DYNAMIC or inside another region): the promised outputs are fully written - the same for two
    different fills of the output arrays - and equal to those of a single thread"""
    _, group, tier = desc
    from vt.vrt import VRT, team_outputs
    sh = Shard()
    sani.NP_["NPROPERTY"], sani.NP_["NPROPERTY2D"] = nprops()
    V = VRT()
    seen = {}

    def same(a, b):
        return a[0] == b[0] and all(x.shape == y.shape and np.array_equal(x.view(np.uint8), y.view(np.uint8)) for x, y in zip(a[1], b[1]))
    for idx, call in enumerate(sani.calls_of(group, tier)):
        k = call.kernel
        if seen.get(k, 0) >= (25 if tier == "quick" else 200) or any(a[0] == "a" and a[1].nbytes > 200_000 for a in call.args):
            continue
        seen[k] = seen.get(k, 0) + 1
        ref = team_outputs(V, call, 1, 0, sani.POISON[0])
        if ref is None:
            continue
        case = {"kind": "team", "group": group, "tier": tier, "index": idx, "call": call.describe()[:300]}
        for T, mx in ((2, 3), (2, 5), (3, 4)):
            a_ = team_outputs(V, call, T, mx, sani.POISON[0])
            b_ = team_outputs(V, call, T, mx, sani.POISON[1])
            if a_[2] != ref[2]:
                sh.violation("team-smaller-than-reported-maximum:does-not-finish:%s" % k, dict(case, team=T, reported_max=mx), {"status": a_[2]})
                break
            if not same(a_, b_):
                sh.violation("team-smaller-than-reported-maximum:output-not-fully-written:%s" % k, dict(case, team=T, reported_max=mx),
                             {"what": "promised outputs differ for two fills of the output arrays"})
                break
            if k not in TEAM_SIZE_DEPENDENT and not same_loose(ref, a_):
                sh.violation("team-smaller-than-reported-maximum:differs-from-one-thread:%s" % k, dict(case, team=T, reported_max=mx), {})
                break
        sh.evaluations += 1
        sh.nontrivial += 1
        sh.states += 1
        sh.outcomes.add(("team", k))
    sh.sample({"monitor": "team smaller than the reported maximum (vrt)", "group": group, "kernels": sorted(seen)}, limit=1)
    return sh


def _run_sched(desc):
    """the kernels with OpenMP regions, every schedule of teams of 2 and 3 threads within one preemption (thorough: two) at the words more
    than one thread touches (vrt runtime): whatever the interleaving, the call writes what a single thread writes - a read of a word
    another thread of the team is writing shows up as an outcome that depends on the schedule"""
    _, group, tier = desc
    from vt.vrt import VRT, schedule_outcomes
    sh = Shard()
    sani.NP_["NPROPERTY"], sani.NP_["NPROPERTY2D"] = nprops()
    V = VRT()
    seen, execs, capped = {}, 0, 0
    for idx, call in enumerate(sani.calls_of(group, tier)):
        k = call.kernel
        if seen.get(k, 0) >= (6 if tier == "quick" else 40) or any(a[0] == "a" and a[1].nbytes > 1200 for a in call.args):
            continue
        r = schedule_outcomes(V, call, threads=(2, 3), bound=1 if tier == "quick" else 2, max_exec=3000 if tier == "quick" else 100000,
                              budget_s=4.0 if tier == "quick" else 15.0, same=same_loose)
        if r is None:
            continue
        bad, st = r
        if st["regions"] == 0:
            continue
        seen[k] = seen.get(k, 0) + 1
        execs += st["executions"]
        capped += bool(st["capped"])
        case = {"kind": "sched", "group": group, "tier": tier, "index": idx, "call": call.describe()[:300]}
        if bad:
            sh.violation("outcome-depends-on-the-thread-schedule:%s" % k, dict(case, team=bad[0][0], schedule=[int(x) for x in bad[0][1]]),
                         {"schedules_with_another_outcome": len(bad)})
        sh.evaluations += 1
        sh.nontrivial += 1
        sh.states += st["executions"]
        sh.outcomes.add(("sched", k))
    sh.count("schedules_executed", execs)
    sh.count("calls_capped_by_budget", capped)
    sh.sample({"monitor": "all schedules within the preemption bound (vrt)", "group": group, "kernels": sorted(seen)}, limit=1)
    return sh


WRAPPED = ("array_histogram", "bgcalc", "frelon_lines", "frelon_lines_sub", "blob_moments", "clean_mask", "localmaxlabel", "make_clean_mask",
           "mask_to_coo")


def _run_wrapper(desc):
    """the f2py interface in front of the kernels (src/_cImageD11.pyf hides the dimension arguments and computes them from the arrays): for
    the kernels whose wrapper takes exactly the C arguments minus the hidden ones, every call of the tables made THROUGH the python
    wrapper - arrays placed inside guard zones - writes what the direct call with the table's explicit dimensions writes, and nothing
    outside the arrays"""
    _, group, tier = desc
    import re
    from ImageD11 import cImageD11 as cI
    sh = Shard()
    sani.NP_["NPROPERTY"], sani.NP_["NPROPERTY2D"] = nprops()
    root = os.environ["VT_ROOT"]
    plain = ctypes.CDLL(os.path.join(root, "lib", "libid11_plain.so"))
    plain.cimaged11_omp_set_num_threads(1)
    pyf = open(os.path.join(os.environ["VT_REPO"], "src", "_cImageD11.pyf")).read()
    sig = {}
    for m in re.finditer(r"(?:subroutine|function)\s+(\w+)\s*\(([^)]*)\)", pyf):
        sig.setdefault(m.group(1), [a.strip() for a in m.group(2).split(",") if a.strip()])
    GUARD = 1024
    seen = {}
    for idx, call in enumerate(sani.calls_of(group, tier)):
        k = call.kernel
        if k not in WRAPPED or seen.get(k, 0) >= (60 if tier == "quick" else 600):
            continue
        fn = getattr(cI, k)
        vis = re.match(r"\s*(?:[\w, ]*=\s*)?\w+\(([^)\[]*)", fn.__doc__ or "")
        visible = [a.strip() for a in vis.group(1).split(",") if a.strip()] if vis else None
        full = sig.get(k)
        if visible is None or full is None or len(full) != len(call.args) or not all(v in full for v in visible):
            sh.count("calls_whose_wrapper_signature_does_not_map")
            continue
        seen[k] = seen.get(k, 0) + 1
        ref = sani.invoke(plain, call, exact=False, poison=None)
        arrs, wargs, bufs = [], [], []
        for name, a in zip(full, call.args):
            if a[0] == "a":
                src = a[1]
                buf = np.full(src.nbytes + 2 * GUARD, 0xA5, np.uint8)
                arr = buf[GUARD:GUARD + src.nbytes].view(src.dtype).reshape(src.shape)
                arr[...] = src
                bufs.append(buf)
                arrs.append((a, arr))
                if name in visible:
                    wargs.append((name, arr))
            elif name in visible:
                wargs.append((name, a[1]))
        wargs = [v for n_, v in sorted(wargs, key=lambda t: visible.index(t[0]))]
        case = {"kind": "wrapper", "group": group, "tier": tier, "index": idx, "call": call.describe()[:300]}
        try:
            fn(*wargs)
        except Exception as e:
            sh.violation("f2py-wrapper-refuses-a-call-the-kernel-accepts:%s" % k, case, {"error": repr(e)[:200]})
            continue
        if any((b[:GUARD] != 0xA5).any() or (b[-GUARD:] != 0xA5).any() for b in bufs):
            sh.violation("f2py-wrapper:write-outside-the-array:%s" % k, case, {})
            continue
        outs = []
        for a, arr in arrs:
            if a[2] in ("io", "out"):
                prom = a[3]
                outs.append(np.array(arr.reshape(-1)[prom(ref[0], arr)]) if prom is not None else np.array(arr))
        if not all(x.shape == y.shape and np.array_equal(x, y, equal_nan=(x.dtype.kind == "f")) for x, y in zip(outs, ref[1])):
            sh.violation("f2py-wrapper:result-differs-from-the-kernel-called-with-the-table's-dimensions:%s" % k, case, {})
        sh.evaluations += 1
        sh.nontrivial += 1
        sh.outcomes.add(("wrapper", k))
    sh.sample({"monitor": "f2py wrapper against the direct call, guard zones", "group": group, "kernels": sorted(seen)}, limit=1)
    return sh


def run_shard(desc):
    return {"asan": _run_asan, "diff": _run_diff, "stray": _run_stray, "team": _run_team, "wrapper": _run_wrapper, "sched": _run_sched}[desc[0]](desc)


def replay(case):
    r = run_shard((case["kind"], case["group"], case["tier"]))
    v = [x for x in r.violations if x["case"]["index"] == case["index"]]
    return (not v), {"violations": v[:2]}
