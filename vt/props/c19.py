"""C19 - scanning geometry is self-consistent; reconstructions land where it predicts.

Bounded exhaustive exploration:
 (A) conversions: positions on a 9x9 grid x omega (24 values) x y0 in {0, +-0.5, +-3.3, +-10} steps x
     ystep in {0.5, 1, 2.5} x odd/even reconstruction shapes: sample <-> lab <-> step <-> recon are
     mutual inverses; the dty said to bring a point into the beam gives lab y = 0 through every
     variant; the six dtyimask variants agree.
 (B) reconstruction: a point grain at each of 13 positions x ny in {40, 41} x y0 in {0, +-2.5, +-3.3}
     steps x 0-180 / 0-360 scans x pad in {minimum from sino_shift_and_pad, +8}: the sinogram is built
     with the module's own functions and reconstructed with run_iradon using the module's own shift
     and pad; the centroid of the maximum must lie within 1.5 px of sample_to_recon.  Linearity of
     the filtered back-projection, region-of-interest masks, workers 1..16.
 (E5) the ThreadPoolExecutor used by iradon is replaced (in the harness process only) by a virtual
     executor that runs the jobs in EVERY order (all permutations for <= 4 jobs) with every array
     reachable from the job closure made read-only: a job writing shared state raises, and all orders
     must give bit-identical images.
"""
from __future__ import annotations
import itertools, os
import numpy as np
from vt.runner import Shard
from vt import oracles as O

LEVEL = "exploration"
RULE = ("cases = (position, omega, y0, ystep, shape) grid points / (position, ny, y0, scan range, pad) reconstructions / job orders, "
        "all enumerated; non-trivial = y0 != 0 or even ny or off-centre grain")
ASSUMPTIONS = ["point-like grains inside the scanned disc with two sinogram rows of margin; 1 degree (0-180) or 2 degree (0-360) steps",
               "float32-level tolerances (1e-5 relative) for linearity / ROI / worker count; bit-identity for job orders"]

Y0S = (0.0, 0.5, -0.5, 3.3, -3.3, 10.0, -10.0)
YSTEPS = (0.5, 1.0, 2.5)
OMEGAS = np.array([-180.0, -135.5, -90.0, -61.0, -30.0, -1.0, 0.0, 0.5, 15.0, 45.0, 77.7, 90.0, 120.0, 150.0, 179.0, 180.0, 200.0, 270.0,
                   300.0, 359.0, 360.0, 400.0, 720.5, 1000.0])


def plan(tier, seed):
    shards = [("conv", yi, si) for yi in range(len(Y0S)) for si in range(len(YSTEPS))]
    pos = recon_positions()
    for pi in range(len(pos)):
        shards.append(("recon", pi, tier))
    shards.append(("linear", tier))
    shards.append(("orders",))
    shards.append(("filters", tier))
    shards.append(("outer", tier))
    shards.append(("grainsino", tier))
    shards.append(("pbpmask", tier))
    shards.append(("pbporigins", tier))
    for c in range(4):
        shards.append(("grainsino_build", c, 4, tier))
    k = seed % len(shards)
    return shards[k:] + shards[:k]


def close(a, b, tol=1e-10):
    a = np.asarray(a, float); b = np.asarray(b, float)
    return bool(np.all(np.abs(a - b) <= tol * (1.0 + np.abs(b))))


def _run_conv(desc):
    _, yi, si = desc
    from ImageD11.sinograms import geometry as G
    sh = Shard()
    ystep = YSTEPS[si]
    y0 = Y0S[yi] * ystep
    grid = np.linspace(-17.0, 17.0, 9) * ystep
    SX, SY, OM = np.meshgrid(grid, grid, OMEGAS, indexing="ij")
    sx, sy, om = SX.ravel(), SY.ravel(), OM.ravel()
    so, co = np.sin(np.radians(om)), np.cos(np.radians(om))
    case = {"kind": "conv", "y0": y0, "ystep": ystep}

    def bad(what, detail=None):
        sh.violation(what, case, detail or {})
    # no conversion may modify the arrays it is given
    keep = [a.copy() for a in (sx, sy, om, so, co)]
    dty1 = np.full(sx.shape, 3.0 * ystep)
    lx1, ly1 = G.sample_to_lab(sx, sy, y0, dty1, om)
    lkeep = (lx1.copy(), ly1.copy(), dty1.copy())
    for fn in (lambda: G.lab_to_sample(lx1, ly1, y0, dty1, om), lambda: G.lab_to_sample_sincos(lx1, ly1, y0, dty1, so, co),
               lambda: G.lab_to_step(lx1, ly1, y0, dty1, om, ystep), lambda: G.lab_to_recon(lx1, ly1, y0, dty1, om, (41, 41), ystep),
               lambda: G.sample_to_lab(sx, sy, y0, dty1, om), lambda: G.sample_to_lab_sincos(sx, sy, y0, dty1, so, co),
               lambda: G.sample_to_step(sx, sy, ystep), lambda: G.sample_to_recon(sx, sy, (41, 41), ystep),
               lambda: G.dty_values_grain_in_beam(sx, sy, y0, om), lambda: G.step_to_recon(sx, sy, (41, 41)), lambda: G.recon_to_sample(sx, sy, (41, 41), ystep)):
        fn()
        if not (all(np.array_equal(a, b) for a, b in zip((sx, sy, om, so, co), keep)) and np.array_equal(lx1, lkeep[0]) and
                np.array_equal(ly1, lkeep[1]) and np.array_equal(dty1, lkeep[2])):
            bad("conversion-modifies-its-input-arrays")
            sx, sy, om, so, co = [a.copy() for a in keep]
            lx1, ly1, dty1 = [a.copy() for a in lkeep]
    for dty_off in (0.0, 3.0 * ystep, -7.25 * ystep):
        dty = np.full(sx.shape, dty_off)
        lx, ly = G.sample_to_lab(sx, sy, y0, dty, om)
        bx, by = G.lab_to_sample(lx, ly, y0, dty, om)
        if not (close(bx, sx) and close(by, sy)): bad("sample->lab->sample")
        l2x, l2y = G.sample_to_lab_sincos(sx, sy, y0, dty, so, co)
        if not (close(l2x, lx) and close(l2y, ly)): bad("sample_to_lab_sincos-differs")
        b2x, b2y = G.lab_to_sample_sincos(lx, ly, y0, dty, so, co)
        if not (close(b2x, sx) and close(b2y, sy)): bad("lab_to_sample_sincos")
        # start from the lab side too
        cx, cy = G.sample_to_lab(*G.lab_to_sample(sx, sy, y0, dty, om), y0, dty, om)
        if not (close(cx, sx) and close(cy, sy)): bad("lab->sample->lab")
        for shape in ((40, 40), (41, 41), (40, 41), (57, 36)):
            si_, sj_ = G.lab_to_step(lx, ly, y0, dty, om, ystep)
            ex, ey = G.step_to_lab(si_, sj_, y0, dty, om, ystep)
            if not (close(ex, lx) and close(ey, ly)): bad("lab->step->lab")
            ri, rj = G.lab_to_recon(lx, ly, y0, dty, om, shape, ystep)
            fx, fy = G.recon_to_lab(ri, rj, y0, dty, om, shape, ystep)
            if not (close(fx, lx) and close(fy, ly)): bad("lab->recon->lab", {"shape": shape})
    for shape in ((40, 40), (41, 41), (40, 41), (57, 36)):
        si_, sj_ = G.sample_to_step(sx, sy, ystep)
        ax, ay = G.step_to_sample(si_, sj_, ystep)
        if not (close(ax, sx) and close(ay, sy)): bad("sample->step->sample")
        ri, rj = G.step_to_recon(si_, sj_, shape)
        ti, tj = G.recon_to_step(ri, rj, shape)
        if not (close(ti, si_) and close(tj, sj_)): bad("step->recon->step", {"shape": shape})
        r2i, r2j = G.sample_to_recon(sx, sy, shape, ystep)
        if not (close(r2i, ri) and close(r2j, rj)): bad("sample_to_recon-differs-from-composition", {"shape": shape})
        gx, gy = G.recon_to_sample(r2i, r2j, shape, ystep)
        if not (close(gx, sx) and close(gy, sy)): bad("sample->recon->sample", {"shape": shape})
        # the rotation axis (sample origin) sits at shape // 2
        oi, oj = G.sample_to_recon(0.0, 0.0, shape, ystep)
        if (oi, oj) != (shape[0] // 2, shape[1] // 2): bad("rotation-axis-not-at-shape//2", {"shape": shape, "got": [oi, oj]})
        # dty bringing the point into the beam: lab y = 0
        dtyb = G.recon_omega_to_dty(r2i, r2j, om, y0, shape, ystep)
        if np.abs(G.sample_to_lab(sx, sy, y0, dtyb, om)[1]).max() > 1e-9 * (1 + np.abs(sx).max()): bad("recon_omega_to_dty:lab-y-not-zero")
    for name, dtyb in (("dty_values_grain_in_beam", G.dty_values_grain_in_beam(sx, sy, y0, om)),
                       ("dty_values_grain_in_beam_sincos", G.dty_values_grain_in_beam_sincos(sx, sy, y0, so, co)),
                       ("x_y_y0_omega_to_dty", G.x_y_y0_omega_to_dty(om, sx, sy, y0)),
                       ("step_omega_to_dty", G.step_omega_to_dty(*G.sample_to_step(sx, sy, ystep), om, y0, ystep))):
        ly = G.sample_to_lab(sx, sy, y0, dtyb, om)[1]
        if np.abs(ly).max() > 1e-9 * (1 + np.abs(sx).max()):
            bad(name + ":lab-y-not-zero", {"max_ly": float(np.abs(ly).max())})
    # history: the caller's omega buffer (one array OBJECT) refilled in place between calls - every conversion that takes the angles
    # answers for the angles now in the array: lab y of the in-beam dty is zero, and the answer equals the one for a fresh copy
    buf = om.copy()
    dty_b = np.full(sx.shape, 3.0 * ystep)
    r_i, r_j = G.sample_to_recon(sx, sy, (41, 41), ystep)
    s_i, s_j = G.sample_to_step(sx, sy, ystep)
    convs = {"dty_values_grain_in_beam": lambda o: G.dty_values_grain_in_beam(sx, sy, y0, o),
             "x_y_y0_omega_to_dty": lambda o: G.x_y_y0_omega_to_dty(o, sx, sy, y0),
             "step_omega_to_dty": lambda o: G.step_omega_to_dty(s_i, s_j, o, y0, ystep),
             "recon_omega_to_dty": lambda o: G.recon_omega_to_dty(r_i, r_j, o, y0, (41, 41), ystep),
             "sample_to_lab": lambda o: np.array(G.sample_to_lab(sx, sy, y0, dty_b, o)),
             "lab_to_sample": lambda o: np.array(G.lab_to_sample(sx, sy, y0, dty_b, o)),
             "lab_to_step": lambda o: np.array(G.lab_to_step(sx, sy, y0, dty_b, o, ystep)),
             "step_to_lab": lambda o: np.array(G.step_to_lab(s_i, s_j, y0, dty_b, o, ystep))}
    for fill in (None, lambda b: b.__iadd__(180.0), lambda b: b.__imul__(-1.0), lambda b: b.__setitem__(slice(None), om[::-1] + 37.5)):
        if fill is not None:
            fill(buf)
        gots = {name: fn(buf) for name, fn in convs.items()}        # the caller only ever passes its one buffer ...
        wants = {name: fn(buf.copy()) for name, fn in convs.items()}
        for name, fn in convs.items():
            fn(buf)                                                    # ... and the last call before the next refill used it too
        for name, fn in convs.items():
            got, want = gots[name], wants[name]
            if not np.array_equal(got, want):
                bad(name + ":stale-answer-after-the-omega-array-was-refilled-in-place", {"max_diff": float(np.abs(np.asarray(got) - np.asarray(want)).max())})
            elif name.endswith("dty") or name.startswith("dty"):
                ly = G.sample_to_lab(sx, sy, y0, got, buf.copy())[1]
                if np.abs(ly).max() > 1e-9 * (1 + np.abs(sx).max()):
                    bad(name + ":lab-y-not-zero[refilled omega array]", {"max_ly": float(np.abs(ly).max())})
        sh.evaluations += len(convs)
    # dtyi masks: the six variants agree, true on the computed bin, false one bin away
    ymin = -20.0 * ystep
    dtyb = G.dty_values_grain_in_beam(sx, sy, y0, om)
    frac = (dtyb - ymin) / ystep
    safe = np.abs(frac - np.round(frac)) < 0.49           # away from the rounding boundary
    dtyi = G.dty_to_dtyi(dtyb, ystep, ymin)
    if not close(G.dtyi_to_dty(dtyi, ystep, ymin), ymin + dtyi * ystep): bad("dtyi_to_dty")
    if not np.array_equal(G.dty_to_dtyi(G.dtyi_to_dty(dtyi, ystep, ymin), ystep, ymin), dtyi): bad("dtyi->dty->dtyi")
    shape = (41, 41)
    si_, sj_ = G.sample_to_step(sx, sy, ystep)
    ri, rj = G.sample_to_recon(sx, sy, shape, ystep)
    for off, expect in ((0, True), (1, False), (-1, False)):
        masks = {"sample": G.dtyimask_from_sample(sx, sy, om, dtyi + off, y0, ystep, ymin),
                 "sample_sincos": G.dtyimask_from_sample_sincos(sx, sy, so, co, dtyi + off, y0, ystep, ymin),
                 "step": G.dtyimask_from_step(si_, sj_, om, dtyi + off, y0, ystep, ymin),
                 "step_sincos": G.dtyimask_from_step_sincos(si_, sj_, so, co, dtyi + off, y0, ystep, ymin),
                 "recon": G.dtyimask_from_recon(ri, rj, om, dtyi + off, y0, ystep, ymin, shape),
                 "recon_sincos": G.dtyimask_from_recon_sincos(ri, rj, so, co, dtyi + off, y0, ystep, ymin, shape)}
        for nm, m in masks.items():
            if not (m[safe] == expect).all():
                bad("dtyimask_from_%s:wrong" % nm, {"offset": off, "n_wrong": int((m[safe] != expect).sum())})
    # integer versions are the composition of the float version and the binning
    for nm, got_, want_ in (("step_omega_to_dtyi", G.step_omega_to_dtyi(si_, sj_, om, y0, ystep, ymin), G.dty_to_dtyi(G.step_omega_to_dty(si_, sj_, om, y0, ystep), ystep, ymin)),
                            ("recon_omega_to_dtyi", G.recon_omega_to_dtyi(ri, rj, om, y0, shape, ystep, ymin),
                             G.dty_to_dtyi(G.recon_omega_to_dty(ri, rj, om, y0, shape, ystep), ystep, ymin))):
        if not np.array_equal(got_[safe], want_[safe]) or not np.array_equal(want_[safe], dtyi[safe]):
            bad(nm + ":differs-from-binning-the-float-value")
    # the inverse by fitting: the (omega, dty) curve of a point gives back the point and the axis offset
    om_fit = np.arange(0.0, 360.0, 7.5)
    for px, py in ((2.0 * ystep, -3.5 * ystep), (-9.0 * ystep, 6.25 * ystep), (0.25 * ystep, 12.0 * ystep)):
        d_fit = G.dty_values_grain_in_beam(px, py, y0, om_fit)
        fx, fy, fy0 = G.sx_sy_y0_from_dty_omega(d_fit, om_fit)
        if max(abs(fx - px), abs(fy - py), abs(fy0 - y0)) > 1e-4 * ystep:
            bad("sx_sy_y0_from_dty_omega:does-not-recover-the-point", {"point": [px, py], "y0": y0, "fit": [float(fx), float(fy), float(fy0)]})
    # the point-by-point copy of the in-beam condition (numba get_voxel_idx): for one sample point and a table of (omega, dty) peaks, the
    # distance it reports is |dty - dty that brings the point into the beam| and it selects the peaks within one step
    from ImageD11.sinograms import point_by_point as PBP
    om1 = np.asarray(OMEGAS, float)
    so1, co1 = np.sin(np.radians(om1)), np.cos(np.radians(om1))
    for px, py in ((0.0, 0.0), (3.0 * ystep, -4.5 * ystep), (-11.25 * ystep, 7.0 * ystep)):
        want_dty = G.dty_values_grain_in_beam_sincos(px, py, y0, so1, co1)
        for doff in (0.0, 0.3 * ystep, -0.97 * ystep, 1.5 * ystep, -4.0 * ystep):
            dty_pk = want_dty + doff
            idx, ydist = PBP.get_voxel_idx(y0, px, py, so1, co1, dty_pk, ystep)
            sel = np.zeros(len(om1), bool); sel[idx] = True
            if not close(ydist, np.abs(want_dty - dty_pk), 1e-9) or not np.array_equal(sel, np.full(len(om1), abs(doff) <= ystep)):
                bad("point_by_point.get_voxel_idx:differs-from-geometry", {"point": [px, py], "dty_offset": doff, "selected": int(sel.sum())})
    sh.evaluations += len(sx)
    if y0 != 0:
        sh.nontrivial += len(sx)
    sh.outcomes.add((yi, si))
    sh.sample(dict(case, sx=float(sx[100]), sy=float(sy[100]), omega=float(om[100])), limit=1)
    return sh


def recon_positions():
    return [(0.0, 0.0), (5.0, 0.0), (0.0, 5.0), (-5.0, 0.0), (0.0, -5.0), (7.3, 4.1), (-6.2, 8.4), (3.5, -9.25), (-8.0, -3.0), (1.5, 1.5),
            (10.0, 0.0), (0.0, -10.5), (-2.25, 6.75)]


def point_sino(G, sx, sy, y0, ny, ymin, ystep, omega):
    dty = G.dty_values_grain_in_beam(sx, sy, y0, omega)
    row = (dty - ymin) / ystep
    sino = np.zeros((ny, len(omega)), np.float32)
    lo = np.floor(row).astype(int)
    w = row - lo
    ok = (lo >= 0) & (lo + 1 < ny)
    k = np.arange(len(omega))
    sino[lo[ok], k[ok]] += (1 - w[ok])
    sino[lo[ok] + 1, k[ok]] += w[ok]
    return sino, bool(ok.all())


def centroid_of_max(img, half=3):
    i, j = np.unravel_index(np.argmax(img), img.shape)
    i0, i1 = max(0, i - half), min(img.shape[0], i + half + 1)
    j0, j1 = max(0, j - half), min(img.shape[1], j + half + 1)
    win = np.clip(img[i0:i1, j0:j1], 0, None)
    I, J = np.mgrid[i0:i1, j0:j1]
    return float((I * win).sum() / win.sum()), float((J * win).sum() / win.sum())


def _run_recon(desc):
    _, pi, tier = desc
    from ImageD11.sinograms import geometry as G, roi_iradon as R
    sh = Shard()
    px, py = recon_positions()[pi]
    ystep = 1.0 if tier == "quick" else None
    for ystep in ((1.0,) if tier == "quick" else (1.0, 0.5, 2.5)):
        sx, sy = px * ystep, py * ystep
        for ny in (40, 41):
            ymin = -(ny // 2) * ystep
            for y0s in (0.0, 2.5, -2.5, 3.3, -3.3):
                y0 = y0s * ystep
                # ... and a scan with exactly as many projections as dty steps (a square sinogram)
                for rng_name, omega in (("0-180", np.arange(0.0, 180.0, 1.0)), ("0-360", np.arange(0.0, 360.0, 2.0)),
                                        ("0-180 in ny projections", np.arange(ny) * (180.0 / ny))):
                    sino, inside = point_sino(G, sx, sy, y0, ny, ymin, ystep, omega)
                    if not inside:
                        sh.count("skipped_grain_leaves_scanned_range")
                        continue
                    shift, pad0 = G.sino_shift_and_pad(y0, ny, ymin, ystep)
                    for extra in (0, 8):
                        pad = int(pad0) + extra
                        case = {"kind": "recon", "sx": sx, "sy": sy, "ny": ny, "y0": y0, "ystep": ystep, "range": rng_name, "pad": pad,
                                "shift": float(shift)}
                        rec = R.run_iradon(sino, omega, pad=pad, shift=shift, workers=1)
                        ri, rj = G.sample_to_recon(sx, sy, rec.shape, ystep)
                        ci, cj = centroid_of_max(rec)
                        err = float(np.hypot(ci - ri, cj - rj))
                        if not np.isfinite(err) or err > 1.5:
                            sh.violation("reconstruction-not-where-geometry-predicts", case, {"predicted": [float(ri), float(rj)], "found": [ci, cj],
                                                                                             "error_px": err, "recon_shape": list(rec.shape)})
                        sh.counters["max_centroid_error_milli_px"] = max(sh.counters.get("max_centroid_error_milli_px", 0), int(err * 1000))
                        if extra == 0 and y0s in (2.5, -3.3):
                            # the other interpolation schemes of iradon (run_iradon always asks for "linear"), same shift and pad
                            for kind in ("nearest", "cubic"):
                                rec2 = R.iradon(sino, theta=omega, output_size=ny + pad, projection_shifts=np.full(sino.shape, shift),
                                                filter_name="hamming", interpolation=kind, workers=1)
                                c2i, c2j = centroid_of_max(rec2)
                                err2 = float(np.hypot(c2i - ri, c2j - rj))
                                if rec2.shape != rec.shape or not np.isfinite(err2) or err2 > 1.5:
                                    sh.violation("reconstruction-not-where-geometry-predicts[interpolation=%s]" % kind, dict(case, interpolation=kind),
                                                 {"predicted": [float(ri), float(rj)], "found": [c2i, c2j], "error_px": err2})
                                sh.counters["max_centroid_error_milli_px[%s]" % kind] = max(sh.counters.get("max_centroid_error_milli_px[%s]" % kind, 0), int(err2 * 1000))
                                sh.evaluations += 1
                        if extra == 0 and rng_name == "0-180":
                            # the module's own locator (blob search on the image, then recon -> sample): whole-pixel resolution, so a
                            # looser bound; what it guards is the conversion back to sample coordinates
                            fp = G.fit_sample_position_from_recon(rec, ystep)
                            if fp is not None:
                                ferr = float(np.hypot(fp[0] - sx, fp[1] - sy)) / ystep
                                sh.counters["max_fit_position_error_milli_px"] = max(sh.counters.get("max_fit_position_error_milli_px", 0), int(ferr * 1000))
                                if ferr > 2.5:
                                    sh.violation("fit_sample_position_from_recon:far-from-the-grain", case, {"found": [float(fp[0]), float(fp[1])], "error_px": ferr})
                        sh.evaluations += 1
                        if y0 != 0 or ny % 2 == 0 or (px, py) != (0.0, 0.0):
                            sh.nontrivial += 1
                        sh.outcomes.add((ny, y0s, rng_name, extra))
    sh.sample(case, limit=1)
    return sh


def _run_outer(desc):
    """grains in the outer part of the scanned disc (0.9 and 0.97 of its radius, i.e. beyond the circle that stays in the beam for the
    whole turn when the axis is off-centre): only the projections that were measured enter the sinogram; with the module's own shift
    and pad the reconstruction frame must contain the predicted position and the grain must be there (1.5 px)"""
    _, tier = desc
    from ImageD11.sinograms import geometry as G, roi_iradon as R
    sh = Shard()
    for ystep in ((1.0,) if tier == "quick" else (1.0, 0.5)):
        for ny in (40, 41):
            ymin = -(ny // 2) * ystep
            for y0s in (2.5, -2.5, 3.3, -3.3):
                y0 = y0s * ystep
                shift, pad = G.sino_shift_and_pad(y0, ny, ymin, ystep)
                for frac in (0.9, 0.97):
                    for ang in (10.0, 100.0, 200.0, 290.0, 45.0, 225.0):
                        r_ = frac * (ny / 2) * ystep
                        sx, sy = r_ * np.cos(np.radians(ang)), r_ * np.sin(np.radians(ang))
                        for rng_name, omega in (("0-180", np.arange(0.0, 180.0, 1.0)), ("0-360", np.arange(0.0, 360.0, 2.0))):
                            dty = G.dty_values_grain_in_beam(sx, sy, y0, omega)
                            row = (dty - ymin) / ystep
                            lo = np.floor(row).astype(int)
                            w = row - lo
                            ok = (lo >= 0) & (lo + 1 < ny)
                            sino = np.zeros((ny, len(omega)), np.float32)
                            k = np.arange(len(omega))
                            sino[lo[ok], k[ok]] += 1 - w[ok]
                            sino[lo[ok] + 1, k[ok]] += w[ok]
                            case = {"kind": "outer", "sx": sx, "sy": sy, "ny": ny, "y0": y0, "ystep": ystep, "range": rng_name, "pad": int(pad), "shift": float(shift),
                                    "fraction_of_projections_measured": float(ok.mean())}
                            rec = R.run_iradon(sino, omega, pad=int(pad), shift=shift, workers=1)
                            ri, rj = G.sample_to_recon(sx, sy, rec.shape, ystep)
                            if not (0 <= ri < rec.shape[0] and 0 <= rj < rec.shape[1]):
                                sh.violation("reconstruction-frame-does-not-contain-the-predicted-position", case, {"predicted": [float(ri), float(rj)], "recon_shape": list(rec.shape)})
                                continue
                            ci, cj = centroid_of_max(rec)
                            err = float(np.hypot(ci - ri, cj - rj))
                            if not np.isfinite(err) or err > 1.5:
                                sh.violation("reconstruction-not-where-geometry-predicts", case, {"predicted": [float(ri), float(rj)], "found": [ci, cj], "error_px": err})
                            sh.counters["max_outer_error_milli_px"] = max(sh.counters.get("max_outer_error_milli_px", 0), int(err * 1000))
                            sh.evaluations += 1
                            sh.nontrivial += 1
    sh.sample(case, limit=1)
    return sh


def _run_linear(desc):
    _, tier = desc
    from ImageD11.sinograms import geometry as G, roi_iradon as R
    sh = Shard()
    ny, ystep = 41, 1.0
    ymin = -(ny // 2) * ystep
    omega = np.arange(0.0, 180.0, 1.0)
    y0 = 2.5
    shift, pad = G.sino_shift_and_pad(y0, ny, ymin, ystep)
    pad = int(pad)
    s1, _ = point_sino(G, 5.0, -3.0, y0, ny, ymin, ystep, omega)
    s2, _ = point_sino(G, -7.5, 4.25, y0, ny, ymin, ystep, omega)
    s3 = (np.add.outer(np.arange(ny), np.arange(len(omega))) % 7 == 0).astype(np.float32)
    r = {}
    for name, s in (("s1", s1), ("s2", s2), ("s3", s3)):
        r[name] = R.run_iradon(s, omega, pad=pad, shift=shift, workers=1)
    scale = max(np.abs(v).max() for v in r.values())
    for (a, b) in ((2.0, 3.0), (1.0, -1.0), (0.5, 0.25), (-4.0, 0.0)):
        for n1, n2 in (("s1", "s2"), ("s1", "s3"), ("s3", "s2")):
            sa = {"s1": s1, "s2": s2, "s3": s3}
            comb = R.run_iradon((a * sa[n1] + b * sa[n2]).astype(np.float32), omega, pad=pad, shift=shift, workers=1)
            want = a * r[n1] + b * r[n2]
            case = {"kind": "linear", "a": a, "b": b, "sinos": [n1, n2]}
            if np.abs(comb - want).max() > 1e-4 * scale * (abs(a) + abs(b)):
                sh.violation("iradon-not-linear", case, {"max_diff": float(np.abs(comb - want).max()), "scale": float(scale)})
            sh.evaluations += 1
            sh.nontrivial += 1
    # region of interest masks
    full = r["s1"] + 0
    n = full.shape[0]
    I, J = np.mgrid[0:n, 0:n]
    masks = {"single_pixel": (I == n // 2 + 5) & (J == n // 2 - 3), "row": I == 7, "disc": (I - n / 2) ** 2 + (J - n / 2) ** 2 < (n / 3) ** 2,
             "complement": ~((I - n / 2) ** 2 + (J - n / 2) ** 2 < (n / 3) ** 2), "all": np.ones((n, n), bool), "column": J == n - 1,
             "checker": (I + J) % 2 == 0}
    for name, m in masks.items():
        for nm in ("s1", "s3"):
            s = {"s1": s1, "s3": s3}[nm]
            roi = R.run_iradon(s, omega, pad=pad, shift=shift, workers=1, mask=m)
            case = {"kind": "roi", "mask": name, "sino": nm}
            if np.abs(roi[m] - r[nm][m]).max() > 1e-5 * scale:
                sh.violation("roi-mask-changes-values", case, {"max_diff": float(np.abs(roi[m] - r[nm][m]).max())})
            if np.abs(roi[~m]).max(initial=0) != 0:
                sh.violation("roi-mask-writes-outside-mask", case, {})
            sh.evaluations += 1
            sh.nontrivial += 1
    # worker counts
    for w in ((2, 3, 4, 8, 16) if tier == "quick" else range(2, 17)):
        for nm, s in (("s1", s1), ("s3", s3)):
            for m in (None, masks["disc"]):
                rw = R.run_iradon(s, omega, pad=pad, shift=shift, workers=w, mask=m)
                ref = R.run_iradon(s, omega, pad=pad, shift=shift, workers=1, mask=m)
                if np.abs(rw - ref).max() > 1e-5 * scale:
                    sh.violation("worker-count-changes-result", {"kind": "workers", "workers": w, "sino": nm, "mask": m is not None},
                                 {"max_diff": float(np.abs(rw - ref).max())})
                sh.evaluations += 1
                sh.nontrivial += 1
    sh.sample({"kind": "linear/roi/workers", "recon_shape": list(full.shape)})
    return sh


class VirtualExecutor:
    """stands in for concurrent.futures.ThreadPoolExecutor inside roi_iradon: runs the submitted jobs one after the other in a
    prescribed ORDER, with every numpy array reachable from the job's closure read-only while it runs; results come back in
    submission order, as pool.map does"""
    order = None          # permutation of job indices, set by the explorer
    seen_jobs = 0
    frozen = 0

    def __init__(self, max_workers=None):
        self.max_workers = max_workers

    def __enter__(self):
        return self

    def __exit__(self, *a):
        return False

    def map(self, fn, jobs):
        jobs = list(jobs)
        VirtualExecutor.seen_jobs = len(jobs)
        arrays = []
        for cell in (fn.__closure__ or ()):
            try:
                v = cell.cell_contents
            except ValueError:
                continue
            if isinstance(v, np.ndarray) and v.flags.writeable:
                arrays.append(v)
        order = VirtualExecutor.order or list(range(len(jobs)))
        results = [None] * len(jobs)
        for a in arrays:
            a.flags.writeable = False
        VirtualExecutor.frozen = len(arrays)
        try:
            for k in order:
                results[k] = fn(jobs[k])
        finally:
            for a in arrays:
                a.flags.writeable = True
        return iter(results)


def _run_orders(desc):
    from ImageD11.sinograms import geometry as G, roi_iradon as R
    import concurrent.futures as cf
    sh = Shard()
    ny, ystep = 24, 1.0
    ymin = -(ny // 2) * ystep
    omega = np.arange(0.0, 180.0, 3.0)
    y0 = -1.5
    shift, pad = G.sino_shift_and_pad(y0, ny, ymin, ystep)
    s1, _ = point_sino(G, 3.0, -2.0, y0, ny, ymin, ystep, omega)
    s1 += (np.add.outer(np.arange(ny), np.arange(len(omega))) % 5 == 0).astype(np.float32) * 0.1
    real = R.concurrent.futures.ThreadPoolExecutor
    try:
        R.concurrent.futures.ThreadPoolExecutor = VirtualExecutor
        for workers in (2, 3, 4, 6):
            n = workers
            perms = list(itertools.permutations(range(n))) if n <= 4 else \
                [tuple(np.roll(np.arange(n), k)) for k in range(n)] + [tuple(range(n))[::-1]]
            for mask in (None, "disc"):
                m = None
                if mask:
                    nn = ny + int(pad)
                    I, J = np.mgrid[0:nn, 0:nn]
                    m = (I - nn / 2) ** 2 + (J - nn / 2) ** 2 < (nn / 3) ** 2
                ref = None
                for p in perms:
                    VirtualExecutor.order = list(p)
                    case = {"kind": "orders", "workers": workers, "order": list(p), "mask": mask}
                    try:
                        rec = R.run_iradon(s1, omega, pad=int(pad), shift=shift, workers=workers, mask=m)
                    except ValueError as e:
                        sh.violation("iradon-job-writes-shared-state", case, {"error": str(e)[:200]})
                        break
                    if VirtualExecutor.seen_jobs != workers or VirtualExecutor.frozen == 0:
                        raise RuntimeError("virtual executor was not used as expected (jobs=%d frozen=%d)" % (VirtualExecutor.seen_jobs, VirtualExecutor.frozen))
                    if ref is None:
                        ref = rec
                    elif not np.array_equal(ref, rec):
                        sh.violation("iradon-result-depends-on-job-order", case, {"max_diff": float(np.abs(ref - rec).max())})
                        break
                    sh.evaluations += 1
                    sh.nontrivial += 1
                    sh.states += 1
    finally:
        R.concurrent.futures.ThreadPoolExecutor = real
        VirtualExecutor.order = None
    # and the real executor gives the same image as the virtual one in submission order
    sh.sample({"kind": "orders", "workers": [2, 3, 4, 6], "jobs_frozen_arrays": VirtualExecutor.frozen})
    return sh


FILTERS = ("ramp", "shepp-logan", "cosine", "hamming", "hann", None)


def _run_filters(desc):
    """every filter of the back-projection, in every ordered pair (thorough: triple) of calls within one process: a call's image is the
    one the same call gives in a fresh history (the first call of each filter), for 1 and 3 workers and under a region mask, and it
    is linear"""
    _, tier = desc
    from ImageD11.sinograms import geometry as G, roi_iradon as R
    sh = Shard()
    ny, ystep = 32, 1.0
    ymin = -(ny // 2) * ystep
    omega = np.arange(0.0, 180.0, 2.0)
    y0 = 1.5
    shift, pad = G.sino_shift_and_pad(y0, ny, ymin, ystep)
    pad = int(pad)
    s1, _ = point_sino(G, 4.0, -3.0, y0, ny, ymin, ystep, omega)
    s2 = (np.add.outer(np.arange(ny), np.arange(len(omega))) % 6 == 0).astype(np.float32)
    first = {}
    depth = 2 if tier == "quick" else 3
    for seq in itertools.product(range(len(FILTERS)), repeat=depth):
        for pos, fi in enumerate(seq):
            f = FILTERS[fi]
            rec = R.run_iradon(s1, omega, pad=pad, shift=shift, workers=1, filter_name=f)
            case = {"kind": "filters", "history": [str(FILTERS[k]) for k in seq[:pos + 1]]}
            if fi not in first:
                first[fi] = rec.copy()
            elif not np.array_equal(rec, first[fi]):
                sh.violation("iradon:image-depends-on-earlier-calls-in-the-process", case, {"max_diff": float(np.abs(rec - first[fi]).max()),
                                                                                         "scale": float(np.abs(first[fi]).max())})
                return sh
            sh.evaluations += 1
            sh.nontrivial += 1
    nn = first[0].shape[0]
    I, J = np.mgrid[0:nn, 0:nn]
    disc = (I - nn / 2) ** 2 + (J - nn / 2) ** 2 < (nn / 3) ** 2
    for fi, f in enumerate(FILTERS):
        scale = np.abs(first[fi]).max()
        case = {"kind": "filters", "history": [str(f)], "filter": str(f)}
        r3 = R.run_iradon(s1, omega, pad=pad, shift=shift, workers=3, filter_name=f)
        if np.abs(r3 - first[fi]).max() > 1e-5 * scale:
            sh.violation("worker-count-changes-result", dict(case, workers=3), {"max_diff": float(np.abs(r3 - first[fi]).max())})
        rm = R.run_iradon(s1, omega, pad=pad, shift=shift, workers=2, filter_name=f, mask=disc)
        if np.abs(rm[disc] - first[fi][disc]).max() > 1e-5 * scale:
            sh.violation("roi-mask-changes-values", dict(case, mask="disc"), {"max_diff": float(np.abs(rm[disc] - first[fi][disc]).max())})
        rb = R.run_iradon(s2, omega, pad=pad, shift=shift, workers=1, filter_name=f)
        rc = R.run_iradon((2.0 * s1 - 0.5 * s2).astype(np.float32), omega, pad=pad, shift=shift, workers=1, filter_name=f)
        sc2 = max(scale, np.abs(rb).max())
        if np.abs(rc - (2.0 * first[fi] - 0.5 * rb)).max() > 1e-4 * sc2 * 2.5:
            sh.violation("iradon-not-linear", dict(case, a=2.0, b=-0.5), {"max_diff": float(np.abs(rc - (2.0 * first[fi] - 0.5 * rb)).max())})
        ri, rj = G.sample_to_recon(4.0, -3.0, first[fi].shape, ystep)
        ci, cj = centroid_of_max(first[fi])
        if f is not None and np.hypot(ci - ri, cj - rj) > 1.5:
            sh.violation("reconstruction-not-where-geometry-predicts", dict(case, sx=4.0, sy=-3.0), {"found": [ci, cj], "predicted": [float(ri), float(rj)]})
        sh.evaluations += 4
        sh.outcomes.add(("filter", str(f)))
    sh.sample(case, limit=1)
    return sh


def _run_grainsino(desc):
    """the GrainSinogram route (update_recon_parameters + recon): ONE object taken through every sequence (length <= 3) of scan settings,
    among them the ones whose shift is exactly 0; the last reconstruction equals run_iradon with that setting's own shift and pad and
    shows the point grain where the geometry predicts"""
    _, tier = desc
    from ImageD11.sinograms import geometry as G, roi_iradon as R, sinogram as SG
    from ImageD11 import grain as _grain
    from ImageD11.sinograms import dataset as _dsm
    import io, contextlib
    with contextlib.redirect_stdout(io.StringIO()):
        _ds = _dsm.DataSet(dataroot=".", analysisroot=".", sample="s", dset="d")
    sh = Shard()
    ystep = 1.0
    omega = np.arange(0.0, 180.0, 2.0)
    settings = [(40, 2.5), (40, 0.0), (40, -3.3), (41, 0.5), (41, -2.0)]
    sx, sy = 5.0, -4.0
    prepared = []
    for ny, y0 in settings:
        ymin = -(ny // 2) * ystep
        sino, inside = point_sino(G, sx, sy, y0, ny, ymin, ystep, omega)
        shift, pad = G.sino_shift_and_pad(y0, ny, ymin, ystep)
        want = R.run_iradon(sino, omega, pad=int(pad), shift=shift, workers=1)
        prepared.append((sino, shift, int(pad), y0, want))
    depth = 3 if tier == "quick" else 4
    for L in range(1, depth + 1):
        for seq in itertools.product(range(len(settings)), repeat=L):
            gs = SG.GrainSinogram(_grain.grain(np.eye(3) * 4.0), _ds)
            gs.sinoangles = omega
            for k in seq[:-1]:
                sino, shift, pad, y0, want = prepared[k]
                gs.ssino = sino
                gs.update_recon_parameters(pad=pad, shift=shift, y0=y0)
            sino, shift, pad, y0, want = prepared[seq[-1]]
            gs.ssino = sino
            gs.update_recon_parameters(pad=pad, shift=shift, y0=y0)
            rec = gs.recon(method="iradon", workers=1)
            case = {"kind": "grainsino", "settings(ny,y0)": [list(settings[k]) for k in seq], "shifts": [float(prepared[k][1]) for k in seq]}
            if (gs.recon_pad, gs.recon_shift, gs.recon_y0) != (pad, shift, y0):
                sh.violation("GrainSinogram.update_recon_parameters:value-not-stored", case, {"stored": [gs.recon_pad, gs.recon_shift, gs.recon_y0],
                                                                                            "given": [pad, float(shift), y0]})
                return sh
            if rec.shape != want.shape or not np.array_equal(rec, want):
                sh.violation("GrainSinogram.recon:differs-from-run_iradon-with-the-same-shift-and-pad", case, {"shape": list(rec.shape), "expected_shape": list(want.shape)})
                return sh
            ri, rj = G.sample_to_recon(sx, sy, rec.shape, ystep)
            ci, cj = centroid_of_max(rec)
            if np.hypot(ci - ri, cj - rj) > 1.5:
                sh.violation("reconstruction-not-where-geometry-predicts", dict(case, sx=sx, sy=sy), {"found": [ci, cj], "predicted": [float(ri), float(rj)]})
                return sh
            if L == 1:
                # a sub-set of the projections, named in each of the ways numpy indexing allows (index list, range, slice-like array,
                # boolean mask): the same reconstruction as run_iradon on that sub-sinogram
                sel = np.arange(len(omega)) % 3 != 1
                want_sub = R.run_iradon(np.ascontiguousarray(sino[:, sel]), omega[sel], pad=pad, shift=shift, workers=1)
                for how, proj in (("index array", np.nonzero(sel)[0]), ("list", [int(q) for q in np.nonzero(sel)[0]]), ("boolean mask", sel.copy())):
                    with contextlib.redirect_stdout(io.StringIO()):
                        rsub = gs.recon(method="iradon", workers=1, projections=proj)
                    if rsub.shape != want_sub.shape or not np.allclose(rsub, want_sub, rtol=0, atol=1e-9 * max(1.0, np.abs(want_sub).max())):
                        sh.violation("GrainSinogram.recon[projections=%s]:differs-from-run_iradon-on-the-selected-projections" % how, case, {})
                        return sh
                    sh.evaluations += 1
            sh.evaluations += 1
            if L > 1:
                sh.nontrivial += 1
    sh.outcomes.add("grainsino")
    sh.sample(case, limit=1)
    return sh


def _run_pbpmask(desc):
    """the whole-sample reconstruction inside point_by_point (PBPRefine.setmap + setmask: sinogram of all peaks, the module's own shift,
    a pad that makes the image the size of the refinement grid): a small round sample at (sx, sy) shows up in the mask within 1.5 px of
    sample_to_recon, for rotation axes up to 8 steps off the middle of the scan, even and odd scan lengths, three step sizes"""
    _, tier = desc
    import types, io, contextlib
    from ImageD11.sinograms import geometry as G
    from ImageD11.sinograms.point_by_point import PBPRefine
    sh = Shard()
    nomega = 90
    for ny, ystep, y0_off, centre in [(41, 1.0, 0.0, (9.0, -7.0)), (40, 2.0, 0.5, (-12.0, 10.0)), (41, 1.0, 6.0, (5.5, 8.0)), (44, 0.5, -8.0, (-3.0, 2.5)),
                                      (55, 2.0, 3.0, (-14.0, -20.0)), (40, 1.0, -5.0, (0.0, 6.0)), (41, 2.5, 4.0, (10.0, 0.0))] + \
            ([(60, 1.0, 8.0, (7.0, 7.0)), (61, 0.5, -7.5, (2.0, -3.0))] if tier != "quick" else []):
        ymin = 100.0
        ybincens = ymin + ystep * np.arange(ny)
        y0 = ymin + ((ny - 1) / 2.0 + y0_off) * ystep
        ostep = 180.0 / nomega
        obincens = (np.arange(nomega) + 0.5) * ostep
        dset = types.SimpleNamespace(ybincens=ybincens, ystep=ystep, ymin=ymin, ybinedges=np.linspace(ymin - ystep / 2, ybincens[-1] + ystep / 2, ny + 1),
                                     obincens=obincens, obinedges=np.arange(nomega + 1) * ostep, refmapfile=None, refpeaksfile=None, refoutfile=None,
                                     refmanfile=None)
        sx, sy = centre
        pts = [(sx + a * ystep * 0.5, sy + b * ystep * 0.5) for a in range(-6, 7) for b in range(-6, 7) if (a * 0.5) ** 2 + (b * 0.5) ** 2 <= 2.5 ** 2]
        dty = np.concatenate([G.dty_values_grain_in_beam(px, py, y0, obincens) for (px, py) in pts])
        omega = np.concatenate([obincens for _ in pts])
        case = {"kind": "pbpmask", "ny": ny, "ystep": ystep, "y0_steps_off_the_middle": y0_off, "sample_centre": list(centre)}
        if not (dty.min() > dset.ybinedges[0] and dty.max() < dset.ybinedges[-1]):
            sh.count("skipped_sample_leaves_scanned_range")
            continue
        ij = np.array(G.step_grid_from_ybincens(ybincens, ystep, 1, y0))
        with contextlib.redirect_stdout(io.StringIO()):
            ref = PBPRefine(dset, "phase", y0=y0)
            ref.setmap(types.SimpleNamespace(i=ij[:, 0], j=ij[:, 1]))
            ref.icolf = types.SimpleNamespace(dty=dty, omega=omega)
            ref.setmask(use_icolf=True)
        # the refinement grid is used as a reconstruction-space image: pixel (ri, rj) carries the sample position geometry.recon_to_sample
        # gives it - also when the map of indexed points has holes (a sample in two pieces, a map made on every second step)
        bad_grid = False
        for mname, keep_pts in (("dense", np.ones(len(ij), bool)), ("rows -1..2 empty", (ij[:, 0] < -1) | (ij[:, 0] > 2)),
                                ("every second step", (ij[:, 0] % 2 == 0) & (ij[:, 1] % 2 == 0)), ("columns 3..5 empty", (ij[:, 1] < 3) | (ij[:, 1] > 5))):
            with contextlib.redirect_stdout(io.StringIO()):
                r2 = PBPRefine(dset, "phase", y0=y0)
                r2.setmap(types.SimpleNamespace(i=ij[keep_pts, 0], j=ij[keep_pts, 1]))
            shp2 = r2.sx_grid.shape
            RI, RJ = np.indices(shp2)
            wx, wy = G.recon_to_sample(RI, RJ, shp2, ystep)
            if not (np.allclose(r2.sx_grid, wx, rtol=0, atol=1e-9 * (1 + np.abs(wx).max())) and np.allclose(r2.sy_grid, wy, rtol=0, atol=1e-9 * (1 + np.abs(wy).max()))):
                sh.violation("PBPRefine.setmap:grid-pixel-does-not-carry-the-sample-position-of-recon_to_sample", dict(case, map_points=mname),
                             {"grid_shape": list(shp2), "max_diff_steps": float(max(np.abs(r2.sx_grid - wx).max(), np.abs(r2.sy_grid - wy).max()) / ystep)})
                bad_grid = True
                break
            sh.evaluations += 1
        if bad_grid:
            continue
        mask = np.asarray(ref.mask)
        if mask.shape != ref.sx_grid.shape or not mask.any():
            sh.violation("PBPRefine.setmask:mask-empty-or-not-the-shape-of-the-grid", case, {"shape": list(mask.shape), "grid": list(ref.sx_grid.shape)})
            continue
        ri, rj = G.sample_to_recon(sx, sy, mask.shape, ystep)
        ii, jj = np.nonzero(mask)
        err = float(np.hypot(ii.mean() - ri, jj.mean() - rj))
        sh.counters["max_mask_centre_error_milli_px"] = max(sh.counters.get("max_mask_centre_error_milli_px", 0), int(err * 1000))
        if err > 1.5:
            sh.violation("PBPRefine.setmask:sample-not-where-geometry-predicts", case, {"predicted": [float(ri), float(rj)], "mask_centre": [float(ii.mean()), float(jj.mean())],
                                                                                    "error_px": err})
        sh.evaluations += 1
        if y0_off != 0:
            sh.nontrivial += 1
        sh.outcomes.add(("pbpmask", ny % 2, y0_off != 0))
    sh.sample(case, limit=1)
    return sh


def _run_pbporigins(desc):
    """PBPRefine.get_origins (ray tracing of every peak's (omega, dty) through the map): for two point-like grains and a rotation axis off the
    middle of the scan, every peak comes back with the lab x of ITS grain at ITS omega - the reported point is in the beam at the dty
    the peak was measured at - whatever the order of the rows in the peak table (by dty up, by dty down, grain by grain, scrambled)"""
    _, tier = desc
    import types, io, contextlib
    from ImageD11 import columnfile as cfm
    from ImageD11.sinograms import geometry as G
    from ImageD11.sinograms.point_by_point import PBPRefine
    sh = Shard()
    for ny, ystep, y0_off in ((41, 2.0, 3.3), (40, 1.0, -2.5)) if tier == "quick" else ((41, 2.0, 3.3), (40, 1.0, -2.5), (61, 0.5, 6.0)):
        ymin = 100.0
        ybincens = ymin + ystep * np.arange(ny)
        y0 = ymin + ((ny - 1) / 2.0 + y0_off) * ystep
        omega = np.arange(0.0, 180.0, 2.0) + 0.25
        U2 = np.dot(O.rotation_from_axis_angle((0, 0, 1), 20.0), O.rotation_from_axis_angle((1, 0, 0), 36.87))
        grains = [dict(step=(9, -6), U=np.eye(3), hkls=[(1, 0, 0), (0, 1, 0)]), dict(step=(-7, 4), U=U2, hkls=[(0, 0, 1)])]
        rows = []
        for gid, g in enumerate(grains):
            sx, sy = G.step_to_sample(g["step"][0], g["step"][1], ystep)
            dty = G.dty_values_grain_in_beam(sx, sy, y0, omega)
            dty = G.dtyi_to_dty(G.dty_to_dtyi(dty, ystep, ymin), ystep, ymin)
            if dty.min() < ybincens[0] or dty.max() > ybincens[-1]:
                raise RuntimeError("grain leaves the scanned range")
            lx, _ = G.sample_to_lab(sx, sy, y0, dty, omega)
            for hkl in g["hkls"]:
                gvec = np.dot(g["U"], hkl)
                for k in range(len(omega)):
                    rows.append((gvec[0], gvec[1], gvec[2], omega[k], dty[k], gid, lx[k]))
        rows = np.array(rows)
        n = len(rows)
        orders = {"by dty upwards, then omega": np.lexsort((rows[:, 3], rows[:, 4])), "by dty downwards, then omega": np.lexsort((rows[:, 3], -rows[:, 4])),
                  "grain by grain": np.arange(n), "scrambled": (np.arange(n) * 7919 + 5) % n if np.gcd(7919, n) == 1 else np.arange(n)[::-1]}
        for oname, order in orders.items():
            r = rows[order]
            dset = types.SimpleNamespace(ybincens=ybincens, ystep=ystep, ymin=ymin, refmapfile=None, refpeaksfile=None, refoutfile=None, refmanfile=None)
            with contextlib.redirect_stdout(io.StringIO()):
                ref = PBPRefine(dset, "phase", y0=y0)
                ij = np.array(G.step_grid_from_ybincens(ybincens, ystep, 1, y0))
                ref.setmap(types.SimpleNamespace(i=ij[:, 0], j=ij[:, 1]))
                shape = ref.sx_grid.shape
                singlemap = np.full(shape + (3, 3), np.nan)
                mask = np.zeros(shape, bool)
                for g in grains:
                    ri, rj = G.step_to_recon(g["step"][0], g["step"][1], shape)
                    singlemap[ri, rj] = g["U"].T
                    mask[ri, rj] = True
                ref.singlemap, ref.mask = singlemap, mask
                om = r[:, 3]
                ref.icolf = cfm.colfile_from_dict(dict(gx=r[:, 0].copy(), gy=r[:, 1].copy(), gz=r[:, 2].copy(), omega=om.copy(), dty=r[:, 4].copy(),
                                                       sinomega=np.sin(np.radians(om)), cosomega=np.cos(np.radians(om))))
                ref.get_origins(guess_speed=False, save_peaks_after=False)
            err = np.abs(np.asarray(ref.icolf.xpos_refined) - r[:, 6]) / ystep
            case = {"kind": "pbporigins", "ny": ny, "ystep": ystep, "y0_steps_off_the_middle": y0_off, "row_order": oname}
            if not (err <= 1.5).all():
                sh.violation("PBPRefine.get_origins:origin-not-on-the-ray-of-the-peak's-own-omega-and-dty", case,
                             {"peaks_off_by_more_than_1.5_steps": int((~(err <= 1.5)).sum()), "peaks": n, "worst_steps": float(np.nanmax(err))})
            sh.evaluations += 1
            sh.nontrivial += 1
            sh.outcomes.add(("pbporigins", oname))
    sh.sample(case, limit=1)
    return sh


def _run_grainsino_build(desc):
    """the whole GrainSinogram route on a synthetic point grain: 2-D peaks (g-vectors of 60 distinct hkl, one projection angle each, the
    peak of each projection split over the two dty bins around the value geometry says brings the grain into the beam) ->
    prepare_peaks_from_2d -> build_sinogram -> update_lab_position_from_peaks (fit of sx, sy, y0) -> the module's own shift and pad ->
    recon -> update_lab_position_from_recon.  The sinogram equals the directly built one, the fit returns the position and y0, the
    reconstruction shows the grain where sample_to_recon predicts (1.5 px) and the position from the image is within 2.5 px."""
    _, c, nch, tier = desc
    from ImageD11.sinograms import geometry as G, roi_iradon as R, sinogram as SG, dataset as _dsm
    from ImageD11 import grain as _grain, columnfile as _cf
    import io, contextlib
    sh = Shard()
    a = 4.0
    ubi = np.dot(np.eye(3) * a, O.rotation_from_axis_angle((1, 2, 3), 33.0).T)
    UB = np.linalg.inv(ubi)
    hkls = [h for h in itertools.product(range(-2, 3), repeat=3) if h != (0, 0, 0)][:60]
    nproj = len(hkls)
    gvecs = np.dot(UB, np.array(hkls, float).T)
    idx = 0
    for ystep in ((1.0,) if tier == "quick" else (1.0, 0.5, 2.5)):
        for (px, py) in recon_positions():
            for ny in (40, 41):
                for y0s in (0.0, 2.5, -3.3):
                    for span in (180.0, 360.0):
                        idx += 1
                        if idx % nch != c:
                            continue
                        sx, sy, y0 = px * ystep, py * ystep, y0s * ystep
                        ymin = -(ny // 2) * ystep
                        # projection angles: not in order of hkl, not equally spaced
                        omega = ((np.arange(nproj) * 37) % nproj) * (span / nproj) + 0.2 * np.sin(np.arange(nproj))
                        dty = G.dty_values_grain_in_beam(sx, sy, y0, omega)
                        row = (dty - ymin) / ystep
                        lo = np.floor(row).astype(int)
                        w = row - lo
                        if lo.min() < 0 or lo.max() + 1 >= ny:
                            sh.count("skipped_grain_leaves_scanned_range")
                            continue
                        case = {"kind": "grainsino_build", "sx": sx, "sy": sy, "ny": ny, "y0": y0, "ystep": ystep, "omega_span": span}
                        # 2-D peaks: two per projection (the neighbouring dty bins), intensity split linearly
                        cols = {"gx": np.repeat(gvecs[0], 2), "gy": np.repeat(gvecs[1], 2), "gz": np.repeat(gvecs[2], 2),
                                "omega": np.repeat(omega, 2), "eta": np.full(2 * nproj, 30.0),
                                "dty": (ymin + np.stack([lo, lo + 1], axis=1) * ystep).ravel().astype(float),
                                "sum_intensity": (1000.0 * np.stack([1 - w, w], axis=1)).ravel()}
                        keep = cols["sum_intensity"] > 0
                        cf2 = _cf.colfile_from_dict({k_: v[keep] for k_, v in cols.items()})
                        with contextlib.redirect_stdout(io.StringIO()):
                            ds = _dsm.DataSet(dataroot=".", analysisroot=".", sample="s", dset="d")
                        ds.ybincens = ymin + np.arange(ny) * ystep
                        ds.ystep = ystep
                        gs = SG.GrainSinogram(_grain.grain(ubi.copy()), ds)
                        gs.prepare_peaks_from_2d(cf2, 5, hkltol=0.05)
                        gs.build_sinogram()
                        # direct construction for comparison (columns in ascending angle, each scaled to maximum 1)
                        order = np.argsort(omega, kind="stable")
                        want = np.zeros((ny, nproj), np.float32)
                        for k_, q in enumerate(order):
                            want[lo[q], k_] += 1 - w[q]
                            want[lo[q] + 1, k_] += w[q]
                        want /= want.max(axis=0)[None, :]
                        if gs.ssino.shape != want.shape or np.abs(gs.ssino - want).max() > 1e-5 or np.abs(gs.sinoangles - omega[order]).max() > 1e-3:
                            sh.violation("GrainSinogram.build_sinogram:differs-from-direct-construction", case,
                                         {"shape": list(gs.ssino.shape), "max_diff": float(np.abs(gs.ssino - want).max()) if gs.ssino.shape == want.shape else None})
                            continue
                        # position and axis offset from the 4-D peaks (exact dty centroids)
                        cf4 = _cf.colfile_from_dict({"omega": omega.copy(), "dty": dty.copy(), "grain_id": np.full(nproj, 5)})
                        gs.update_lab_position_from_peaks(cf4, 5)
                        if np.abs(gs.grain.translation[:2] - np.array([sx, sy])).max() > 1e-3 * ystep or abs(gs.recon_y0 - y0) > 1e-3 * ystep:
                            sh.violation("GrainSinogram.update_lab_position_from_peaks:position-or-y0-not-recovered", case,
                                         {"translation": gs.grain.translation, "y0": float(gs.recon_y0)})
                            continue
                        shift, pad = G.sino_shift_and_pad(gs.recon_y0, ny, ymin, ystep)
                        gs.update_recon_parameters(pad=int(pad), shift=shift)
                        rec = gs.recon(method="iradon", workers=1)
                        ri, rj = G.sample_to_recon(sx, sy, rec.shape, ystep)
                        ci, cj = centroid_of_max(rec)
                        err = float(np.hypot(ci - ri, cj - rj))
                        if not np.isfinite(err) or err > 1.5:
                            sh.violation("reconstruction-not-where-geometry-predicts", case, {"predicted": [float(ri), float(rj)], "found": [ci, cj], "error_px": err})
                            continue
                        gs.ds.ystep = ystep
                        gs.grain.translation = np.array([1e6, 1e6, 0.0])
                        gs.update_lab_position_from_recon()
                        if not getattr(gs, "bad_recon", False) and np.abs(gs.grain.translation[:2] - np.array([sx, sy])).max() > 2.5 * ystep:
                            sh.violation("GrainSinogram.update_lab_position_from_recon:far-from-the-grain", case, {"translation": gs.grain.translation})
                        sh.counters["max_build_route_error_milli_px"] = max(sh.counters.get("max_build_route_error_milli_px", 0), int(err * 1000))
                        sh.evaluations += 1
                        sh.nontrivial += 1
                        sh.outcomes.add(("build", ny, y0s, span))
    if sh.evaluations:
        sh.sample(case, limit=1)
    return sh


def run_shard(desc):
    if desc[0] == "outer":
        return _run_outer(desc)
    if desc[0] == "grainsino_build":
        return _run_grainsino_build(desc)
    if desc[0] == "pbpmask":
        return _run_pbpmask(desc)
    if desc[0] == "pbporigins":
        return _run_pbporigins(desc)
    return {"conv": _run_conv, "recon": _run_recon, "linear": _run_linear, "orders": _run_orders, "filters": _run_filters,
            "grainsino": _run_grainsino}[desc[0]](desc)


def replay(case):
    kind = case["kind"]
    if kind == "conv":
        yi = min(range(len(Y0S)), key=lambda k: abs(Y0S[k] * case["ystep"] - case["y0"]))
        r = _run_conv(("conv", yi, YSTEPS.index(case["ystep"])))
    elif kind == "recon":
        pos = recon_positions()
        pi = min(range(len(pos)), key=lambda k: abs(pos[k][0] * case["ystep"] - case["sx"]) + abs(pos[k][1] * case["ystep"] - case["sy"]))
        r = _run_recon(("recon", pi, "thorough"))
        r.violations = [v for v in r.violations if all(v["case"][k] == case[k] for k in ("ny", "y0", "range", "pad", "ystep"))]
    elif kind == "pbporigins":
        r = _run_pbporigins(("pbporigins", "thorough"))
        r.violations = [v for v in r.violations if all(v["case"][k] == case[k] for k in ("ny", "ystep", "row_order"))]
    elif kind == "pbpmask":
        r = _run_pbpmask(("pbpmask", "thorough"))
        r.violations = [v for v in r.violations if all(v["case"][k] == case[k] for k in ("ny", "ystep", "y0_steps_off_the_middle"))]
    elif kind == "orders":
        r = _run_orders(("orders",))
    elif kind == "filters":
        r = _run_filters(("filters", "thorough" if len(case["history"]) > 2 else "quick"))
    elif kind == "outer":
        r = _run_outer(("outer", "quick" if case["ystep"] == 1.0 else "thorough"))
        r.violations = [v for v in r.violations if all(abs(v["case"][k] - case[k]) < 1e-9 for k in ("sx", "sy", "y0")) and v["case"]["ny"] == case["ny"] and v["case"]["range"] == case["range"]]
    elif kind == "grainsino_build":
        r = _run_grainsino_build(("grainsino_build", 0, 1, "quick" if case["ystep"] == 1.0 else "thorough"))
        r.violations = [v for v in r.violations if all(v["case"][k] == case[k] for k in ("sx", "sy", "ny", "y0", "omega_span"))]
    elif kind == "grainsino":
        r = _run_grainsino(("grainsino", "thorough" if len(case["shifts"]) > 3 else "quick"))
    else:
        r = _run_linear(("linear", "quick"))
    return (not r.violations), {"violations": r.violations[:3]}
