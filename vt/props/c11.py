"""C11 - threshold labelling yields exactly the connected components.

Bounded exhaustive exploration (E1):
 (i)   ALL two-valued images of every shape up to 4x4 (quick) / also 4x5, 5x4, 2x8, 8x2 (thorough)
       x value/threshold triples x connectivity 4/8 x two poison fills of the label buffer, through
       the real f2py `connectedpixels` and the `labelimage.labelpeaks` wrapper;
 (ii)  ALL three-valued images {absent, listed-but-below, above} of shapes up to 3x3, 2x4, 4x2
       (quick) / 3x4, 4x3 (thorough) through `sparse_connectedpixels`,
       `sparse_connectedpixels_splat`, `sparseframe.sparse_connected_pixels` and the dense kernel;
 (iii) a finite catalogue of adversarial generators (checkerboards forcing > 16384 provisional
       labels and the realloc growth, combs, staircases, spirals, nested U, full, empty ...) at the
       boundary sizes named in the property.
Oracle: flood fill written for the purpose, cross-checked against scipy.ndimage.label on every case
(disagreement between the two oracles is an engine error, never a violation). Comparison is on the
induced partition (labels canonicalised by first occurrence) plus: background <=> not strictly
above threshold; labels exactly 1..n; n = return value; identical result for both poisons.
"""
from __future__ import annotations
import itertools, os
import numpy as np
from vt.runner import Shard
from vt import oracles as O

LEVEL = "exploration"
RULE = ("cases = (shape, image over a 2- or 3-letter pixel alphabet enumerated completely, value/threshold "
        "triple, connectivity); every case is a distinct input; non-trivial = the image has >= 2 components "
        "or the raster scan must merge provisional labels (seeds > components)")
ASSUMPTIONS = ["pixel values only from the stated alphabets (two or three levels around the threshold)",
               "sparse inputs sorted row-major without duplicates, as the kernels document",
               "shapes outside the enumerated list only through the stated catalogue of generators"]

VT = {  # (lo, hi, threshold): lo is NOT strictly above the threshold, hi is
    0: (0.0, 1.0, 0.0),
    1: (0.0, 1.0, 0.5),
    2: (5.0, 6.0, 5.0),
    3: (-2.0, -1.0, -1.5),
}
POISONS = (7777, -3)


def plan(tier, seed):
    shards = []
    if tier == "quick":
        dshapes = [(2, 2), (2, 3), (3, 2), (3, 3), (2, 4), (4, 2), (3, 4), (4, 3), (4, 4), (3, 6), (6, 3)]
        vts = [seed % 2, 2]            # (0 or 1) and the equal-to-threshold triple
        sshapes = [(2, 2), (2, 3), (3, 2), (3, 3), (2, 4), (4, 2)]
        big = [2, 3, 4, 5, 6, 7, 8, 9, 127, 128, 129, 181, 182, 256]
        rect = [(2, 300), (300, 2), (3, 129)]
    else:
        dshapes = [(2, 2), (2, 3), (3, 2), (3, 3), (2, 4), (4, 2), (3, 4), (4, 3), (4, 4), (2, 5), (5, 2),
                   (4, 5), (5, 4), (2, 8), (8, 2), (3, 5), (5, 3), (3, 6), (6, 3), (2, 9), (9, 2), (2, 10), (10, 2)]
        vts = [0, 1, 2, 3]
        sshapes = [(2, 2), (2, 3), (3, 2), (3, 3), (2, 4), (4, 2), (3, 4), (4, 3), (2, 5), (5, 2), (2, 6), (6, 2)]
        big = [2, 3, 4, 5, 6, 7, 8, 9, 127, 128, 129, 181, 182, 256, 300, 512]
        rect = [(2, 300), (300, 2), (3, 129), (129, 3), (127, 129), (512, 2), (2, 512), (100, 400), (181, 183)]
    for shp in dshapes:
        n = shp[0] * shp[1]
        total = 1 << n
        nchunk = max(1, total // 8192)
        for c in range(nchunk):
            shards.append(("dense", shp, vts, c * total // nchunk, (c + 1) * total // nchunk))
    for shp in sshapes:
        n = shp[0] * shp[1]
        total = 3 ** n
        nchunk = max(1, total // 8192)
        for c in range(nchunk):
            shards.append(("sparse", shp, c * total // nchunk, (c + 1) * total // nchunk))
    for s in big:
        shards.append(("catalogue", (s, s)))
    for shp in rect:
        shards.append(("catalogue", shp))
    for fam in range(3):
        shards.append(("combs", fam))
    for c in range(8):
        shards.append(("sched", c, 8, tier))
    shards.append(("sparsescan", tier))
    shards.append(("callers", tier))
    # visit order depends on the seed (results do not)
    k = seed % max(1, len(shards))
    return shards[k:] + shards[:k]


# --------------------------------------------------------------------------------------------- dense
def _check_labels(sh, kind, case, data, thr, conn8, labs, n_ret, want, n_want):
    """labs: list of label arrays (one per poison)."""
    l0 = labs[0]
    for l in labs[1:]:
        if not np.array_equal(l0, l):
            sh.violation("%s:poison-dependent" % kind, case, {"labels_a": l0, "labels_b": l})
            return False
    bg = ~(data > np.float32(thr))          # the kernels take the threshold as a float32
    if not np.array_equal(l0 == 0, bg):
        sh.violation("%s:background-mismatch" % kind, case, {"labels": l0})
        return False
    if n_ret != n_want:
        sh.violation("%s:count" % kind, case, {"returned": n_ret, "expected": n_want, "labels": l0})
        return False
    if n_want > 0:
        u = np.unique(l0[l0 != 0])
        if len(u) != n_want or u[0] != 1 or u[-1] != n_want:
            sh.violation("%s:labels-not-1..n" % kind, case, {"labels": l0, "n": n_want})
            return False
    if not np.array_equal(O.canon_labels(l0), want):
        sh.violation("%s:partition" % kind, case, {"labels": l0, "expected": want})
        return False
    return True


class _quiet_fd1(object):
    _null = None

    def __enter__(self):
        import sys
        sys.stdout.flush()
        if _quiet_fd1._null is None:
            _quiet_fd1._null = os.open(os.devnull, os.O_WRONLY)
        self.saved = os.dup(1)
        os.dup2(_quiet_fd1._null, 1)

    def __exit__(self, *a):
        # the C library buffers its stdout: flush it while fd 1 still points at /dev/null
        try:
            import ctypes
            ctypes.CDLL(None).fflush(None)
        except Exception:
            pass
        os.dup2(self.saved, 1)
        os.close(self.saved)


def _dense_case(sh, cI, li_obj, img_bits, shp, vt, conn8, full_oracle=True):
    lo, hi, thr = VT[vt]
    mask = img_bits
    data = np.where(mask, np.float32(hi), np.float32(lo)).astype(np.float32)
    case = {"kind": "dense", "shape": list(shp), "mask": mask.astype(int).tolist(), "vt": vt, "conn8": int(conn8)}
    want, n_want = O.flood_components(mask, conn8) if full_oracle else O.scipy_components(mask, conn8)
    if full_oracle:
        w2, n2 = O.scipy_components(mask, conn8)
        if n2 != n_want or not np.array_equal(O.canon_labels(w2), O.canon_labels(want)):
            raise RuntimeError("oracles disagree on %r" % (case,))
    want = O.canon_labels(want)
    labs, nrets = [], []
    for p in POISONS:
        l = np.full(shp, p, np.int32)
        if p == POISONS[1]:
            # the second call asks for the progress messages too (they go to the C stdout, sent to /dev/null here): same answer
            with _quiet_fd1():
                n = cI.connectedpixels(data, l, thr, con8=int(conn8), verbose=1)
        else:
            n = cI.connectedpixels(data, l, thr, con8=int(conn8))
        labs.append(l)
        nrets.append(n)
    if nrets[0] != nrets[1]:
        sh.violation("connectedpixels:count-depends-on-buffer-content-or-verbose-flag", case, {"n": nrets})
        return
    if not np.array_equal(data, np.where(mask, np.float32(hi), np.float32(lo)).astype(np.float32)):
        sh.violation("connectedpixels:image-modified", case, {"data": data})
        return
    ok = _check_labels(sh, "connectedpixels", case, data, thr, conn8, labs, nrets[0], want, n_want)
    if ok and conn8 and li_obj is not None:
        li_obj.blim[:] = POISONS[0]
        li_obj.labelpeaks(data, thr)
        _check_labels(sh, "labelimage.labelpeaks", case, data, thr, True, [li_obj.blim.copy()], li_obj.npk, want, n_want)
    sh.evaluations += 1
    seeds = O.n_seeds(mask, conn8)
    if n_want >= 2 or seeds > n_want:
        sh.nontrivial += 1
    sh.outcomes.add((n_want, seeds > n_want))
    return case


def _bits(x, n, shp):
    return np.array([(x >> k) & 1 for k in range(n)], bool).reshape(shp)


def _run_dense(desc):
    _, shp, vts, lo, hi = desc
    from ImageD11 import cImageD11 as cI, labelimage
    import io
    sh = Shard()
    li = labelimage.labelimage(shp, fileout=io.StringIO(), sptfile=io.StringIO())
    n = shp[0] * shp[1]
    if n > 16:
        vts = vts[:1]          # the 18-pixel shapes with one threshold convention (still every image, both connectivities)
    for x in range(lo, hi):
        m = _bits(x, n, shp)
        for vt in vts:
            for conn8 in (True, False):
                c = _dense_case(sh, cI, li, m, shp, vt, conn8)
                if x == lo + (hi - lo) // 2 and vt == vts[0] and conn8:
                    sh.sample(c)
    sh.count("dense_images", hi - lo)
    return sh


# --------------------------------------------------------------------------------------------- sparse
SPARSE_VALS = ((1.0, 2.0, 1.5),
               # a threshold that is not a float32 number: the listed-but-below pixels hold exactly the float32 it rounds to (0.1 ->
               # 0.100000001...), which is NOT above the threshold for the dense kernel, the splat kernel and the sparse kernel alike
               (float(np.float32(0.1)), 0.2, 0.1))


def _sparse_case(sh, cI, sf, tern, shp, collect=False, vals=SPARSE_VALS[0]):
    """tern: 2-D array over {0 absent, 1 listed below threshold, 2 above}."""
    v_lo, v_hi, thr = vals
    listed = tern > 0
    if not listed.any():
        return None
    ii, jj = np.nonzero(listed)          # row-major sorted
    v = np.where(tern[ii, jj] == 2, v_hi, v_lo).astype(np.float32)
    i16 = ii.astype(np.uint16)
    j16 = jj.astype(np.uint16)
    mask = tern == 2
    case = {"kind": "sparse", "shape": list(shp), "tern": tern.tolist(), "values": list(vals)}
    want_img, n_want = O.flood_components(mask, True)
    w2, n2 = O.scipy_components(mask, True)
    if n2 != n_want or not np.array_equal(O.canon_labels(w2), O.canon_labels(want_img)):
        raise RuntimeError("oracles disagree on %r" % (case,))
    want = O.canon_labels(want_img[ii, jj])
    above = v > np.float32(thr)
    results = {}
    # 1. sparse kernel, two poisons
    labs, ns_ = [], []
    for p in POISONS:
        l = np.full(len(v), p, np.int32)
        ns_.append(cI.sparse_connectedpixels(v, i16, j16, thr, l))
        labs.append(l)
    if ns_[0] != ns_[1]:
        sh.violation("sparse_connectedpixels:poison-dependent-count", case, {"n": ns_})
    else:
        _check_labels(sh, "sparse_connectedpixels", case, v, thr, True, labs, ns_[0], want, n_want)
    results["sparse"] = O.canon_labels(labs[0])
    # 2. splat: labels zero-initialised (its only in-tree caller passes zeros), workspace Z poisoned
    labs, ns_ = [], []
    ni, nj = shp
    for p in POISONS:
        l = np.zeros(len(v), np.int32)
        Z = np.full(ni * nj + 2 * ni + 2 * nj + 4, p, np.int32)
        ns_.append(cI.sparse_connectedpixels_splat(v, i16, j16, thr, l, Z, ni, nj))
        labs.append(l)
    if ns_[0] != ns_[1]:
        sh.violation("sparse_connectedpixels_splat:poison-dependent-count", case, {"n": ns_})
    else:
        _check_labels(sh, "sparse_connectedpixels_splat", case, v, thr, True, labs, ns_[0], want, n_want)
    results["splat"] = O.canon_labels(labs[0])
    # 3. dense kernel on the same pixels
    dense = np.zeros(shp, np.float32)
    dense[ii, jj] = v
    l = np.full(shp, POISONS[0], np.int32)
    nd = cI.connectedpixels(dense, l, thr, con8=1)
    results["dense"] = O.canon_labels(l[ii, jj])
    if nd != n_want or not (np.array_equal(results["dense"], results["sparse"]) and
                            np.array_equal(results["dense"], results["splat"])):
        if not sh.violations:
            sh.violation("dense/sparse/splat:partitions-differ", case, results)
    # 4. python wrapper
    fr = sf.sparse_frame(i16, j16, shp, itype=np.uint16, pixels={"intensity": v})
    nw = sf.sparse_connected_pixels(fr, threshold=thr)
    lw = fr.pixels["connectedpixels"]
    if nw != n_want or not np.array_equal(O.canon_labels(lw), want):
        if not sh.violations:
            sh.violation("sparseframe.sparse_connected_pixels:partition", case, {"labels": lw, "n": nw})
    # 5. histories on the labelled frame object: each later labelling is that of the pixels it is given, whatever was labelled before
    #    (a) a sub-frame cut out with mask() (the middle column dropped) labelled at the same threshold,
    #    (b) another pixel array of the same frame (above and below exchanged) labelled into the same label name,
    #    (c) one above-threshold pixel lowered in place, labelled again
    if not sh.violations and mask.any():
        def expect(m2, rows, cols):
            w_, n_ = O.scipy_components(m2, True)
            return O.canon_labels(w_[rows, cols]), n_
        keep = jj != shp[1] // 2
        if keep.any() and not keep.all():
            sub = fr.mask(keep)
            ns = sf.sparse_connected_pixels(sub, threshold=thr)
            m2 = mask.copy(); m2[:, shp[1] // 2] = False
            wl, wn = expect(m2, ii[keep], jj[keep])
            if ns != wn or not np.array_equal(O.canon_labels(sub.pixels["connectedpixels"]), wl):
                sh.violation("sparseframe.sparse_connected_pixels[history: label, mask(), label the sub-frame]:partition", case,
                             {"labels": sub.pixels["connectedpixels"], "n": ns, "expected_n": wn})
        other = np.where(v > np.float32(thr), v_lo, v_hi).astype(np.float32)
        fr.set_pixels("other", other)
        no = sf.sparse_connected_pixels(fr, data_name="other", threshold=thr)
        wl, wn = expect(listed & ~mask, ii, jj)
        if no != wn or not np.array_equal(O.canon_labels(fr.pixels["connectedpixels"]), wl):
            sh.violation("sparseframe.sparse_connected_pixels[history: label, label another pixel array]:partition", case,
                         {"labels": fr.pixels["connectedpixels"], "n": no, "expected_n": wn})
        k0 = int(np.nonzero(v > np.float32(thr))[0][0])
        fr.pixels["intensity"][k0] = v_lo
        nc = sf.sparse_connected_pixels(fr, threshold=thr)
        m3 = mask.copy(); m3[ii[k0], jj[k0]] = False
        wl, wn = expect(m3, ii, jj)
        if nc != wn or not np.array_equal(O.canon_labels(fr.pixels["connectedpixels"]), wl):
            sh.violation("sparseframe.sparse_connected_pixels[history: label, pixel lowered in place, label]:partition", case,
                         {"labels": fr.pixels["connectedpixels"], "n": nc, "expected_n": wn})
        v[k0] = v_hi if fr.pixels["intensity"] is v else v[k0]
    sh.evaluations += 1
    seeds = O.n_seeds(mask, True)
    if n_want >= 2 or seeds > n_want:
        sh.nontrivial += 1
    sh.outcomes.add((n_want, seeds > n_want, bool((tern == 1).any())))
    return case


def _run_sparse(desc):
    _, shp, lo, hi = desc
    from ImageD11 import cImageD11 as cI, sparseframe as sf
    sh = Shard()
    n = shp[0] * shp[1]
    pw = 3 ** np.arange(n)
    for x in range(lo, hi):
        tern = ((x // pw) % 3).reshape(shp)
        _sparse_case(sh, cI, sf, tern, shp, vals=SPARSE_VALS[1])
        c = _sparse_case(sh, cI, sf, tern, shp)
        if x == lo + (hi - lo) // 2 and c is not None:
            sh.sample(c)
    sh.count("sparse_images", hi - lo)
    return sh


# --------------------------------------------------------------------------------------------- catalogue
def catalogue(shp):
    ns, nf = shp
    I, J = np.mgrid[0:ns, 0:nf]
    out = {}
    out["empty"] = np.zeros(shp, bool)
    out["full"] = np.ones(shp, bool)
    out["checker0"] = (I + J) % 2 == 0
    out["checker1"] = (I + J) % 2 == 1
    out["comb_down"] = (J % 2 == 0) | (I == ns - 1)       # teeth joined only by the last row: maximal unions
    out["comb_up"] = (J % 2 == 0) | (I == 0)
    out["comb_right"] = (I % 2 == 0) | (J == nf - 1)
    out["stair"] = ((I + J) % 4 == 0) | ((I + J) % 4 == 1) & (I % 2 == 0)
    out["antidiag"] = (I + J) % 3 == 0                    # anti-diagonal lines: NE neighbour links only
    out["diag"] = (I - J) % 3 == 0
    out["vstripes"] = J % 2 == 0
    out["hstripes"] = I % 2 == 0
    out["dots"] = (I % 2 == 0) & (J % 2 == 0)             # maximal number of components for 8-connectivity
    # rectangular spiral / nested rings and nested U shapes
    d = np.minimum(np.minimum(I, J), np.minimum(ns - 1 - I, nf - 1 - J))
    out["rings"] = d % 2 == 0
    sp = (d % 2 == 0)
    sp = sp.copy()
    for k in range(0, min(ns, nf) // 2, 2):               # open each ring and connect to the next: a spiral
        if k + 1 < ns and k < nf:
            sp[k + 1, k] = False
            if k + 1 < nf:
                sp[k + 1, k + 1] = True
    out["spiral"] = sp
    u = (d % 2 == 0)
    u = u.copy()
    u &= ~((I == d) & (J > d) & (J < nf - 1 - d) & (I < ns - 1 - d))     # open the tops -> nested U
    out["nested_u"] = u
    out["vee"] = ((I - J) % 4 == 0) | ((I + J) % 4 == 0)
    out["xor"] = ((I ^ J) & 1) == 1
    out["mod3"] = (I * J) % 3 == 0
    return out


def bridged_comb(teeth, order, hook, width=1):
    """vertical teeth that start as separate blobs and are then joined pairwise by horizontal bridges in the given ORDER of adjacent pairs
    (one bridge per pair of rows), optionally hooked at the end onto an older blob (a top bar running down one side): the order of the
    unions decides how deep the chains in the label table get before a lookup happens"""
    step = 2 + width
    nf = 2 + step * teeth + 3
    nrows = 3 + 2 * len(order) + 4
    m = np.zeros((nrows, nf), bool)
    xs = [2 + step * k for k in range(teeth)]
    for x in xs:
        m[2:nrows - 1, x:x + width] = True
    for n_, k in enumerate(order):                       # bridge tooth k to tooth k+1 at row 4 + 2 n_
        m[4 + 2 * n_, xs[k]:xs[k + 1] + width] = True
    if hook != "none":
        m[0, :] = True                                   # the older blob: a bar along the top ...
        side = nf - 1 if hook.endswith("right") else 0
        m[:, side] = True                                # ... and down one side
        tooth = {"last_right": teeth - 1, "first_left": 0, "first_right": teeth - 1, "last_left": 0}[hook]
        r_ = 4 + 2 * len(order) if hook.startswith("last") else 3
        if side:
            m[r_, xs[tooth]:nf] = True
        else:
            m[r_, 0:xs[tooth] + width] = True
    return m


def bridged_combs(family):
    teeth = 3 + family                                   # families 0..2 : 3, 4, 5 teeth
    for order in itertools.permutations(range(teeth - 1)):
        for hook in ("none", "last_right", "last_left", "first_right", "first_left"):
            for width in (1, 2):
                yield "comb:teeth=%d:order=%s:hook=%s:width=%d" % (teeth, "".join(map(str, order)), hook, width), bridged_comb(teeth, order, hook, width)


def _run_catalogue(desc):
    if desc[0] == "combs":
        items = list(bridged_combs(desc[1]))
    else:
        items = list(catalogue(desc[1]).items())
    from ImageD11 import cImageD11 as cI, sparseframe as sf
    sh = Shard()
    for name, mask in items:
        shp = mask.shape
        small = shp[0] * shp[1] <= 129 * 129
        for conn8 in (True, False):
            for vt in (1, 2):
                lo, hi, thr = VT[vt]
                data = np.where(mask, np.float32(hi), np.float32(lo)).astype(np.float32)
                case = {"kind": "catalogue", "shape": list(shp), "gen": name, "vt": vt, "conn8": int(conn8)}
                w, n_want = O.scipy_components(mask, conn8)
                if small:
                    w1, n1 = O.flood_components(mask, conn8)
                    if n1 != n_want or not np.array_equal(O.canon_labels(w1), O.canon_labels(w)):
                        raise RuntimeError("oracles disagree on %r" % (case,))
                want = O.canon_labels(w)
                labs, nr = [], []
                for p in POISONS:
                    l = np.full(shp, p, np.int32)
                    nr.append(cI.connectedpixels(data, l, thr, con8=int(conn8)))
                    labs.append(l)
                if nr[0] != nr[1]:
                    sh.violation("connectedpixels:count-depends-on-buffer-content-or-verbose-flag", case, {"n": nr})
                else:
                    _check_labels(sh, "connectedpixels", case, data, thr, conn8, labs, nr[0], want, n_want)
                sh.evaluations += 1
                seeds = O.n_seeds(mask, conn8)
                if n_want >= 2 or seeds > n_want:
                    sh.nontrivial += 1
                if seeds > 16384:
                    sh.count("cases_with_more_than_16384_provisional_labels")
                sh.outcomes.add((name, n_want > 1))
                sh.sample({"case": case, "components": n_want, "provisional_labels": seeds}, limit=1)
        # sparse + splat (8-connected only): listed = above pixels + every third below pixel
        if mask.any() and shp[0] < 65535 and shp[1] < 65535:
            I, J = np.mgrid[0:shp[0], 0:shp[1]]
            listed = mask | ((I + 2 * J) % 3 == 0)
            ii, jj = np.nonzero(listed)
            v = np.where(mask[ii, jj], 2.0, 1.0).astype(np.float32)
            i16, j16 = ii.astype(np.uint16), jj.astype(np.uint16)
            case = {"kind": "catalogue-sparse", "shape": list(shp), "gen": name}
            w, n_want = O.scipy_components(mask, True)
            want = O.canon_labels(w[ii, jj])
            labs, nr = [], []
            for p in POISONS:
                l = np.full(len(v), p, np.int32)
                nr.append(cI.sparse_connectedpixels(v, i16, j16, 1.5, l))
                labs.append(l)
            if nr[0] != nr[1]:
                sh.violation("sparse_connectedpixels:poison-dependent-count", case, {"n": nr})
            else:
                _check_labels(sh, "sparse_connectedpixels", case, v, 1.5, True, labs, nr[0], want, n_want)
            labs, nr = [], []
            ni, nj = shp
            for p in POISONS:
                l = np.zeros(len(v), np.int32)
                Z = np.full(ni * nj + 2 * ni + 2 * nj + 4, p, np.int32)
                nr.append(cI.sparse_connectedpixels_splat(v, i16, j16, 1.5, l, Z, ni, nj))
                labs.append(l)
            if nr[0] != nr[1]:
                sh.violation("sparse_connectedpixels_splat:poison-dependent-count", case, {"n": nr})
            else:
                _check_labels(sh, "sparse_connectedpixels_splat", case, v, 1.5, True, labs, nr[0], want, n_want)
            sh.evaluations += 1
            if n_want >= 2 or O.n_seeds(mask, True) > n_want:
                sh.nontrivial += 1
    return sh


def _run_sched(desc):
    """the dense kernel relabels in an OpenMP loop: all schedules (T = 2, 3; preemption bound 2) of the tsan-instrumented
    kernel on the vrt runtime for every binary 3x3 image (thorough: 3x4) must give the single-thread labels"""
    _, c, nch, tier = desc
    from vt.vrt import VRT, check_schedule_independence
    sh = Shard()
    V = VRT()
    shp = (3, 3) if tier == "quick" else (3, 4)
    n = shp[0] * shp[1]
    for x in range(c, 1 << n, nch):
        mask = _bits(x, n, shp)
        data = np.ascontiguousarray(np.where(mask, 1.0, 0.0).astype(np.float32))
        for conn8 in (1, 0):
            labels = np.full(shp, 7777, np.int32)
            ref, res, bad = check_schedule_independence(V, "connectedpixels", [data, labels, 0, conn8, shp[0], shp[1]], [0.5], (0,), [labels],
                                                        threads=(2, 3), bound=2)
            case = {"kind": "sched", "shape": list(shp), "mask": mask.astype(int).tolist(), "conn8": conn8}
            want, n_want = O.flood_components(mask, bool(conn8))
            lab = np.frombuffer(ref[1], np.int32).reshape(shp)
            if ref[0] != n_want or not np.array_equal(O.canon_labels(lab), O.canon_labels(want)):
                sh.violation("connectedpixels[vrt build]:partition", case, {"labels": lab})
            for T, sched in bad:
                sh.violation("connectedpixels:schedule-dependent:T=%d" % T, dict(case, schedule=sched), {})
            for r in res:
                sh.states += r["nodes"]
                sh.transitions += r["nodes"] - 1 + r["executions"]
                sh.count("schedule_executions", r["total_executions"])
                sh.count("conflict_words", r["filter_size"])
            sh.evaluations += 1
            if n_want >= 2:
                sh.nontrivial += 1
    sh.sample({"kind": "sched", "shape": list(shp), "threads": [2, 3], "bound": 2}, limit=1)
    return sh


def _run_sparsescan(desc):
    """SparseScan.cplabel labels a stack of sparse frames stored in HDF5 (the segmenter's output): every frame must be the connected
    components of its above-threshold pixels, background 0 for listed-but-below pixels, labels continuing (countall) or restarting"""
    _, tier = desc
    import h5py, shutil
    from ImageD11 import sparseframe as sf
    sh = Shard()
    wd = os.path.join(os.path.dirname(os.path.dirname(os.path.dirname(os.path.abspath(__file__)))), ".work", "c11_ss_%d" % os.getpid())
    os.makedirs(wd, exist_ok=True)
    try:
        shp = (3, 4)
        n = 12
        pw = 3 ** np.arange(n)
        codes_all = [0, 5, 364, 531440, 88573, 265720, 29524, 123456, 400000, 7]
        for stack_id, codes in enumerate(itertools.permutations(codes_all, 3) if tier == "thorough" else
                                         [c for k_, c in enumerate(itertools.permutations(codes_all, 3)) if k_ % 9 == 0]):
            terns = [((c // pw) % 3).reshape(shp) for c in codes]
            rows, cols, vals, nnz = [], [], [], []
            for t in terns:
                ii, jj = np.nonzero(t > 0)
                rows.append(ii); cols.append(jj); vals.append(np.where(t[ii, jj] == 2, 9.0, 3.0)); nnz.append(len(ii))
            fn = os.path.join(wd, "s.h5")
            with h5py.File(fn, "w") as h:
                g = h.create_group("1.1")
                g.attrs["nframes"] = len(terns); g.attrs["shape0"] = shp[0]; g.attrs["shape1"] = shp[1]
                g["row"] = np.concatenate(rows).astype(np.uint16); g["col"] = np.concatenate(cols).astype(np.uint16)
                g["intensity"] = np.concatenate(vals).astype(np.float32); g["nnz"] = np.array(nnz, np.int32)
            for thr in (0.0, 5.0):
                for countall in (True, False):
                    ss = sf.SparseScan(fn, "1.1")
                    ss.cplabel(threshold=thr, countall=countall)
                    case = {"kind": "sparsescan", "frames": [int(c) for c in codes], "threshold": thr, "countall": countall}
                    off = 0
                    pos = 0
                    ok = True
                    for k_, t in enumerate(terns):
                        ii, jj = rows[k_], cols[k_]
                        above = np.zeros(shp, bool)
                        above[ii, jj] = vals[k_] > thr
                        want_img, n_want = O.flood_components(above, True)
                        lab = ss.labels[pos:pos + nnz[k_]]
                        pos += nnz[k_]
                        if ss.nlabels[k_] != n_want:
                            sh.violation("SparseScan.cplabel:count", dict(case, frame=k_), {"nlabels": int(ss.nlabels[k_]), "expected": n_want}); ok = False; break
                        if not np.array_equal(lab == 0, want_img[ii, jj] == 0):
                            sh.violation("SparseScan.cplabel:background", dict(case, frame=k_), {"labels": lab}); ok = False; break
                        if not np.array_equal(O.canon_labels(lab), O.canon_labels(want_img[ii, jj])):
                            sh.violation("SparseScan.cplabel:partition", dict(case, frame=k_), {"labels": lab}); ok = False; break
                        if n_want and (lab[lab > 0].min() != off + 1 or lab.max() != off + n_want):
                            sh.violation("SparseScan.cplabel:label-range", dict(case, frame=k_), {"labels": lab, "offset": off}); ok = False; break
                        if countall:
                            off += n_want
                    if ok and ss.total_labels != sum(int(x) for x in ss.nlabels):
                        sh.violation("SparseScan.cplabel:total", case, {})
                    sh.evaluations += 1
                    sh.nontrivial += 1
        sh.sample(case, limit=1)
    finally:
        shutil.rmtree(wd, ignore_errors=True)
    return sh


def _run_callers(desc):
    """the sparse labelling kernels are declared threadsafe (the GIL is released): two calls on DIFFERENT frames run as two logical
    threads on the schedule-exploring runtime; every interleaving at the words both touch (within 2 preemptions); each call's labels
    are what the call produces alone"""
    _, tier = desc[:2]
    only = desc[2] if len(desc) > 2 else None          # replay: just this (frames, kernels) pair
    from vt.vrt import VRT, callers_interfere
    from vt.sani import Call, A, I, F
    sh = Shard()
    V = VRT()
    frames = []
    for code in (364, 531440 % 19683, 88573 % 19683, 9841, 3280, 14762, 19682, 12345):
        t = ((code // 3 ** np.arange(9)) % 3).reshape(3, 3)
        ii, jj = np.nonzero(t > 0)
        if len(ii):
            frames.append((ii.astype(np.uint16), jj.astype(np.uint16), np.where(t[ii, jj] == 2, 9.0, 3.0).astype(np.float32)))

    def spec(kern, f):
        ii, jj, v = f
        n = len(ii)
        if kern == "sparse_connectedpixels":
            return Call(kern, [A(v), A(ii), A(jj), I(n), F(0.5), A(np.full(n, -3, np.int32), "out")])
        return Call(kern, [A(v), A(ii), A(jj), I(n), F(0.5), A(np.full(n, -3, np.int32), "out"), A(np.zeros(5 * 5, np.int32), "io"), I(3), I(3)])
    pairs = [(a, b) for a in range(len(frames)) for b in range(len(frames)) if a != b]
    if tier == "quick":
        pairs = pairs[::3]
    for a, b in pairs:
        for ka, kb in (("sparse_connectedpixels", "sparse_connectedpixels"), ("sparse_connectedpixels", "sparse_connectedpixels_splat"),
                       ("sparse_connectedpixels_splat", "sparse_connectedpixels_splat")):
            if only is not None and ([a, b], [ka, kb]) != (only[0], only[1]):
                continue
            bad, r = callers_interfere(V, spec(ka, frames[a]), spec(kb, frames[b]))
            case = {"kind": "callers", "frames": [a, b], "kernels": [ka, kb]}
            for sched in (bad or [])[:1]:
                sh.violation("concurrent-callers:%s-and-%s-interfere" % (ka, kb), dict(case, schedule=sched), {"conflict_words": r["filter_size"]})
            sh.states += r["nodes"]
            sh.transitions += r["nodes"] - 1 + r["executions"]
            sh.count("caller_pair_executions", r["total_executions"])
            sh.count("caller_pair_conflict_words", r["filter_size"])
            sh.evaluations += 1
            sh.nontrivial += 1
    if sh.evaluations:
        sh.sample(case, limit=1)
    return sh


def run_shard(desc):
    if desc[0] == "callers":
        return _run_callers(desc)
    if desc[0] == "sparsescan":
        return _run_sparsescan(desc)
    if desc[0] == "sched":
        return _run_sched(desc)
    if desc[0] == "dense":
        return _run_dense(desc)
    if desc[0] == "sparse":
        return _run_sparse(desc)
    return _run_catalogue(desc)


def replay(case):
    from ImageD11 import cImageD11 as cI, sparseframe as sf, labelimage
    import io
    sh = Shard()
    if case["kind"] == "callers":
        r = _run_callers(("callers", "thorough", (case["frames"], case["kernels"])))
        v = r.violations
        return (not v), {"violations": v[:2]}
    if case["kind"] == "sparsescan":
        r = _run_sparsescan(("sparsescan", "thorough"))
        v = [x for x in r.violations if x["case"]["frames"] == case["frames"] and x["case"]["threshold"] == case["threshold"] and x["case"]["countall"] == case["countall"]]
        return (not v), {"violations": v[:2]}
    if case["kind"] == "sched":
        from vt.vrt import VRT, check_schedule_independence
        V = VRT()
        shp = tuple(case["shape"])
        mask = np.array(case["mask"], bool)
        data = np.ascontiguousarray(np.where(mask, 1.0, 0.0).astype(np.float32))
        labels = np.full(shp, 7777, np.int32)
        ref, res, bad = check_schedule_independence(V, "connectedpixels", [data, labels, 0, case["conn8"], shp[0], shp[1]], [0.5], (0,), [labels])
        want, n_want = O.flood_components(mask, bool(case["conn8"]))
        lab = np.frombuffer(ref[1], np.int32).reshape(shp)
        ok = ref[0] == n_want and np.array_equal(O.canon_labels(lab), O.canon_labels(want)) and not bad
        return ok, {"labels": lab, "n": ref[0], "expected_n": n_want, "schedule_dependent": [list(b) for b in bad]}
    if case["kind"] == "dense":
        shp = tuple(case["shape"])
        li = labelimage.labelimage(shp, fileout=io.StringIO(), sptfile=io.StringIO())
        _dense_case(sh, cI, li, np.array(case["mask"], bool), shp, case["vt"], bool(case["conn8"]))
    elif case["kind"] == "sparse":
        shp = tuple(case["shape"])
        _sparse_case(sh, cI, sf, np.array(case["tern"]), shp, vals=tuple(case.get("values", SPARSE_VALS[0])))
    else:
        shp = tuple(case["shape"])
        if str(case.get("gen", "")).startswith("comb:teeth="):
            r = _run_catalogue(("combs", int(case["gen"].split("teeth=")[1][0]) - 3))
        else:
            r = _run_catalogue(("catalogue", shp))
        sh.violations = [v for v in r.violations if v["case"].get("gen") == case.get("gen")]
    return (not sh.violations), {"violations": sh.violations}
