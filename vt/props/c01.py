"""C01 - pixel-to-g-vector geometry agrees across Python, C and numba implementations.

Bounded exhaustive exploration of the FULL on/off product of the geometry parameters:
y_size in {+s,-s} x z_size in {+s,-s} x tilt_x, tilt_y, tilt_z in {0,v} x the 8 signed-permutation
flip matrices (o11,o12,o21,o22) x wedge in {0,w} x chi in {0,c} x omegasign in {+1,-1} x
t_x, t_y, t_z in {0,v} = 16 384 configurations (thorough: x 4 magnitude sets), each with 12 (36)
peaks (3x3 detector positions x omegas incl. negative and > 180 deg).
Oracle: the documented Python reference formulas transform.compute_xyz_lab /
compute_tth_eta_from_xyz / compute_grain_origins / compute_k_vectors / compute_g_from_k.
Compared routes: Ctransform.sf2xyz / xyz2gv / sf2gv / xyz2geometry (C), columnfile.updateGeometry
fast vs slow (all nine columns, translation from the parameters and given explicitly) and updateGV,
point_by_point numba helpers and compute_gve, point_by_point.get_local_gv.
"""
from __future__ import annotations
import itertools, os
import numpy as np
from vt.runner import Shard

LEVEL = "exploration"
RULE = ("cases = geometry configurations from the full on/off product (16 384 per magnitude set), each evaluated on every "
        "route with a fixed peak table; non-trivial = at least two parameters switched on")
ASSUMPTIONS = ["continuous parameters are represented by off and one (thorough: four) magnitudes; peaks kept >= 50 pixels from "
               "the beam centre so that eta is well conditioned", "tolerances: xl,yl,zl 1e-8 (values ~1e5), tth/eta 1e-9 deg "
               "(eta on the circle), ds and g 1e-12"]

FLIPS = [(1, 0, 0, 1), (1, 0, 0, -1), (-1, 0, 0, 1), (-1, 0, 0, -1), (0, 1, 1, 0), (0, 1, -1, 0), (0, -1, 1, 0), (0, -1, -1, 0)]

MAGS = [
    dict(ys=47.5, zs=52.3, tx=0.011, ty=-0.017, tz=0.023, wedge=1.7, chi=-0.9, t=(123.4, -87.6, 55.5), dist=151234.5, wl=0.2846),
    dict(ys=50.0, zs=50.0, tx=-0.003, ty=0.008, tz=-0.041, wedge=-5.0, chi=3.3, t=(-400.0, 250.0, -310.0), dist=98765.4, wl=0.1542),
    dict(ys=75.0, zs=74.0, tx=0.05, ty=0.05, tz=0.05, wedge=12.0, chi=-7.5, t=(10.0, 10.0, 10.0), dist=250000.0, wl=0.7093),
    dict(ys=1.4, zs=1.4, tx=-0.0007, ty=-0.0011, tz=0.0003, wedge=-0.05, chi=-0.02, t=(499.0, -499.0, 499.0), dist=4000.0, wl=0.3099),
    # set 4: the same kind of experiment written in METRES (pixel 75e-6 m, distance 0.25 m, grain offsets of 0.1 .. 0.3 mm): nothing in
    # the formulas has a preferred length unit
    dict(ys=75e-6, zs=-74e-6, tx=0.011, ty=-0.017, tz=0.023, wedge=1.7, chi=-0.9, t=(1.2e-4, -0.9e-4, 3.0e-4), dist=0.25, wl=0.2846),
]


def peak_table(tier):
    pos = [(200.0, 310.0), (1024.2, 150.7), (1900.5, 400.1), (150.3, 1100.9), (1700.0, 1650.0), (300.9, 1900.2),
           (1010.0, 1960.0), (1880.0, 1020.0), (640.0, 1430.0)]
    oms = [-170.0, -33.3, 12.5, 97.0, 181.0, 359.5, 720.25]
    if tier == "quick":
        pk = [(pos[i], oms[(2 * i) % len(oms)]) for i in range(9)] + [(pos[0], oms[4]), (pos[4], oms[4]), (pos[8], oms[4])]
    else:
        pk = [(p, o) for p in pos for o in oms[:4]]
    sc = np.array([p[0][0] for p in pk]); fc = np.array([p[0][1] for p in pk]); om = np.array([p[1] for p in pk])
    return sc, fc, om


def configs(mag):
    m = MAGS[mag]
    for ysg, zsg, a, b, c, fl, w, ch, osn, x, y, z in itertools.product((1, -1), (1, -1), (0, 1), (0, 1), (0, 1), range(8), (0, 1),
                                                                      (0, 1), (1, -1), (0, 1), (0, 1), (0, 1)):
        o11, o12, o21, o22 = FLIPS[fl]
        pars = {"y_center": 1000.3, "z_center": 1050.7, "y_size": ysg * m["ys"], "z_size": zsg * m["zs"],
                "distance": m["dist"], "wavelength": m["wl"], "omegasign": float(osn),
                "tilt_x": a * m["tx"], "tilt_y": b * m["ty"], "tilt_z": c * m["tz"],
                "o11": o11, "o12": o12, "o21": o21, "o22": o22, "wedge": w * m["wedge"], "chi": ch * m["chi"],
                "t_x": x * m["t"][0], "t_y": y * m["t"][1], "t_z": z * m["t"][2]}
        non = (ysg < 0) + (zsg < 0) + a + b + c + (fl != 1) + w + ch + (osn < 0) + x + y + z
        yield pars, non


def plan(tier, seed):
    mags = [seed % 4] if tier == "quick" else [0, 1, 2, 3]
    shards = []
    for mg in mags:
        for c in range(64):
            shards.append(("cfg", tier, mg, c, 64))
    if tier == "quick":
        # a quarter of a second magnitude set whose wedge has the other sign (sets 1 and 3 have wedge < 0)
        other = 1 if mags[0] in (0, 2) else 0
        for k_ in range(16):
            shards.append(("cfg", tier, other, (5 * k_ + 1) % 64, 64))
        for k_ in range(8):
            shards.append(("cfg", tier, 4, (7 * k_ + 3) % 64, 64))
    else:
        for c in range(64):
            shards.append(("cfg", tier, 4, c, 64))
    for c in range(4):
        shards.append(("sched", tier, mags[0], c, 4))
    for c in range(8):
        shards.append(("hist", tier, mags[0], c, 8))
    shards.append(("callers", tier, mags[0]))
    shards.append(("sizes", tier, mags[0]))
    for gi in ((3, 12) if tier == "quick" else (3, 12, 21, 30)):
        shards.append(("rgfit", tier, gi))
    for gi in ((5, 14, 27) if tier == "quick" else (5, 14, 27, 8, 19, 30)):
        shards.append(("assign_scans", tier, gi))
    k = seed % len(shards)
    return shards[k:] + shards[:k]


def _run_sched(desc):
    """compute_gv / compute_geometry / compute_xlylzl run their peak loop under OpenMP with a long private() list: all schedules
    (T = 2, 3, bound 2) of the instrumented kernels on 6 peaks (four of them on one frame) for a slice of the configurations must give the 1-thread result,
    which must equal the Python reference"""
    _, tier, mg, c, nch = desc
    from vt.vrt import VRT, check_schedule_independence
    from ImageD11 import transform as tr
    sh = Shard()
    V = VRT()
    sc, fc, om = peak_table("quick")
    sc, fc, om = sc[:6].copy(), fc[:6].copy(), om[:6].copy()
    om[2:5] = om[1]          # a run of peaks from one frame (equal omega) that straddles the static chunk boundaries for T = 2 and 3
    n = 6
    for idx, (pars, non) in enumerate(configs(mg)):
        if idx % 257 != c * 7 % 257 and idx % 1021 != c:
            continue
        xyz, tth, eta, ds, g = reference(tr, pars, sc, fc, om)
        C = tr.Ctransform(pars)
        case = {"kind": "sched", "mag": mg, "config": idx, "pars": pars}
        xin = np.ascontiguousarray(xyz.T)
        t = np.array([pars["t_x"], pars["t_y"], pars["t_z"]])
        gv = np.full((n, 3), 1e300)
        ref, res, bad = check_schedule_independence(V, "compute_gv", [xin, om, t, gv, n], [pars["omegasign"], pars["wavelength"], pars["wedge"], pars["chi"]],
                                                    (), [gv], void=True)
        # argument order of the C function: (xlylzl, omega, omegasign, wvln, wedge, chi, t, gv, n): pointers/ints and doubles are
        # assigned to their register classes independently, so the generic trampoline reproduces the call
        got = np.frombuffer(ref[1], float).reshape(n, 3)
        if np.abs(got.T - g).max() > 1e-12:
            sh.violation("compute_gv[vrt build]:differs-from-reference", case, {"max": float(np.abs(got.T - g).max())})
        for T, sched in bad:
            sh.violation("compute_gv:schedule-dependent:T=%d" % T, dict(case, schedule=sched), {})
        out = np.full((n, 6), 1e300)
        ref2, res2, bad2 = check_schedule_independence(V, "compute_geometry", [xin, om, t, out, n],
                                                       [pars["omegasign"], pars["wavelength"], pars["wedge"], pars["chi"]], (), [out], void=True)
        got2 = np.frombuffer(ref2[1], float).reshape(n, 6)
        if np.abs(got2[:, 3:6].T - g).max() > 1e-12 or np.abs(got2[:, 0] - tth).max() > 1e-9:
            sh.violation("compute_geometry[vrt build]:differs-from-reference", case, {})
        for T, sched in bad2:
            sh.violation("compute_geometry:schedule-dependent:T=%d" % T, dict(case, schedule=sched), {})
        # compute_xlylzl (detector position -> lab coordinates); its loop is serial today: with the serial request overridden the
        # exploration covers the parallel version of the loop if it is ever given a pragma (also one guarded by `if (n > ...)`)
        xl = np.full((n, 3), 1e300)
        cen = np.array([pars["z_center"], pars["y_center"], pars["z_size"], pars["y_size"]])
        dvec = np.array([pars["distance"], 0.0, 0.0])
        rmat = np.ascontiguousarray(C.rmat, float)
        V.L.vrt_ignore_serial_request(1)
        try:
            ref3, res3, bad3 = check_schedule_independence(V, "compute_xlylzl", [sc.copy(), fc.copy(), cen, rmat, dvec, xl, n], [], (), [xl], void=True)
        finally:
            V.L.vrt_ignore_serial_request(0)
        got3 = np.frombuffer(ref3[1], float).reshape(n, 3)
        if np.abs(got3.T - xyz).max() > 1e-9 * max(1.0, np.abs(xyz).max()):
            sh.violation("compute_xlylzl[vrt build]:differs-from-reference", case, {"max": float(np.abs(got3.T - xyz).max())})
        for T, sched in bad3:
            sh.violation("compute_xlylzl:schedule-dependent:T=%d" % T, dict(case, schedule=sched), {})
        for r in res + res2 + res3:
            sh.states += r["nodes"]
            sh.transitions += r["nodes"] - 1 + r["executions"]
            sh.count("schedule_executions", r["total_executions"])
            sh.count("conflict_words", r["filter_size"])
        sh.evaluations += 1
        if non >= 2:
            sh.nontrivial += 1
    sh.sample({"kind": "sched", "kernels": ["compute_gv", "compute_geometry"], "threads": [2, 3], "bound": 2}, limit=1)
    return sh


def _run_hist(desc):
    """histories on ONE columnfile: geometry computed for configuration A, then the parameters (or the peak positions) change to B
    through each of the public ways, then the geometry is updated again: every column must be that of B (nothing cached from A)"""
    _, tier, mg, c, nch = desc
    tr, cf_mod, pbp, par_mod = _mods()
    sh = Shard()
    sc, fc, om = peak_table("quick")
    cfgs = list(configs(mg))
    names = ("xl", "yl", "zl", "tth", "eta", "ds", "gx", "gy", "gz")
    tols = {"xl": 1e-8, "yl": 1e-8, "zl": 1e-8, "tth": 1e-9, "eta": 1e-9, "ds": 1e-12, "gx": 1e-12, "gy": 1e-12, "gz": 1e-12}
    npairs = 256 if tier == "quick" else 2048
    for q in range(c, npairs, nch):
        ia = (q * 61 + 7) % len(cfgs)
        ib = (q * 37 + 4099) % len(cfgs)
        PA, PB = cfgs[ia][0], cfgs[ib][0]
        tB = (PB["t_x"] + 11.0, PB["t_y"] - 7.0, PB["t_z"] + 3.0)
        for variant in ("pars_then_pars", "setparameters_then_translation", "parameters.set_then_plain", "positions_rewritten"):
            for fast in (True, False):
                cf = cf_mod.colfile_from_dict({"sc": sc.copy(), "fc": fc.copy(), "omega": om.copy()})
                cf.updateGeometry(pars=par_mod.parameters(**PA), fast=fast)
                want_p, want_sc, want_fc = dict(PB), sc, fc
                if variant == "pars_then_pars":
                    cf.updateGeometry(pars=par_mod.parameters(**PB), fast=fast)
                elif variant == "setparameters_then_translation":
                    cf.setparameters(par_mod.parameters(**PB))
                    cf.updateGeometry(translation=tB, fast=fast)
                    want_p = dict(PB, t_x=tB[0], t_y=tB[1], t_z=tB[2])
                elif variant == "parameters.set_then_plain":
                    for k_, v in PB.items():
                        cf.parameters.set(k_, v)
                    cf.updateGeometry(fast=fast)
                else:
                    cf.sc[:] = sc[::-1]
                    cf.fc[:] = fc[::-1]
                    cf.updateGeometry(translation=tB, fast=fast)
                    want_p = dict(PA, t_x=tB[0], t_y=tB[1], t_z=tB[2])
                    want_sc, want_fc = sc[::-1].copy(), fc[::-1].copy()
                xyz, tth, eta, ds, g = reference(tr, want_p, want_sc, want_fc, om)
                want = dict(zip(names, (xyz[0], xyz[1], xyz[2], tth, eta, ds, g[0], g[1], g[2])))
                if variant == "pars_then_pars" and fast:
                    # the same history on ONE Ctransform object: parameters replaced, reset(), used again
                    C = tr.Ctransform(PA)
                    C.sf2xyz(sc, fc)
                    C.pars.update({k_: PB[k_] for k_ in C.pnames})
                    C.reset()
                    geo = C.xyz2geometry(C.sf2xyz(sc, fc), om, PB["t_x"], PB["t_y"], PB["t_z"])
                    if not (np.abs(geo[:, 3:6].T - g).max() <= 1e-12 and np.abs(geo[:, 0] - tth).max() <= 1e-9):
                        sh.violation("Ctransform[history:pars replaced, reset()]", {"kind": "hist", "mag": mg, "config_a": ia, "config_b": ib, "variant": "Ctransform.reset",
                                                                                 "fast": True}, {"max_g_diff": float(np.abs(geo[:, 3:6].T - g).max())})
                case = {"kind": "hist", "mag": mg, "config_a": ia, "config_b": ib, "variant": variant, "fast": fast}
                for nm in names:
                    if not cmp(sh, "columnfile.updateGeometry[history:%s,%s]:%s" % (variant, "fast" if fast else "slow", nm), case, cf.getcolumn(nm), want[nm],
                               tols[nm], circle=(nm == "eta")):
                        break
                sh.evaluations += 1
                sh.nontrivial += 1
    sh.sample(case, limit=1)
    sh.outcomes.add("hist")
    return sh


def _run_callers(desc):
    """two python threads inside the C geometry kernels at the same time (f2py releases the GIL for `threadsafe` kernels): two
    complete calls with DIFFERENT parameters run as two logical threads on the vrt runtime; all interleavings at the words both
    touch (within 2 preemptions); each call must return what it returns alone"""
    _, tier, mg = desc
    from vt.vrt import VRT
    from ImageD11 import transform as tr
    sh = Shard()
    V = VRT()
    sc, fc, om = peak_table("quick")
    n = 6
    sc, fc, om = sc[:n].copy(), fc[:n].copy(), om[:n].copy()
    cfgs = list(configs(mg))
    picks = [(37, 16000), (5000, 121), (9000, 9001), (16383, 0)] if tier == "quick" else [((q * 977) % 16384, (q * 131 + 7000) % 16384) for q in range(24)]
    for ia, ib in picks:
        for ka, kb in (("compute_geometry", "compute_geometry"), ("compute_geometry", "compute_gv"), ("compute_gv", "compute_gv")):
            blocks = []
            outs = []
            for idx, kern in ((ia, ka), (ib, kb)):
                p = cfgs[idx][0]
                xyz = np.ascontiguousarray(tr.compute_xyz_lab(np.array([sc, fc]), **p).T)
                t = np.array([p["t_x"], p["t_y"], p["t_z"]])
                out = np.zeros((n, 6 if kern == "compute_geometry" else 3))
                omc = om.copy()
                blocks.append((kern, [xyz, omc, t, out, n], [p["omegasign"], p["wavelength"], p["wedge"], p["chi"]]))
                outs.append(out)
            arrays = [a for b in blocks for a in b[1] if isinstance(a, np.ndarray)]
            V.register(*arrays)
            # each call alone
            alone = []
            for (kern, ints, dbls), out in zip(blocks, outs):
                out[:] = -1.0
                V.run(V.kernel(kern, ints, dbls=dbls), 1, [])
                alone.append(out.copy())
            A = V.kernel_args(*blocks[0][:1], blocks[0][1], blocks[0][2])
            B = V.kernel_args(*blocks[1][:1], blocks[1][1], blocks[1][2])
            call = V.two_callers(A, B)

            def prepare():
                for o in outs:
                    o[:] = -1.0

            def observe(ret):
                return tuple(o.tobytes() for o in outs)
            ref = tuple(a.tobytes() for a in alone)
            r = V.explore(prepare, call, observe, 2, 2, max_exec=200000, early_stop=lambda o: o != ref, prune=False)
            case = {"kind": "callers", "mag": mg, "config_a": ia, "config_b": ib, "kernels": [ka, kb]}
            for obs, sched in r["outcomes"].items():
                if obs != ref:
                    sh.violation("concurrent-callers:%s-and-%s-interfere" % (ka, kb), dict(case, schedule=sched),
                                 {"conflict_words": r["filter_size"], "what": "a call returned something else than it returns alone"})
            sh.states += r["nodes"]
            sh.transitions += r["nodes"] - 1 + r["executions"]
            sh.count("caller_pair_executions", r["total_executions"])
            sh.count("caller_pair_conflict_words", r["filter_size"])
            sh.evaluations += 1
            sh.nontrivial += 1
    sh.sample(case, limit=1)
    sh.outcomes.add("callers")
    return sh


def circ(a, b):
    return np.abs((a - b + 180.0) % 360.0 - 180.0)


def reference(tr, pars, sc, fc, om):
    xyz = tr.compute_xyz_lab(np.array([sc, fc]), **pars)
    ome = om * pars["omegasign"]
    tth, eta = tr.compute_tth_eta_from_xyz(xyz, ome, t_x=pars["t_x"], t_y=pars["t_y"], t_z=pars["t_z"], wedge=pars["wedge"], chi=pars["chi"])
    k = tr.compute_k_vectors(tth, eta, pars["wavelength"])
    g = tr.compute_g_from_k(k, ome, pars["wedge"], pars["chi"])
    ds = np.sqrt((g * g).sum(axis=0))
    return xyz, tth, eta, ds, g


def cmp(sh, key, case, got, want, tol, circle=False):
    got = np.asarray(got, float); want = np.asarray(want, float)
    if got.shape != want.shape:
        sh.violation(key + ":shape", case, {"got": got.shape, "expected": want.shape})
        return False
    d = circ(got, want) if circle else np.abs(got - want)
    if not np.isfinite(got).all() or d.max() > tol:
        i = int(np.argmax(np.where(np.isfinite(d), d, np.inf)))
        sh.violation(key, case, {"max_diff": float(np.nanmax(d)), "tol": tol, "got": got.ravel()[i], "expected": want.ravel()[i], "index": i})
        return False
    return True


def check_config(sh, mods, pars, sc, fc, om, case, full=True):
    tr, cf_mod, pbp, par_mod = mods
    xyz, tth, eta, ds, g = reference(tr, pars, sc, fc, om)
    # whole-pixel positions handed over as INTEGER arrays (pixel indices from np.mgrid, a look-up table over the detector): the same lab
    # coordinates as for the same numbers written as floats
    pix = np.array([np.round(sc[:8]), np.round(fc[:8])]).astype(np.int64)
    det_ = {k: pars[k] for k in ("y_center", "y_size", "tilt_y", "z_center", "z_size", "tilt_z", "tilt_x", "distance", "o11", "o12", "o21", "o22")}
    keep_pix = pix.copy()
    xi = tr.compute_xyz_lab(pix, **det_)
    xf = tr.compute_xyz_lab(pix.astype(float), **det_)
    if not np.array_equal(pix, keep_pix):
        sh.violation("compute_xyz_lab:modifies-the-pixel-positions-it-is-given", case, {})
        return False
    if not cmp(sh, "compute_xyz_lab[integer pixel positions]", case, xi, xf, 1e-9 * (1.0 + np.abs(xf).max())):
        return False
    n = len(sc)
    ok = True
    # ---- C route
    C = tr.Ctransform(pars)
    # a second computer for another experiment is made (and stays alive) before the first one is used: each object answers for the
    # parameter set it was made with
    other = tr.Ctransform(dict(pars, wavelength=pars["wavelength"] * 1.7, wedge=pars["wedge"] + 3.0, chi=pars["chi"] - 2.0,
                               omegasign=-pars["omegasign"], distance=pars["distance"] * 1.3, y_center=pars["y_center"] + 40.0))
    n = len(sc)
    # the caller's output arrays arrive filled with NaN: a row that is not written stays visible
    cx = C.sf2xyz(sc, fc, out=np.full((n, 3), np.nan))
    ok &= cmp(sh, "Ctransform.sf2xyz", case, cx.T, xyz, 1e-8)
    t = (pars["t_x"], pars["t_y"], pars["t_z"])
    gv = C.xyz2gv(cx, om, *t, out=np.full((n, 3), np.nan))
    ok &= cmp(sh, "Ctransform.xyz2gv", case, gv.T, g, 1e-12)
    gv2 = C.sf2gv(sc, fc, om, *t, out=np.full((n, 3), np.nan))
    ok &= cmp(sh, "Ctransform.sf2gv", case, gv2.T, g, 1e-12)
    ok &= cmp(sh, "Ctransform.sf2gv[out=None]", case, C.sf2gv(sc, fc, om, *t).T, g, 1e-12)
    geo = C.xyz2geometry(cx, om, *t, out=np.full((n, 6), np.nan))
    ok &= cmp(sh, "Ctransform.xyz2geometry:tth", case, geo[:, 0], tth, 1e-9)
    ok &= cmp(sh, "Ctransform.xyz2geometry:eta", case, geo[:, 1], eta, 1e-9, circle=True)
    ok &= cmp(sh, "Ctransform.xyz2geometry:ds", case, geo[:, 2], ds, 1e-12)
    ok &= cmp(sh, "Ctransform.xyz2geometry:g", case, geo[:, 3:6].T, g, 1e-12)
    if not ok:
        return False
    if any(C.pars[k] != pars[k] for k in C.pnames) or other.pars["wedge"] != pars["wedge"] + 3.0:
        sh.violation("Ctransform.pars:not-the-parameter-set-the-object-was-made-with", case, {})
        return False
    # ---- columnfile fast / slow
    po = par_mod.parameters(**pars)
    cols = {}
    for fast in (True, False):
        c = cf_mod.colfile_from_dict({"sc": sc.copy(), "fc": fc.copy(), "omega": om.copy()})
        c.updateGeometry(pars=po, fast=fast)
        cols[fast] = c
    names = ("xl", "yl", "zl", "tth", "eta", "ds", "gx", "gy", "gz")
    want = dict(zip(names, (xyz[0], xyz[1], xyz[2], tth, eta, ds, g[0], g[1], g[2])))
    tols = {"xl": 1e-8, "yl": 1e-8, "zl": 1e-8, "tth": 1e-9, "eta": 1e-9, "ds": 1e-12, "gx": 1e-12, "gy": 1e-12, "gz": 1e-12}
    for nm in names:
        for fast in (True, False):
            if nm not in cols[fast].titles:
                sh.violation("columnfile.updateGeometry[%s]:missing-column-%s" % ("fast" if fast else "slow", nm), case, {})
                return False
            ok &= cmp(sh, "columnfile.updateGeometry[%s]:%s" % ("fast" if fast else "slow", nm), case, cols[fast].getcolumn(nm), want[nm],
                      tols[nm], circle=(nm == "eta"))
    if not ok:
        return False
    if full:
        # explicit translation argument overrides the parameters
        p0 = dict(pars, t_x=0.0, t_y=0.0, t_z=0.0)
        for fast in (True, False):
            c = cf_mod.colfile_from_dict({"sc": sc.copy(), "fc": fc.copy(), "omega": om.copy()})
            c.updateGeometry(pars=par_mod.parameters(**p0), translation=t, fast=fast)
            for nm in ("tth", "eta", "gx", "gy", "gz"):
                ok &= cmp(sh, "columnfile.updateGeometry[%s,translation=]:%s" % ("fast" if fast else "slow", nm), case, c.getcolumn(nm),
                          want[nm], tols[nm], circle=(nm == "eta"))
        c = cf_mod.colfile_from_dict({"sc": sc.copy(), "fc": fc.copy(), "omega": om.copy()})
        c.updateGV(pars=po, fast=True)
        for i, nm in enumerate(("gx", "gy", "gz")):
            ok &= cmp(sh, "columnfile.updateGV:%s" % nm, case, c.getcolumn(nm), g[i], 1e-12)
        # a table that already HAS g-vector columns of another kind (integer placeholders, float32 columns from a compact HDF5 file, the
        # same array under two names): afterwards they are the full-precision g-vectors all the same, by every route
        for fast in (True, False):
            for route in ("updateGV", "updateGeometry"):
                shared = np.zeros(n, np.float32)
                c = cf_mod.colfile_from_dict({"sc": sc.copy(), "fc": fc.copy(), "omega": om.copy(), "gx": np.zeros(n, np.int64),
                                              "gy": shared, "gz": np.full(n, 7, np.int32)})
                getattr(c, route)(pars=po, fast=fast)
                for i, nm in enumerate(("gx", "gy", "gz")):
                    ok &= cmp(sh, "columnfile.%s[%s, g columns of another type existed]:%s" % (route, "fast" if fast else "slow", nm), case,
                              c.getcolumn(nm), g[i], 1e-12)
    # ---- numba copies (omega sign applied by the caller, as point_by_point does)
    ome = om * pars["omegasign"]
    nx = pbp.compute_xyz_lab(sc.copy(), fc.copy(), y_center=pars["y_center"], y_size=pars["y_size"], tilt_y=pars["tilt_y"],
                             z_center=pars["z_center"], z_size=pars["z_size"], tilt_z=pars["tilt_z"], tilt_x=pars["tilt_x"],
                             distance=pars["distance"], o11=float(pars["o11"]), o12=float(pars["o12"]), o21=float(pars["o21"]),
                             o22=float(pars["o22"]))
    ok &= cmp(sh, "point_by_point.compute_xyz_lab", case, nx, xyz, 1e-8)
    ntth, neta = pbp.compute_tth_eta_from_xyz(nx, ome, t_x=pars["t_x"], t_y=pars["t_y"], t_z=pars["t_z"], wedge=pars["wedge"], chi=pars["chi"])
    ok &= cmp(sh, "point_by_point.compute_tth_eta_from_xyz:tth", case, ntth, tth, 1e-9)
    ok &= cmp(sh, "point_by_point.compute_tth_eta_from_xyz:eta", case, neta, eta, 1e-9, circle=True)
    go = pbp.compute_grain_origins(ome, pars["wedge"], pars["chi"], pars["t_x"], pars["t_y"], pars["t_z"])
    ok &= cmp(sh, "point_by_point.compute_grain_origins", case, go,
              tr.compute_grain_origins(ome, wedge=pars["wedge"], chi=pars["chi"], t_x=pars["t_x"], t_y=pars["t_y"], t_z=pars["t_z"]), 1e-9)
    ng = pbp.compute_gve(sc.copy(), fc.copy(), ome, np.zeros(n), pars["distance"], pars["y_center"], pars["y_size"], pars["tilt_y"],
                         pars["z_center"], pars["z_size"], pars["tilt_z"], pars["tilt_x"], float(pars["o11"]), float(pars["o12"]),
                         float(pars["o21"]), float(pars["o22"]), pars["t_x"], pars["t_y"], pars["t_z"], pars["wedge"], pars["chi"],
                         pars["wavelength"])
    ok &= cmp(sh, "point_by_point.compute_gve", case, ng, g, 1e-12)
    nk = pbp.compute_k_vectors(tth, eta, pars["wavelength"])
    ok &= cmp(sh, "point_by_point.compute_k_vectors", case, nk, tr.compute_k_vectors(tth, eta, pars["wavelength"]), 1e-13)
    nk0, ome0 = nk.copy(), ome.copy()
    ok &= cmp(sh, "point_by_point.compute_g_from_k", case, pbp.compute_g_from_k(nk, ome, pars["wedge"], pars["chi"]), g, 1e-12)
    # "g-vectors with cached k-vectors": the k array is the caller's and is used again (next omega) - it must come back untouched
    ok &= cmp(sh, "point_by_point.compute_g_from_k:caller's-k-changed", case, nk, nk0, 0.0)
    ok &= cmp(sh, "point_by_point.compute_g_from_k:caller's-omega-changed", case, ome, ome0, 0.0)
    ok &= cmp(sh, "point_by_point.compute_g_from_k[second call, omega+0.125]", case,
              pbp.compute_g_from_k(nk, ome + 0.125, pars["wedge"], pars["chi"]),
              tr.compute_g_from_k(nk0, ome0 + 0.125, wedge=pars["wedge"], chi=pars["chi"]), 1e-12)
    ok &= cmp(sh, "point_by_point.compute_tth_eta_from_xyz:caller's-xyz-changed", case, nx, xyz, 1e-8)
    if full:
        # xpos: compute_gve shortens the distance per peak; equals the reference with that distance
        xpos = np.linspace(-300.0, 300.0, n)
        ng2 = pbp.compute_gve(sc.copy(), fc.copy(), ome, xpos, pars["distance"], pars["y_center"], pars["y_size"], pars["tilt_y"],
                              pars["z_center"], pars["z_size"], pars["tilt_z"], pars["tilt_x"], float(pars["o11"]), float(pars["o12"]),
                              float(pars["o21"]), float(pars["o22"]), pars["t_x"], pars["t_y"], pars["t_z"], pars["wedge"], pars["chi"],
                              pars["wavelength"])
        xyz2 = xyz.copy(); xyz2[0] -= xpos
        t2, e2 = tr.compute_tth_eta_from_xyz(xyz2, ome, t_x=pars["t_x"], t_y=pars["t_y"], t_z=pars["t_z"], wedge=pars["wedge"], chi=pars["chi"])
        g2 = tr.compute_g_vectors(t2, e2, ome, pars["wavelength"], wedge=pars["wedge"], chi=pars["chi"])
        ok &= cmp(sh, "point_by_point.compute_gve[xpos]", case, ng2, g2, 1e-12)
        # get_local_gv: C compute_gv with the x origin shifted to the voxel (no translation)
        pbp.parglobal = par_mod.parameters(**pars)
        si, sj, ystep = 3, -2, 1.5
        so, co = np.sin(np.radians(om)), np.cos(np.radians(om))
        # the peak arrays are the caller's (the same lab coordinates serve every voxel): they are what they were afterwards, and a
        # second voxel computed from the same arrays is right too
        xa, ya, za = xyz[0].copy(), xyz[1].copy(), xyz[2].copy()
        gvl, gx_, gy_, gz_ = pbp.get_local_gv(si, sj, ystep, om, so, co, xa, ya, za)
        if not (np.array_equal(xa, xyz[0]) and np.array_equal(ya, xyz[1]) and np.array_equal(za, xyz[2])):
            sh.violation("point_by_point.get_local_gv:modifies-the-peak-coordinates-it-is-given", case, {"max_change_x": float(np.abs(xa - xyz[0]).max())})
            return False
        from ImageD11.sinograms import geometry
        gvl_b = pbp.get_local_gv(-4, 5, ystep, om, so, co, xa, ya, za)[0]
        sxb, syb = geometry.step_to_sample(-4, 5, ystep)
        xyzb = xyz.copy(); xyzb[0] -= sxb * co - syb * so
        tb_, eb_ = tr.compute_tth_eta_from_xyz(xyzb, ome)
        ok &= cmp(sh, "point_by_point.get_local_gv[second voxel, same arrays]", case, gvl_b.T,
                  tr.compute_g_vectors(tb_, eb_, ome, pars["wavelength"], wedge=pars["wedge"], chi=pars["chi"]), 1e-12)
        sx, sy = geometry.step_to_sample(si, sj, ystep)
        xyz3 = xyz.copy(); xyz3[0] -= sx * co - sy * so
        t3, e3 = tr.compute_tth_eta_from_xyz(xyz3, ome)
        g3 = tr.compute_g_vectors(t3, e3, ome, pars["wavelength"], wedge=pars["wedge"], chi=pars["chi"])
        ok &= cmp(sh, "point_by_point.get_local_gv", case, gvl.T, g3, 1e-12)
    return bool(ok)


SIZES_Q = (1, 2, 3, 15, 16, 17, 31, 32, 33, 63, 64, 65, 127, 128, 129, 255, 256, 257, 511, 512, 513, 1023, 1024, 1025)
SIZES_T = SIZES_Q + (2047, 2048, 2049, 4095, 4096, 4097, 8191, 8192, 8193, 65535, 65536, 65537)


def size_table(n):
    i = np.arange(n, dtype=float)
    sc = 1024.0 + 900.0 * np.sin(0.37 * i + 0.2)
    fc = 1024.0 + 900.0 * np.cos(0.91 * i - 0.4)
    om = np.mod(i * 7.3, 540.0) - 180.0
    return sc, fc, om


def _run_sizes(desc):
    """the number of peaks in one call (the compiled loops run in parallel chunks; tables are any length): every length around the
    powers of two, three configurations (everything on, wedge only, nothing), every route of check_config"""
    _, tier, mg = desc
    mods = _mods()
    sh = Shard()
    cfgs = list(configs(mg))
    picks = [len(cfgs) - 1, max(i for i, (p, non) in enumerate(cfgs) if p["wedge"] != 0 and p["chi"] == 0 and non == 1), 0]
    for n in (SIZES_Q if tier == "quick" else SIZES_T):
        sc, fc, om = size_table(n)
        for ci in picks:
            pars = cfgs[ci][0]
            case = {"kind": "sizes", "mag": mg, "config": ci, "pars": pars, "npeaks": n}
            check_config(sh, mods, pars, sc, fc, om, case, full=True)
            sh.evaluations += 1
            sh.nontrivial += 1
        sh.outcomes.add(("npeaks", n))
    return sh


def _mods():
    from ImageD11 import transform as tr, columnfile as cf_mod, parameters as par_mod
    from ImageD11.sinograms import point_by_point as pbp
    return tr, cf_mod, pbp, par_mod


def _run_rgfit(desc):
    """the global-parameter fit of refinegrains (fit / gof): whichever single geometry parameter is being varied, after gof(new value)
    every grain's lab coordinates and the g-vectors the object holds are those of the reference formulas for the CURRENT parameters"""
    _, tier, gi = desc
    import io, contextlib, shutil
    from ImageD11 import refinegrains, transform as tr, parameters as P
    from vt.props import c09
    sh = Shard()
    pars = c09.geometries("quick")[gi]
    truth = c09.true_grains(2, 0)
    peaks = c09.simulate(tr, pars, truth)
    wd = os.path.join(c09.WORK, "c01_rg_%d" % os.getpid())
    shutil.rmtree(wd, ignore_errors=True)
    os.makedirs(wd)
    try:
        fn = os.path.join(wd, "p.flt")
        with open(fn, "w") as fh:
            fh.write("#  sc  fc  omega  Number_of_pixels  avg_intensity  sum_intensity\n")
            for k in range(len(peaks)):
                fh.write("%.4f  %.4f  %.4f  %.0f  %.4f  %.4f\n" % (peaks[k, 0], peaks[k, 1], peaks[k, 2], 10, 100.0, 1000.0))
        for pname in ("tilt_x", "tilt_y", "tilt_z", "distance", "y_center", "z_center", "wedge", "chi", "wavelength", "y_size", "z_size", "t_x"):
            with contextlib.redirect_stdout(io.StringIO()):
                o = refinegrains.refinegrains(tolerance=0.05, OmFloat=False)
                o.parameterobj = P.parameters(**pars)
                for k_, s_ in o.stepsizes.items():
                    o.parameterobj.stepsizes[k_] = s_
                o.loadfiltered(fn)
                for gidx, (ubi, t) in enumerate(truth):
                    o.grainnames.append(gidx)
                    o.ubisread[gidx] = ubi.copy()
                    o.translationsread[gidx] = t.copy()
                o.generate_grains()
                o.parameterobj.varylist = [pname]
                o.fit(maxiters=1)
                newval = o.parameterobj.parameters[pname] + 3.0 * o.stepsizes[pname]
                o.gof([newval])
            cur = dict(o.parameterobj.parameters)
            case = {"kind": "rgfit", "geometry": gi, "varied": pname, "value": float(newval)}
            det = {k: cur[k] for k in ("distance", "y_center", "z_center", "y_size", "z_size", "tilt_x", "tilt_y", "tilt_z", "o11", "o12", "o21", "o22")}
            bad = False
            for key in o.grains_to_refine:
                g = o.grains[key]
                want = tr.compute_xyz_lab(np.array([g.sc, g.fc]), **det).T
                if np.abs(np.asarray(g.peaks_xyz) - want).max() > 1e-6 * max(1.0, np.abs(want).max()):
                    sh.violation("refinegrains.gof:lab-coordinates-not-those-of-the-current-parameters", dict(case, grain=key[0]),
                                 {"max_diff": float(np.abs(np.asarray(g.peaks_xyz) - want).max())})
                    bad = True
                    break
            if not bad:
                g = o.grains[o.grains_to_refine[-1]]
                t = g.translation if pname != "t_x" else np.array([newval, g.translation[1], g.translation[2]])
                xyz = tr.compute_xyz_lab(np.array([g.sc, g.fc]), **det)
                sign = cur["omegasign"]
                tth, eta = tr.compute_tth_eta_from_xyz(xyz, g.om * sign, t_x=cur["t_x"], t_y=cur["t_y"], t_z=cur["t_z"], wedge=cur["wedge"], chi=cur["chi"])
                gref = tr.compute_g_vectors(tth, eta, g.om * sign, float(cur["wavelength"]), wedge=cur["wedge"], chi=cur["chi"])
                if np.asarray(o.gv).shape != gref.T.shape or np.abs(np.asarray(o.gv) - gref.T).max() > 1e-9:
                    sh.violation("refinegrains.gof:g-vectors-not-those-of-the-current-parameters", case, {"max_diff": float(np.abs(np.asarray(o.gv) - gref.T).max())})
            sh.evaluations += 1
            sh.nontrivial += 1
            sh.outcomes.add(("rgfit", pname))
        sh.sample(case, limit=1)
    finally:
        shutil.rmtree(wd, ignore_errors=True)
    return sh


def _run_assign_scans(desc):
    """refinegrains.assignlabels with SEVERAL scans loaded on one object and grains that share their position (fresh from the indexer: all
    at the origin; or one crystal seen in several scans): the g-vectors it stores for every scan (gx, gy, gz columns) are the reference
    g-vectors of that scan's peaks for the grain each peak is given to"""
    _, tier, gi = desc
    import io, contextlib, shutil
    from ImageD11 import refinegrains, transform as tr, parameters as P
    from vt.props import c09
    sh = Shard()
    pars = c09.geometries("quick")[gi]
    for tname, tpos in (("all at the origin", np.zeros(3)), ("all at one place off the axis", np.array([120.0, -75.0, 40.0]))):
        truth = [(u, tpos.copy()) for u, _ in c09.true_grains(2, 0)]
        peaks = c09.simulate(tr, pars, truth)
        wd = os.path.join(c09.WORK, "c01_as_%d" % os.getpid())
        shutil.rmtree(wd, ignore_errors=True)
        os.makedirs(wd)
        try:
            files = []
            for name, sel in (("a.flt", slice(None)), ("b.flt", slice(1, None, 2)), ("c.flt", slice(0, None, 3))):
                fn = os.path.join(wd, name)
                with open(fn, "w") as fh:
                    fh.write("#  sc  fc  omega  Number_of_pixels  avg_intensity  sum_intensity\n")
                    for k in range(len(peaks))[sel]:
                        fh.write("%.4f  %.4f  %.4f  %.0f  %.4f  %.4f\n" % (peaks[k, 0], peaks[k, 1], peaks[k, 2], 10, 100.0, 1000.0))
                files.append(fn)
            with contextlib.redirect_stdout(io.StringIO()):
                o = refinegrains.refinegrains(tolerance=0.05, OmFloat=False)
                o.parameterobj.set_parameters(dict(pars))
                for fn in files:
                    o.loadfiltered(fn)
                for gidx, (ubi, t) in enumerate(truth):
                    o.grainnames.append(gidx)
                    o.ubisread[gidx] = ubi.copy()
                    o.translationsread[gidx] = t.copy()
                o.generate_grains()
                o.assignlabels(quiet=True)
            det = {k: pars[k] for k in ("distance", "y_center", "z_center", "y_size", "z_size", "tilt_x", "tilt_y", "tilt_z", "o11", "o12", "o21", "o22")}
            for fn in files:
                col = o.scandata[fn]
                case = {"kind": "assign_scans", "geometry": gi, "grains": tname, "scan": os.path.basename(fn)}
                xyz = tr.compute_xyz_lab(np.array([col.sc, col.fc]), **det)
                om = np.asarray(col.omega) * pars["omegasign"]
                tth, eta = tr.compute_tth_eta_from_xyz(xyz, om, t_x=tpos[0], t_y=tpos[1], t_z=tpos[2], wedge=pars["wedge"], chi=pars["chi"])
                gref = tr.compute_g_vectors(tth, eta, om, pars["wavelength"], wedge=pars["wedge"], chi=pars["chi"])
                got = np.array([col.gx, col.gy, col.gz])
                lab = np.asarray(col.labels).astype(int)
                m = lab >= 0                  # (the columns hold the g-vector for the grain the peak was given to; all grains share one position)
                if m.sum() < 0.9 * len(lab):
                    sh.violation("assignlabels[several scans]:peaks-of-the-listed-grains-left-unassigned", case, {"assigned": int(m.sum()), "peaks": len(lab)})
                elif np.abs(got[:, m] - gref[:, m]).max() > 1e-9:
                    sh.violation("assignlabels[several scans]:stored-g-vectors-differ-from-the-reference-formulas", case,
                                 {"max_diff": float(np.abs(got[:, m] - gref[:, m]).max())})
                sh.evaluations += 1
                sh.nontrivial += 1
        finally:
            shutil.rmtree(wd, ignore_errors=True)
    sh.outcomes.add(("assign_scans", gi))
    sh.sample(case, limit=1)
    return sh


def run_shard(desc):
    if desc[0] == "assign_scans":
        return _run_assign_scans(desc)
    if desc[0] == "rgfit":
        return _run_rgfit(desc)
    if desc[0] == "sched":
        return _run_sched(desc)
    if desc[0] == "hist":
        return _run_hist(desc)
    if desc[0] == "callers":
        return _run_callers(desc)
    if desc[0] == "sizes":
        return _run_sizes(desc)
    _, tier, mg, c, nch = desc
    mods = _mods()
    sh = Shard()
    sc, fc, om = peak_table(tier)
    for idx, (pars, non) in enumerate(configs(mg)):
        if idx % nch != c:
            continue
        case = {"mag": mg, "config": idx, "pars": pars, "tier": tier}
        check_config(sh, mods, pars, sc, fc, om, case, full=(idx // nch) % 4 == 0 or tier == "thorough")
        if (idx // nch) % 8 == 5:
            # the same configuration with the detector BEHIND the sample (back-reflection: two-theta beyond 90 degrees) and, for the
            # next one, close to the sample (rays far off the axis)
            for dist, tag in ((-pars["distance"], "back-reflection"), (pars["distance"] * 0.02, "very close detector")):
                p2 = dict(pars, distance=dist)
                check_config(sh, mods, p2, sc, fc, om, dict(case, pars=p2, variant=tag), full=False)
                sh.evaluations += 1
        sh.evaluations += 1
        if non >= 2:
            sh.nontrivial += 1
        sh.outcomes.add(non)
    sh.sample({"mag": mg, "config": idx, "pars": pars, "npeaks": len(sc)}, limit=1)
    return sh


def finalize(merged, tier, seed):
    """which parameters are live: switching each one on alone must change some output"""
    tr, cf_mod, pbp, par_mod = _mods()
    sc, fc, om = peak_table("quick")
    base = None
    live = {}
    m = MAGS[seed % 4]
    off = {"y_center": 1000.3, "z_center": 1050.7, "y_size": m["ys"], "z_size": m["zs"], "distance": m["dist"], "wavelength": m["wl"],
           "omegasign": 1.0, "tilt_x": 0.0, "tilt_y": 0.0, "tilt_z": 0.0, "o11": 1, "o12": 0, "o21": 0, "o22": -1, "wedge": 0.0, "chi": 0.0,
           "t_x": 0.0, "t_y": 0.0, "t_z": 0.0}
    ref0 = reference(tr, off, sc, fc, om)
    for name, val in (("y_size", -m["ys"]), ("z_size", -m["zs"]), ("tilt_x", m["tx"]), ("tilt_y", m["ty"]), ("tilt_z", m["tz"]),
                      ("o11", -1), ("wedge", m["wedge"]), ("chi", m["chi"]), ("omegasign", -1.0), ("t_x", m["t"][0]),
                      ("t_y", m["t"][1]), ("t_z", m["t"][2])):
        r = reference(tr, dict(off, **{name: val}), sc, fc, om)
        live[name] = bool(max(np.abs(a - b).max() for a, b in zip(r, ref0)) > 1e-9)
    return {"live_parameters": live, "dead_parameters": [k for k, v in live.items() if not v]}


def warm():
    sh = Shard()
    sc, fc, om = peak_table("quick")
    pars, non = next(iter(configs(0)))
    check_config(sh, _mods(), pars, sc, fc, om, {}, full=True)


def replay(case):
    sh = Shard()
    if case.get("kind") == "hist":
        for c in range(8):
            r = _run_hist(("hist", "thorough", case["mag"], c, 8))
            sh.violations += [v for v in r.violations if all(v["case"][k] == case[k] for k in ("config_a", "config_b", "variant", "fast"))]
        return (not sh.violations), {"violations": sh.violations[:3]}
    if case.get("kind") == "assign_scans":
        r = _run_assign_scans(("assign_scans", "quick", case["geometry"]))
        v = [x for x in r.violations if x["case"]["scan"] == case["scan"] and x["case"]["grains"] == case["grains"]]
        return (not v), {"violations": v[:3]}
    if case.get("kind") == "rgfit":
        r = _run_rgfit(("rgfit", "quick", case["geometry"]))
        v = [x for x in r.violations if x["case"]["varied"] == case["varied"]]
        return (not v), {"violations": v[:3]}
    if case.get("kind") == "callers":
        r = _run_callers(("callers", "thorough", case["mag"]))
        return (not r.violations), {"violations": r.violations[:3]}
    if case.get("kind") == "sched":
        r = _run_sched(("sched", "quick", case["mag"], 0, 1))
        return (not r.violations), {"violations": r.violations[:3]}
    sc, fc, om = size_table(case["npeaks"]) if case.get("kind") == "sizes" else peak_table(case.get("tier", "quick"))
    check_config(sh, _mods(), case["pars"], sc, fc, om, case, full=True)
    return (not sh.violations), {"violations": sh.violations[:4]}
