"""C17 - columnfile stays rectangular and self-consistent under any operation sequence.

Explicit-state exploration of operation histories (E2).  Each transition calls the real method on a
real columnfile object (rebuilt by replaying the history from one of four initial objects: built
with addcolumn, text-file loaded, dict-built, HDF-loaded).  After every transition the object is
compared with a boring reference model (ordered dict title -> list) and the invariant is checked:
every column has nrows entries; attribute, item and getcolumn views are the same data (equal AND
aliased: a write through one is seen through the others); titles/ncols agree; row operations
applied the same selection/permutation to every column; copies share no storage with the source.
States are canonicalised (titles, values, dtypes, representation kind list|2-D, alias relations,
bigarray bookkeeping) and de-duplicated; the methods read nothing else, so merged states have the
same futures.  An operation that raises on an input the API accepts is a violation.
"""
from __future__ import annotations
import os, itertools, hashlib, json
import numpy as np
from vt.runner import Shard

LEVEL = "model_checking"
RULE = ("states = canonical observable states of a real columnfile reached by BFS over operation histories; "
        "non-trivial = states whose alias/representation signature differs from the initial object's")
ASSUMPTIONS = ["operation arguments from the stated alphabet (two/three titles, fresh float arrays of the right length, "
               "one mask, one permutation, one row list)", "PandasColumnfile is out of scope (pandas not installed)"]
SERIAL = False

INITS = ("addcolumn", "textfile", "dict", "hdf", "dict_mixed")
B0_MIXED = [10.5, 20.25, 30.125]          # "dict_mixed": column a is int32, column b float64 with fractional values
A0 = [3.0, 1.0, 2.0]
B0 = [10.0, 20.0, 30.0]


# ------------------------------------------------------------------------------------------ model + ops
class Model:
    def __init__(self, kind="dict"):
        self.cols = {"a": list(A0), "b": list(B0_MIXED if kind == "dict_mixed" else B0)}
        self.kept = None            # a bigarray the caller obtained earlier and still holds
        self.handfilled = kind == "handfilled"

    @property
    def nrows(self):
        return len(next(iter(self.cols.values())))

    def select(self, idx):
        for t in self.cols:
            self.cols[t] = [self.cols[t][i] for i in idx]


def fresh(n, k):
    return np.arange(n, dtype=float) * (k + 1) + 100.0 * (k + 1)


def op_table():
    """(name, precondition(model)->bool, apply(cf, model, work)->other_or_None)"""
    ops = []

    def add(name, pre, fn):
        ops.append((name, pre, fn))

    def has(t):
        return lambda m: t in m.cols

    def hasnot(t):
        return lambda m: t not in m.cols

    def f_addnew(cf, m, w):
        v = fresh(m.nrows, 0); cf.addcolumn(v, "c"); m.cols["c"] = v.tolist()
    add("addcolumn_new", hasnot("c"), f_addnew)

    def f_addover(cf, m, w):
        v = fresh(m.nrows, 1); cf.addcolumn(v, "a"); m.cols["a"] = v.tolist()
    add("addcolumn_over", has("a"), f_addover)

    def f_setcol(cf, m, w):
        v = fresh(m.nrows, 2); cf.setcolumn(v, "b"); m.cols["b"] = v.tolist()
    add("setcolumn", has("b"), f_setcol)

    def f_item_arr(cf, m, w):
        v = fresh(m.nrows, 3); cf["a"] = v; m.cols["a"] = v.tolist()
    add("setitem_array", has("a"), f_item_arr)

    def f_item_scalar(cf, m, w):
        cf["a"] = 5.0; m.cols["a"] = [5.0] * m.nrows
    add("setitem_scalar", has("a"), f_item_scalar)

    def f_item_new(cf, m, w):
        v = fresh(m.nrows, 4); cf["c"] = v; m.cols["c"] = v.tolist()
    add("setitem_new", hasnot("c"), f_item_new)

    def f_attr_arr(cf, m, w):
        v = fresh(m.nrows, 5); cf.a = v; m.cols["a"] = v.tolist()
    add("setattr_array", has("a"), f_attr_arr)

    def f_attr_scalar(cf, m, w):
        cf.a = 9.0; m.cols["a"] = [9.0] * m.nrows
    add("setattr_scalar", has("a"), f_attr_scalar)

    def f_attr_scalar_b(cf, m, w):
        cf.b = 4.0; m.cols["b"] = [4.0] * m.nrows
    add("setattr_scalar_b", has("b"), f_attr_scalar_b)

    def f_inpl_attr(cf, m, w):
        cf.a *= 2; m.cols["a"] = [2 * x for x in m.cols["a"]]
    add("inplace_attr_imul", has("a"), f_inpl_attr)

    def f_inpl_attr_idx(cf, m, w):
        cf.b[0] = -5.0; m.cols["b"][0] = -5.0
    add("inplace_attr_index", lambda m: m.nrows > 0, f_inpl_attr_idx)

    def f_inpl_item(cf, m, w):
        cf["a"][0] = -1.0; m.cols["a"][0] = -1.0
    add("inplace_item_index", lambda m: m.nrows > 0, f_inpl_item)

    def f_inpl_get(cf, m, w):
        cf.getcolumn("b")[m.nrows - 1] = -2.0; m.cols["b"][m.nrows - 1] = -2.0
    add("inplace_getcolumn_index", lambda m: m.nrows > 0, f_inpl_get)

    def f_filter(cf, m, w):
        mask = np.ones(m.nrows, bool); mask[1] = False
        cf.filter(mask); m.select([i for i in range(m.nrows) if i != 1])
    add("filter", lambda m: m.nrows >= 2, f_filter)

    def f_remove(cf, m, w):
        val = int(m.cols["b"][0])
        keep = [i for i in range(m.nrows) if int(m.cols["b"][i]) != val]
        cf.removerows("b", [val]); m.select(keep)
    add("removerows", lambda m: m.nrows >= 2 and len(set(int(x) for x in m.cols["b"])) > 1, f_remove)

    def f_sort(cf, m, w):
        order = list(np.argsort(np.array(m.cols["a"]), kind="stable"))
        if len(set(m.cols["a"])) != len(m.cols["a"]):
            # ties: argsort order is implementation defined; use the library's own order for the model but
            # require a valid sorting permutation applied to every column (checked by the invariant)
            order = list(np.argsort(np.array(m.cols["a"])))
        cf.sortby("a"); m.select(order)
    add("sortby", lambda m: m.nrows >= 2, f_sort)

    def f_reorder(cf, m, w):
        idx = list(range(m.nrows))[::-1]
        cf.reorder(np.array(idx)); m.select(idx)
    add("reorder", lambda m: m.nrows >= 2, f_reorder)

    def f_reorder_own(cf, m, w):
        # the permutation is itself a column of the table (an integer "order" column written earlier): cf.reorder(cf.a)
        perm = np.roll(np.arange(m.nrows), -1)
        cf.addcolumn(perm.copy(), "a"); m.cols["a"] = perm.tolist()
        cf.reorder(cf.a); m.select(perm.tolist())
    add("reorder_by_a_column_of_the_table", lambda m: m.nrows >= 3 and "a" in m.cols, f_reorder_own)

    def f_copy(cf, m, w):
        return ("copy", cf.copy())
    add("copy_continue_on_copy", lambda m: True, f_copy)
    add("copy_continue_on_original", lambda m: True, f_copy)

    def f_copyrows(cf, m, w):
        rows = [0, m.nrows - 1] if m.nrows >= 2 else [0]
        return ("copyrows", cf.copyrows(rows), rows)
    add("copyrows_continue_on_copy", lambda m: m.nrows >= 1, f_copyrows)

    def f_copyrows_run(cf, m, w):
        rows = [0, 1]
        return ("copyrows", cf.copyrows(rows), rows)
    add("copyrows_consecutive_rows", lambda m: m.nrows >= 2, f_copyrows_run)

    def f_copyrows_all(cf, m, w):
        rows = list(range(m.nrows))
        return ("copyrows", cf.copyrows(np.array(rows)), rows)
    add("copyrows_every_row", lambda m: m.nrows >= 1, f_copyrows_all)

    def f_copyrows_slice(cf, m, w):
        rows = list(range(0, max(1, m.nrows - 1)))
        return ("copyrows", cf.copyrows(slice(0, max(1, m.nrows - 1))), rows)
    add("copyrows_slice", lambda m: m.nrows >= 1, f_copyrows_slice)

    def f_copyrows_mask(cf, m, w):
        mask = np.ones(m.nrows, bool); mask[m.nrows - 1] = False
        return ("copyrows", cf.copyrows(mask), list(range(m.nrows - 1)))
    add("copyrows_bool_mask", lambda m: m.nrows >= 2, f_copyrows_mask)

    # one column assigned from another column of the same object: afterwards they are two columns with equal values
    def f_attr_from_b(cf, m, w):
        cf.a = cf.b; m.cols["a"] = list(m.cols["b"])
    add("setattr_from_other_column", lambda m: "a" in m.cols and "b" in m.cols, f_attr_from_b)

    def f_item_from_b(cf, m, w):
        # item assignment writes into the existing column, so the values take that column's type (int32 in the mixed table)
        want = np.array(m.cols["b"]).astype(cf.getcolumn("a").dtype).tolist()
        cf["a"] = cf["b"]; m.cols["a"] = want
    add("setitem_from_other_column", lambda m: "a" in m.cols and "b" in m.cols, f_item_from_b)

    def f_add_from_a(cf, m, w):
        cf.addcolumn(cf.a, "c"); m.cols["c"] = list(m.cols["a"])
    add("addcolumn_new_from_column", lambda m: "a" in m.cols and "c" not in m.cols, f_add_from_a)

    # two columns given as OVERLAPPING views of one longer array (bin edges: lo = e[:-1], hi = e[1:]), and a column given as the reversed
    # view of another column of the table: afterwards they are independent columns with those values
    def f_overlap(cf, m, w):
        e = fresh(m.nrows + 1, 15)
        cf.a = e[:-1]; cf.b = e[1:]
        m.cols["a"] = e[:-1].tolist(); m.cols["b"] = e[1:].tolist()
    add("setattr_a_b_from_overlapping_views", lambda m: "a" in m.cols and "b" in m.cols and m.nrows >= 1, f_overlap)

    def f_reversed_view(cf, m, w):
        cf.b = cf.a[::-1]; m.cols["b"] = list(m.cols["a"])[::-1]
    add("setattr_b_from_reversed_view_of_a", lambda m: "a" in m.cols and "b" in m.cols and m.nrows >= 2, f_reversed_view)

    def f_getbig(cf, m, w):
        big = cf.bigarray
        got = np.asarray(big, float)
        want = np.array([m.cols[t] for t in m.cols], float).reshape(len(m.cols), m.nrows)
        if got.shape != want.shape or not np.array_equal(got, want):
            raise AssertionError("bigarray differs from the columns: %r vs %r" % (got.tolist(), want.tolist()))
    add("get_bigarray", lambda m: True, f_getbig)

    def f_keepbig(cf, m, w):
        m.kept = cf.bigarray
    add("get_bigarray_and_keep_it", lambda m: m.kept is None, f_keepbig)

    def f_setkept(cf, m, w):
        # the caller hands back the array it was given earlier, after whatever happened to the table in between: the table becomes
        # that array (its present values, its number of rows)
        k = m.kept
        cf.bigarray = k
        for q, t in enumerate(list(m.cols)):
            m.cols[t] = np.asarray(k[q], float).tolist()
    add("set_bigarray_to_the_kept_one", lambda m: m.kept is not None and len(m.kept) == len(m.cols), f_setkept)

    def f_setbig(cf, m, w):
        new = [fresh(m.nrows, 6 + k) for k, t in enumerate(m.cols)]
        cf.bigarray = new
        for k, t in enumerate(list(m.cols)):
            m.cols[t] = new[k].tolist()
    add("set_bigarray_list", lambda m: True, f_setbig)

    def f_setbig2d(cf, m, w):
        new = np.array([fresh(m.nrows, 9 + k) for k, t in enumerate(m.cols)])
        cf.bigarray = new
        for k, t in enumerate(list(m.cols)):
            m.cols[t] = new[k].tolist()
    add("set_bigarray_2d", lambda m: True, f_setbig2d)

    def f_chk(cf, m, w):
        cf.chkarray()
    add("chkarray", lambda m: True, f_chk)

    def f_write(cf, m, w):
        p = os.path.join(w, "out.flt")
        cf.writefile(p)
        rows = [l.split() for l in open(p) if not l.startswith("#") and l.strip()]
        tl = [l for l in open(p) if l.startswith("#") and "=" not in l][-1][1:].split()
        if tl != list(m.cols):
            raise AssertionError("titles written %r, expected %r" % (tl, list(m.cols)))
        got = np.array(rows, float).reshape(m.nrows, len(m.cols))
        want = np.array([m.cols[t] for t in m.cols], float).T.reshape(m.nrows, len(m.cols))
        if not np.allclose(got, want, atol=1e-6):
            raise AssertionError("written values differ")
    add("writefile", lambda m: m.nrows >= 1, f_write)

    def f_add_strided(cf, m, w):
        # a column that is a strided view of a 2-D array (as updateGeometry adds its nine columns)
        block = np.array([fresh(m.nrows, 12), fresh(m.nrows, 13)]).T.copy()
        cf.addcolumn(block[:, 0], "c"); m.cols["c"] = block[:, 0].tolist()
    add("addcolumn_new_strided_view", hasnot("c"), f_add_strided)

    def f_item_c(cf, m, w):
        v = fresh(m.nrows, 14); cf["c"] = v; m.cols["c"] = v.tolist()
    add("setitem_array_on_c", has("c"), f_item_c)

    def f_filter_none(cf, m, w):
        cf.filter(np.ones(m.nrows, bool))
    add("filter_that_removes_nothing", lambda m: m.nrows >= 1, f_filter_none)

    def f_remove_absent(cf, m, w):
        cf.removerows("b", [987654])
    add("removerows_value_not_present", lambda m: m.nrows >= 1 and "b" in m.cols, f_remove_absent)

    def f_filter_all(cf, m, w):
        cf.filter(np.zeros(m.nrows, bool)); m.select([])
    add("filter_everything_out", lambda m: m.nrows >= 1, f_filter_all)

    # operations the library must refuse (wrong length): whether it raises or not, the object must still be the rectangular table
    # the model describes - the model is left unchanged and the invariant decides
    def rejected(name, pre, call):
        def fn(cf, m, w):
            try:
                call(cf, m)
            except Exception:
                pass
        add(name, pre, fn)
    rejected("refused_addcolumn_over_wrong_length", has("a"), lambda cf, m: cf.addcolumn(fresh(m.nrows + 1, 1), "a"))
    rejected("refused_addcolumn_new_wrong_length", hasnot("c"), lambda cf, m: cf.addcolumn(fresh(m.nrows + 1, 0), "c"))
    rejected("refused_setcolumn_wrong_length", has("b"), lambda cf, m: cf.setcolumn(fresh(m.nrows + 1, 2), "b"))
    rejected("refused_setitem_wrong_length", has("a"), lambda cf, m: cf.__setitem__("a", fresh(m.nrows + 2, 3)))
    rejected("refused_setattr_wrong_length", has("b"), lambda cf, m: setattr(cf, "b", fresh(m.nrows + 1, 5)))
    rejected("refused_filter_wrong_mask", lambda m: True, lambda cf, m: cf.filter(np.ones(m.nrows + 1, bool)))
    rejected("refused_bigarray_wrong_columns", lambda m: True, lambda cf, m: setattr(cf, "bigarray", np.zeros((len(m.cols) + 1, m.nrows))))
    return ops


OPS = op_table()
OPNAMES = [o[0] for o in OPS]


# ------------------------------------------------------------------------------------------ building objects
def make_initial(kind, work):
    from ImageD11 import columnfile as C
    if kind == "addcolumn":
        cf = C.newcolumnfile(titles=[])
        cf.nrows = 3
        cf.addcolumn(np.array(A0), "a")
        cf.addcolumn(np.array(B0), "b")
        return cf
    if kind == "textfile":
        p = os.path.join(work, "init.flt")
        if not os.path.exists(p):
            with open(p, "w") as fh:
                fh.write("# wavelength = 0.5\n#  a  b\n")
                for x, y in zip(A0, B0):
                    fh.write("%f %f\n" % (x, y))
        return C.columnfile(p)
    if kind == "handfilled":
        # an empty table filled in by hand: titles, then the whole array (set_bigarray fixes nrows; the ncols counter is not the caller's
        # business and is left out of the invariant for this start)
        cf = C.columnfile(new=True)
        cf.titles = ["a", "b"]
        cf.bigarray = [np.array(A0), np.array(B0)]
        return cf
    if kind == "dict":
        return C.colfile_from_dict({"a": np.array(A0), "b": np.array(B0)})
    if kind == "dict_mixed":
        return C.colfile_from_dict({"a": np.array(A0, np.int32), "b": np.array(B0_MIXED, np.float64)})
    if kind == "hdf":
        p = os.path.join(work, "init.h5")
        if not os.path.exists(p):
            c0 = C.colfile_from_dict({"a": np.array(A0), "b": np.array(B0)})
            C.colfile_to_hdf(c0, p, name="peaks")
        import io, contextlib
        with contextlib.redirect_stdout(io.StringIO()):
            return C.columnfile(p)
    raise ValueError(kind)


def data_of(cf):
    return cf._columnfile__data


def invariant(cf, m):
    """returns None or (kind, detail)"""
    titles = list(m.cols)
    if list(cf.titles) != titles:
        return ("titles", {"titles": list(cf.titles), "expected": titles})
    if cf.nrows != m.nrows:
        return ("nrows", {"nrows": cf.nrows, "expected": m.nrows})
    if cf.ncols != len(titles) and not getattr(m, "handfilled", False):
        return ("ncols", {"ncols": cf.ncols, "expected": len(titles)})
    d = data_of(cf)
    if len(d) != len(titles):
        return ("ncolumns-stored", {"stored": len(d)})
    for i, t in enumerate(titles):
        views = {}
        try:
            views["attr"] = getattr(cf, t)
            views["item"] = cf[t]
            views["getcolumn"] = cf.getcolumn(t)
        except Exception as e:
            return ("view-raises", {"title": t, "error": repr(e)})
        for vn, v in views.items():
            if np.ndim(v) != 1 or len(v) != m.nrows:
                return ("not-rectangular", {"title": t, "view": vn, "value": repr(v)[:80], "nrows": m.nrows})
            if not np.array_equal(np.asarray(v, float), np.array(m.cols[t], float)):
                return ("view-differs-from-model", {"title": t, "view": vn, "value": np.asarray(v).tolist(),
                                                     "expected": m.cols[t]})
        if m.nrows > 0:
            a, g = views["attr"], views["getcolumn"]
            if not (a is g or np.shares_memory(a, g)):
                return ("views-not-same-data", {"title": t, "attr_is_getcolumn": a is g})
            if not (views["item"] is g or np.shares_memory(views["item"], g)):
                return ("views-not-same-data", {"title": t, "which": "item"})
    return None


def independent(cf, other, m, rows=None):
    """copy/copyrows result shares no storage with the source and equals the model"""
    titles = list(m.cols)
    if list(other.titles) != titles:
        return ("copy-titles", {"titles": list(other.titles)})
    if other.titles is cf.titles:
        return ("copy-shares-title-list", {})
    for t in titles:
        want = m.cols[t] if rows is None else [m.cols[t][r] for r in rows]
        got = other.getcolumn(t)
        if len(got) != len(want) or not np.array_equal(np.asarray(got, float), np.array(want, float)):
            return ("copy-values", {"title": t, "got": np.asarray(got).tolist(), "expected": want})
        for t2 in titles:
            for src in (cf.getcolumn(t2), getattr(cf, t2)):
                for dst in (got, getattr(other, t)):
                    if np.ndim(src) and np.ndim(dst) and np.shares_memory(src, dst):
                        return ("copy-shares-storage", {"copy_col": t, "source_col": t2})
    if other.nrows != len(want):
        return ("copy-nrows", {"nrows": other.nrows})
    return None


def canon(cf, m):
    d = data_of(cf)
    kind = "list" if isinstance(d, list) else type(d).__name__
    sig = [tuple(cf.titles), cf.nrows, cf.ncols, kind]
    for i, t in enumerate(cf.titles):
        col = d[i]
        a = cf.__dict__.get(t, None)
        sig.append((t, str(getattr(col, "dtype", type(col).__name__)), tuple(np.asarray(col, float).ravel().tolist()),
                    "same" if a is col else ("shared" if (np.ndim(a) and np.ndim(col) and np.shares_memory(a, col)) else
                                             ("scalar" if np.ndim(a) == 0 else "separate")),
                    tuple(np.asarray(a, float).ravel().tolist()) if a is not None else None,
                    bool(getattr(col, "flags", None) is not None and col.flags.owndata)))
    big = cf.__dict__.get("_columnfile__bigarray", None)
    sig.append(("big", big is None, big is d, (len(big) if big is not None else -1)))
    k = m.kept
    if k is not None:
        # the kept array is part of the state: its values, and how it relates to what the table holds now
        sig.insert(-1, ("kept", tuple(tuple(np.asarray(x, float).ravel().tolist()) for x in k), k is big, k is d,
                        tuple(bool(np.ndim(c_) and np.shares_memory(np.asarray(x), c_)) for x, c_ in zip(k, d)) if len(k) == len(d) else None))
    return tuple(sig)


def alias_sig(state):
    return (state[3],) + tuple(x[3] for x in state[4:-1]) + (state[-1][1:3],)


class Broken(Exception):
    def __init__(self, kind, detail):
        self.kind, self.detail = kind, detail


def replay_history(init, hist, work, check_last_only=True):
    """Rebuild a fresh object, apply hist (list of op indices); returns (cf, model). Raises Broken."""
    cf = make_initial(init, work)
    m = Model(init)
    for step, oi in enumerate(hist):
        name, pre, fn = OPS[oi]
        if not pre(m):
            raise Broken("precondition", {})
        try:
            res = fn(cf, m, work)
        except Exception as e:
            raise Broken("operation-raised", {"op": name, "error": "%s: %s" % (type(e).__name__, str(e)[:200]), "step": step})
        if res is not None:
            rows = res[2] if len(res) > 2 else None
            bad = independent(cf, res[1], m, rows)
            if bad:
                raise Broken(bad[0], dict(bad[1], op=name, step=step))
            # a write on one side must be invisible on the other
            if m.nrows > 0 and res[1].nrows > 0:
                t0 = list(m.cols)[0]
                before = np.array(cf.getcolumn(t0), float).copy()
                res[1].getcolumn(t0)[0] = 123456.0
                if not np.array_equal(np.asarray(cf.getcolumn(t0), float), before):
                    raise Broken("copy-write-visible-in-source", {"op": name, "step": step})
                res[1].getcolumn(t0)[0] = before[0] if rows is None else m.cols[t0][rows[0]]
            if name.endswith("continue_on_copy"):
                if rows is not None:
                    m.select(rows)
                bad0 = invariant(cf, Model.__new__(Model)) if False else None
                cf = res[1]
        bad = invariant(cf, m)
        if bad:
            raise Broken(bad[0], dict(bad[1], after_op=name, step=step))
    return cf, m


# ------------------------------------------------------------------------------------------ BFS
def plan(tier, seed):
    shards = []
    for ii, init in enumerate(INITS):
        # quick: depth 4 from two of the five initial tables (which two rotates with the seed), depth 3 from the others; thorough: depth 5
        depth = 5 if tier != "quick" else (4 if (ii - seed) % len(INITS) in (0, 2) else 3)
        for o1 in range(len(OPS)):
            shards.append(("bfs", init, o1, depth))
    for o1 in range(len(OPS)):
        shards.append(("bfs", "handfilled", o1, 3 if tier != "quick" else 2))
    shards.append(("readonly",))
    shards.append(("vector", 3 if tier == "quick" else 4))
    k = seed % len(shards)
    return shards[k:] + shards[:k]


def bfs(init, first, depth, work, sh, max_states=400000):
    import collections
    seen = {}
    frontier = collections.deque()
    init_state = None
    try:
        cf, m = replay_history(init, [], work)
        init_state = canon(cf, m)
    except Broken as b:
        sh.violation("%s::%s" % (init, b.kind), {"init": init, "history": []}, b.detail)
        return
    roots = [[first]]
    for h in roots:
        frontier.append(h)
    while frontier:
        h = frontier.popleft()
        sh.transitions += 1
        try:
            cf, m = replay_history(init, h, work)
        except Broken as b:
            if b.kind == "precondition":
                sh.transitions -= 1
                continue
            names = [OPNAMES[i] for i in h]
            sh.violation("%s:%s:%s" % (init, ">".join(names), b.kind), {"init": init, "history": names}, b.detail)
            sh.evaluations += 1
            continue
        sh.evaluations += 1
        sh.traces_validated += 1
        st = canon(cf, m)
        if st in seen:
            continue
        seen[st] = h
        sh.states += 1
        if alias_sig(st) != alias_sig(init_state):
            sh.nontrivial += 1
        sh.outcomes.add(hash(alias_sig(st)) & 0xFFFF)
        if len(seen) >= max_states:
            sh.capped = True
            break
        if len(h) < depth:
            for oi in range(len(OPS)):
                frontier.append(h + [oi])
    if seen:
        hh = list(seen.values())[-1]
        sh.sample({"init": init, "history": [OPNAMES[i] for i in hh]}, limit=1)


def _run_readonly(desc):
    """tables holding READ-ONLY columns (a memory-mapped file, a broadcast constant column, a view the owner protected): copy() and copyrows()
    give tables of their own - no storage shared with the source, writable, and the in-place row operations work on them"""
    from ImageD11 import columnfile as C
    sh = Shard()
    base = np.array([3.0, 1.0, 2.0, 5.0, 4.0])
    owner = np.array([10.0, 20.0, 30.0, 40.0, 50.0])
    ro_view = owner.view(); ro_view.flags.writeable = False
    makers = {"broadcast constant column": lambda: {"a": base.copy(), "b": np.broadcast_to(np.float64(7.0), (5,))},
              "protected view of the owner's array": lambda: {"a": base.copy(), "b": ro_view},
              "every column read-only": lambda: {"a": np.frombuffer(base.tobytes(), float), "b": np.frombuffer(owner.tobytes(), float)}}
    for mname, mk in makers.items():
        for how in ("copy", "copyrows(list)", "copyrows(mask)", "copyrows(slice)"):
            cf = C.colfile_from_dict(mk())
            case = {"init": "readonly", "history": [mname, how]}
            try:
                if how == "copy":
                    cp, rows = cf.copy(), list(range(5))
                elif how == "copyrows(list)":
                    cp, rows = cf.copyrows([0, 2, 4]), [0, 2, 4]
                elif how == "copyrows(mask)":
                    cp, rows = cf.copyrows(np.array([True, True, False, True, True])), [0, 1, 3, 4]
                else:
                    cp, rows = cf.copyrows(slice(1, 4)), [1, 2, 3]
                want = {t: np.asarray(cf.getcolumn(t), float)[rows].copy() for t in cf.titles}
                shared = [t for t in cf.titles for t2 in cf.titles if np.shares_memory(cp.getcolumn(t), cf.getcolumn(t2))]
                if shared:
                    sh.violation("readonly:%s:copy-shares-storage" % how, case, {"column": shared[0]})
                    continue
                cp.sortby("a")
                order = np.argsort(want["a"], kind="stable")
                if any(not np.array_equal(np.asarray(cp.getcolumn(t), float), want[t][order]) for t in cf.titles):
                    sh.violation("readonly:%s:sortby-on-the-copy-does-not-permute-every-column" % how, case, {})
                    continue
                cp.getcolumn("b")[0] = -1.0
                if owner[0] != 10.0 or np.asarray(cf.getcolumn("b"))[0] == -1.0:
                    sh.violation("readonly:%s:write-to-the-copy-visible-in-the-source" % how, case, {})
            except Exception as e:
                sh.violation("readonly:%s:raises" % how, case, {"error": "%s: %s" % (type(e).__name__, str(e)[:200])})
            sh.evaluations += 1
            sh.nontrivial += 1
            sh.states += 1
    sh.outcomes.add(hash("readonly") & 0xFFFF)
    sh.sample(case, limit=1)
    return sh


def _run_vector(desc):
    """a table holding a column with several values per row (an (nrows, 3) vector column - addcolumn only asks for shape[0] == nrows) next
    to plain ones: every history of up to `depth` row operations (filters, row removals, sorts, reorderings, copies, row copies); after each
    one every column - whatever its shape - holds the same selection / permutation of the original rows"""
    _, depth = desc
    from ImageD11 import columnfile as C
    sh = Shard()
    n = 6
    orig = {"a": np.array([3.0, 1.0, 2.0, 5.0, 4.0, 0.0]), "b": np.array([1.0, 1.0, 0.0, 0.0, 2.0, 2.0]),
            "v": np.arange(n * 3, dtype=float).reshape(n, 3) + 100.0, "w": (np.arange(n * 2) * 7 % 11).reshape(n, 2).astype(float),
            # a label column with holes: not-a-number / infinite entries (peaks that were never labelled) stay what they are
            "n": np.array([1.0, np.nan, 3.0, np.inf, 5.0, np.nan])}

    def build():
        cf = C.colfile_from_dict({"a": orig["a"].copy(), "b": orig["b"].copy()})
        cf.addcolumn(orig["v"].copy(), "v")
        cf.addcolumn(orig["w"].copy(), "w")
        cf.addcolumn(orig["n"].copy(), "n")
        return cf
    # (name, precondition on the current number of rows, f(cf, idx) -> (cf, idx))
    def keep(mask_fn):
        def f(cf, idx):
            m = mask_fn(idx)
            cf.filter(m)
            return cf, idx[m]
        return f

    def removerows(cf, idx):
        cf.removerows("a", [1.0, 4.0])
        return cf, idx[~np.isin(orig["a"][idx], [1.0, 4.0])]

    def removerows_n(cf, idx):
        import warnings
        with warnings.catch_warnings():
            warnings.simplefilter("ignore")
            cf.removerows("n", [3])
        return cf, idx[~(orig["n"][idx] == 3.0)]

    def reorder_rev(cf, idx):
        cf.reorder(np.arange(len(idx))[::-1].copy())
        return cf, idx[::-1]

    def reorder_rot(cf, idx):
        p_ = np.roll(np.arange(len(idx)), 1)
        cf.reorder(p_)
        return cf, idx[p_]

    def sortby(name):
        def f(cf, idx):
            cf.sortby(name)
            return cf, idx[np.argsort(orig[name][idx], kind="stable")] if name == "a" else None
        return f

    def copy(cf, idx):
        return cf.copy(), idx

    def copyrows_list(cf, idx):
        r = list(range(0, len(idx), 2))
        return cf.copyrows(r), idx[r]

    def copyrows_mask(cf, idx):
        m = orig["b"][idx] > 0
        return cf.copyrows(m), idx[m]
    ops = [("filter(a>1)", keep(lambda idx: orig["a"][idx] > 1)), ("filter(every second row)", keep(lambda idx: np.arange(len(idx)) % 2 == 0)),
           ("filter(first third of the rows only)", keep(lambda idx: np.arange(len(idx)) < max(1, len(idx) // 3))),
           ("filter(all rows)", keep(lambda idx: np.ones(len(idx), bool))), ("removerows(a,[1,4])", removerows), ("removerows(n,[3]) on a column holding nan and inf", removerows_n), ("reorder(reversed)", reorder_rev),
           ("reorder(rotated)", reorder_rot), ("sortby(a)", sortby("a")), ("copy", copy), ("copyrows(list)", copyrows_list), ("copyrows(mask)", copyrows_mask)]
    for d in range(1, depth + 1):
        for hist in itertools.product(range(len(ops)), repeat=d):
            cf, idx = build(), np.arange(n)
            names = [ops[k][0] for k in hist]
            case = {"init": "vector", "history": names}
            try:
                for k in hist:
                    if len(idx) == 0:
                        break
                    src = cf
                    cf, idx = ops[k][1](cf, idx)
                    if cf is not src and any(np.shares_memory(np.asarray(cf.getcolumn(t)), np.asarray(src.getcolumn(t2))) for t in cf.titles for t2 in src.titles):
                        raise Broken("copy-shares-storage", {"op": ops[k][0]})
                if len(idx) == 0:
                    continue
                if cf.nrows != len(idx):
                    raise Broken("nrows", {"nrows": cf.nrows, "expected": len(idx)})
                for t in ("a", "b", "v", "w", "n"):
                    got = np.asarray(cf.getcolumn(t), float)
                    if got.shape != orig[t][idx].shape or not np.array_equal(got, orig[t][idx], equal_nan=True):
                        raise Broken("column-does-not-hold-the-selected-rows", {"column": t, "shape": list(got.shape), "expected_shape": list(orig[t][idx].shape)})
                    if getattr(cf, t) is not cf.getcolumn(t) and not np.shares_memory(getattr(cf, t), cf.getcolumn(t)):
                        raise Broken("attribute-is-not-the-column", {"column": t})
            except Broken as b:
                sh.violation("vector:%s:%s" % (">".join(names), b.kind), case, b.detail)
            except Exception as e:
                sh.violation("vector:%s:operation-raised" % ">".join(names), case, {"error": "%s: %s" % (type(e).__name__, str(e)[:200])})
            sh.evaluations += 1
            sh.nontrivial += 1
            sh.states += 1
            sh.transitions += 1
            if len(sh.violations) > 20:
                return sh
    sh.outcomes.add(hash("vector") & 0xFFFF)
    sh.sample(case, limit=1)
    return sh


def run_shard(desc):
    if desc[0] == "readonly":
        return _run_readonly(desc)
    if desc[0] == "vector":
        return _run_vector(desc)
    _, init, o1, depth = desc
    sh = Shard()
    work = os.path.join(os.path.dirname(os.path.dirname(os.path.dirname(os.path.abspath(__file__)))), ".work",
                        "c17_%d_%s" % (os.getpid(), init))
    os.makedirs(work, exist_ok=True)
    try:
        bfs(init, o1, depth, work, sh)
    finally:
        import shutil
        shutil.rmtree(work, ignore_errors=True)
    return sh


def replay(case):
    work = os.path.join(os.path.dirname(os.path.dirname(os.path.dirname(os.path.abspath(__file__)))), ".work",
                        "c17_replay_%d" % os.getpid())
    os.makedirs(work, exist_ok=True)
    if case.get("init") == "vector":
        r = _run_vector(("vector", len(case["history"])))
        v = [x for x in r.violations if x["case"]["history"] == case["history"]]
        return (not v), {"violations": v[:2]}
    if case.get("init") == "readonly":
        r = _run_readonly(("readonly",))
        v = [x for x in r.violations if x["case"]["history"] == case["history"]]
        return (not v), {"violations": v[:2]}
    try:
        h = [OPNAMES.index(n) for n in case["history"]]
        try:
            replay_history(case["init"], h, work)
        except Broken as b:
            return False, {"kind": b.kind, "detail": b.detail}
        return True, {"ok": True}
    finally:
        import shutil
        shutil.rmtree(work, ignore_errors=True)
