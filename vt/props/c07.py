"""C07 - every peak is assigned to its best-fitting grain, whatever the order or threads.

(a) inputs x grain orders (sequential semantics, f2py build): UBI alphabet {A, A rotated 0.2 deg,
    twin of A sharing a reciprocal plane, unrelated B}; ALL non-empty subsets in ALL permutations
    (64 ordered lists) x peak lists (sizes 1, 7, 4095, 4096, 4097, 8193) x tolerances, through
    `cImageD11.score_and_assign` and `indexer.fight_over_peaks` (ga, gas, drlv2).
(b) thread count as configuration: real libgomp with 1,2,3,4,8,16,32 threads reproduces (a) bit for bit.
(c) schedules (E3): `score_and_assign` on 4097 / 8193 / 12289 peaks (2-3 static chunks of 4096),
    T in {2,3}: all schedules within the preemption bound; the access log statistics that justify
    the collapse (no unsynchronised conflicting word) are recorded.
Oracle: numpy arg-min over per-grain squared errors, set-valued for exact ties, margin guard at
the tolerance boundary.
"""
from __future__ import annotations
import itertools, os
import numpy as np
from vt.runner import Shard
from vt import oracles as O
import logging
logging.disable(logging.CRITICAL)

LEVEL = "model_checking"
RULE = ("(a,b) cases = (ordered grain list, peak list, tolerance[, thread count]) enumerated completely over the stated "
        "alphabets; non-trivial = at least one peak is claimed by one grain and later taken by a better one AND at least "
        "one peak stays unassigned; (c) cases = (grain, peak list, T) explored over all schedules within the bound")
ASSUMPTIONS = ["peaks drawn from the stated deterministic pool (four lattices x hkl box x offset table)",
               "sequentially consistent interleavings of -O0 loads/stores in (c)",
               "peaks whose squared error is within 1e-9 of tol^2, or whose two best grains are tied to 1e-12, are borderline: "
               "either answer is accepted"]

TOLS = (0.02, 0.05, 0.1, 0.25)
SIZES = (1, 7, 4095, 4096, 4097, 8193)


def grains(seed):
    a = 4.04
    R = O.generic_rotations(seed)
    UA = R[0]
    A = np.linalg.inv(np.dot(UA, np.eye(3) / a))                      # cubic a=4.04
    small = O.rotation_from_axis_angle((1, 2, 3), 0.2)
    A2 = np.linalg.inv(np.dot(np.dot(small, UA), np.eye(3) / a))       # competes inside tol
    tw = O.rotation_from_axis_angle((1, 1, 1), 60.0)                  # sigma-3 twin: shares (111) planes
    At = np.linalg.inv(np.dot(np.dot(UA, tw), np.eye(3) / a))
    Bcell = O.cell_to_B([5.1, 6.2, 7.3, 90, 101, 90])
    B = np.linalg.inv(np.dot(R[1], Bcell))
    return [A, A2, At, B]


OFFSETS = [(0, 0, 0), (0.004, 0, 0), (0, -0.013, 0.006), (0.02, 0.02, -0.02), (-0.05, 0.03, 0.0),
           (0.08, 0.0, 0.04), (0.2, -0.1, 0.0), (0.31, 0.27, -0.4)]


def peak_pool(ubis):
    hk = [(1, 0, 0), (1, 1, 0), (1, 1, 1), (2, 0, 0), (2, 1, 0), (-1, 2, 1), (2, 2, 0), (0, -2, 1), (3, 1, 1),
          (-2, -2, 2), (1, -3, 0), (0, 0, 4), (-1, -1, -1), (3, -1, 2), (2, -2, -2), (4, 0, -2)]
    pool = []
    for g, ubi in enumerate(ubis):
        ub = np.linalg.inv(ubi)
        for a, h in enumerate(hk):
            for b, d in enumerate(OFFSETS):
                if (a + b + g) % 2 == 0 or b < 3:
                    pool.append(np.dot(ub, np.array(h, float) + np.array(d)))
    # a few peaks indexed by nobody
    for k in range(6):
        pool.append(np.array([0.0137 * (k + 1), -0.0291 * (k + 2), 0.0411 * (k + 1)]))
    return np.array(pool)


def peak_list(pool, n, shift):
    idx = (np.arange(n) * 7 + shift) % len(pool)
    return np.ascontiguousarray(pool[idx])


def errors(ubis, gv):
    """per grain squared distance of ubi.g to the nearest integer hkl, computed with numpy"""
    out = []
    for ubi in ubis:
        h = np.dot(ubi, gv.T)
        d = h - np.round(h)
        out.append((d * d).sum(axis=0))
    return np.array(out)            # ngrains x npeaks


def check_assignment(sh, key, case, ubis, gv, tol, labels, drlv2, init, names):
    """labels use ids in `names` (one per ubi); unassigned = -1."""
    e = errors(ubis, gv)
    tol2 = tol * tol
    elig = e < tol2
    border = (np.abs(e - tol2) < 1e-9).any(axis=0)
    emask = np.where(elig, e, np.inf)
    best = emask.min(axis=0)
    names = np.asarray(names)
    ok = True
    # unassigned
    none = ~elig.any(axis=0)
    bad = none & ~border & (labels != -1)
    if bad.any():
        k = int(np.nonzero(bad)[0][0])
        sh.violation(key + ":unindexed-peak-labelled", case, {"peak": k, "label": int(labels[k]), "errors": e[:, k]})
        return False
    has = ~none & ~border
    if has.any():
        # the label must be one of the grains achieving the minimum (ties: any of them)
        lab_err = np.full(gv.shape[0], np.nan)
        for g, nm in enumerate(names):
            m = labels == nm
            lab_err[m] = emask[g, m]
        wrong = has & ~(np.abs(lab_err - best) <= 1e-12)
        if wrong.any():
            k = int(np.nonzero(wrong)[0][0])
            sh.violation(key + ":not-best-grain", case, {"peak": k, "label": int(labels[k]), "errors": e[:, k], "tol2": tol2})
            return False
        dbad = has & ~(np.abs(drlv2 - best) <= 1e-12)
        if dbad.any():
            k = int(np.nonzero(dbad)[0][0])
            sh.violation(key + ":stored-error-not-minimum", case, {"peak": k, "drlv2": float(drlv2[k]), "best": float(best[k])})
            return False
    kept = none & ~border & (drlv2 != init)
    if kept.any():
        k = int(np.nonzero(kept)[0][0])
        sh.violation(key + ":error-changed-for-unindexed-peak", case, {"peak": k, "drlv2": float(drlv2[k])})
        return False
    sh.borderline += int(border.sum())
    return ok


def nontrivial(ubis, gv, tol):
    e = errors(ubis, gv)
    elig = e < tol * tol
    unassigned = (~elig.any(axis=0)).any()
    # stolen: some later grain strictly better than an earlier eligible one
    stolen = False
    cur = np.full(gv.shape[0], np.inf)
    for g in range(len(ubis)):
        take = elig[g] & (e[g] < cur)
        if (take & np.isfinite(cur)).any():
            stolen = True
        cur = np.where(take, e[g], cur)
    return bool(unassigned and stolen)


def plan(tier, seed):
    shards = []
    orders = [p for k in range(1, 5) for p in itertools.permutations(range(4), k)]
    sizes = SIZES if tier == "quick" else SIZES + (12289, 20000)
    threads = (1, 2, 3, 4) if tier == "quick" else (1, 2, 3, 4, 8, 16, 32)
    for ci in range(8):
        shards.append(("seq", orders[ci::8], sizes, TOLS, threads))
    for oi in range(6 if tier == "quick" else 12):
        shards.append(("many", oi, tier))
    for ci in range(16):
        shards.append(("hist", ci, 16))
    for gi in range(8 if tier == "quick" else 32):
        shards.append(("assignlabels", gi, tier))
    for ci in range(4):
        shards.append(("saveindexing", ci, 4))
    shards.append(("grainfile",))
    for ng_ in (4100, 8200):
        shards.append(("sched_kernels", ng_))
    vs = [(4097, 2, 2), (8193, 2, 2), (8193, 3, 1)] if tier == "quick" else \
        [(4097, 2, 3), (8193, 2, 3), (8193, 3, 2), (12289, 3, 2), (12289, 2, 3), (8193, 4, 1), (16385, 4, 1)]
    for ng, T, b in vs:
        for g in range(4):
            shards.append(("sched", ng, T, b, g))
    k = seed % len(shards)
    return shards[k:] + shards[:k]


def seed_of():
    return int(os.environ.get("VERIF_SEED", "0") or 0)


def run_seq_case(sh, cI, indexing, U, order, gv, tol, threads, case):
    ubis = [U[g] for g in order]
    ng = len(gv)
    if ng >= 7:
        # a peak without a finite g-vector (a detector position that could not be converted) is indexed by no grain
        gv = gv.copy()
        gv[3] = np.nan
        gv[ng - 2, 1] = np.inf
    ref = None
    gv_in = gv.copy()
    U_in = [np.array(U[g], float).copy() for g in order]
    for nt in threads:
        cI.cimaged11_omp_set_num_threads(nt)
        drlv2 = np.full(ng, 2.0)
        labels = np.full(ng, -1, np.int32)
        counts = []
        for g in order:
            counts.append(cI.score_and_assign(U[g], gv, tol, drlv2, labels, int(g)))
        if nt == threads[0]:
            ref = (labels.copy(), drlv2.copy(), list(counts))
            if not check_assignment(sh, "score_and_assign", case, ubis, gv, tol, labels, drlv2, 2.0, list(order)):
                break
        else:
            if not (np.array_equal(labels, ref[0]) and np.array_equal(drlv2, ref[1]) and counts == ref[2]):
                sh.violation("score_and_assign:thread-count-dependent", dict(case, nthreads=nt),
                             {"n_diff_labels": int((labels != ref[0]).sum()), "counts": counts, "ref_counts": ref[2]})
                break
    cI.cimaged11_omp_set_num_threads(1)
    # indexer.fight_over_peaks: ga uses positions in the list, gas = histogram
    ind = indexing.indexer(unitcell=None, gv=gv.copy(), hkl_tol=tol)
    ind.ubis = [u.copy() for u in ubis]
    ind.fight_over_peaks()
    if check_assignment(sh, "fight_over_peaks", case, ubis, gv, tol, ind.ga, ind.drlv2, 2.0, list(range(len(ubis)))):
        hist = np.bincount(ind.ga[ind.ga >= 0], minlength=len(ubis))
        if list(hist) != [int(x) for x in ind.gas]:
            sh.violation("fight_over_peaks:gas-not-histogram", case, {"gas": ind.gas, "hist": hist})
        else:
            # read-only questions afterwards (which peaks does grain k index? how many?) leave the stored assignment as it is
            ga_keep, d_keep = ind.ga.copy(), ind.drlv2.copy()
            for u in ubis[:2]:
                ind.getind(np.ascontiguousarray(u))
                ind.score(np.ascontiguousarray(u))
            if not (np.array_equal(ind.ga, ga_keep) and np.array_equal(ind.drlv2, d_keep)):
                sh.violation("fight_over_peaks:stored-labels-or-errors-changed-by-getind-or-score", case,
                             {"n_errors_changed": int((ind.drlv2 != d_keep).sum()), "n_labels_changed": int((ind.ga != ga_keep).sum())})
    # the assignment only writes labels and errors: the g-vectors and the grains' matrices come back as they went in
    if not (np.array_equal(gv, gv_in, equal_nan=True) and all(np.array_equal(U[g], u0) for g, u0 in zip(order, U_in))
            and all(np.array_equal(a_, b_) for a_, b_ in zip(ind.ubis, U_in))):
        sh.violation("assignment-modifies-the-g-vectors-or-the-grain-matrices", case, {"gv_changed": not np.array_equal(gv, gv_in, equal_nan=True)})
    sh.evaluations += 1
    if nontrivial(ubis, gv, tol):
        sh.nontrivial += 1
    sh.outcomes.add((len(order), int((ref[0] >= 0).sum()) % 7))


def _run_seq(desc):
    _, orders, sizes, tols, threads = desc
    from ImageD11 import cImageD11 as cI, indexing
    indexing.loglevel = 3
    sh = Shard()
    U = grains(seed_of())
    pool = peak_pool(U)
    for order in orders:
        for n in sizes:
            gv = peak_list(pool, n, shift=3 * len(order) + order[0])
            for tol in tols:
                case = {"kind": "seq", "order": list(order), "npeaks": n, "tol": tol, "seed": seed_of()}
                run_seq_case(sh, cI, indexing, U, order, gv, tol, threads if n > 4096 else threads[:2], case)
        sh.sample(case, limit=1)
    return sh


def many_grains(seed):
    """50 UBIs: the four base grains, 36 near-duplicates of them (misoriented by 0.03 .. 0.4 degrees about nine axes: they compete for
    the same peaks inside the tolerance) and 10 unrelated orientations"""
    U = grains(seed)
    out = [u for u in U]
    axes = [(1, 0, 0), (0, 1, 0), (0, 0, 1), (1, 1, 0), (1, -1, 1), (2, 1, 3), (-1, 2, 0), (3, -2, 1), (1, 1, 1)]
    k = 0
    for g in range(4):
        for q in range(9):
            ang = (0.03, 0.07, 0.11, 0.17, 0.23, 0.29, 0.33, 0.37, 0.4)[(q + g) % 9]
            out.append(np.dot(U[g], O.rotation_from_axis_angle(axes[q], ang).T))
            k += 1
    for q in range(10):
        out.append(np.dot(U[q % 4], O.rotation_from_axis_angle(axes[q % 9], 17.0 + 9.0 * q).T))
    return [np.ascontiguousarray(u) for u in out]


def many_orders(n):
    base = list(range(n))
    outs = [base, base[::-1]]
    for r in (7, 13, 31):
        outs.append(base[r:] + base[:r])
    outs.append(base[::2] + base[1::2])
    outs.append(base[1::2][::-1] + base[::2])
    for stride in (3, 7, 11, 17, 23):
        outs.append([(i * stride + 5) % n for i in range(n)])
    return outs


def _run_many(desc):
    _, oi, tier = desc
    from ImageD11 import cImageD11 as cI, indexing
    indexing.loglevel = 3
    sh = Shard()
    U = many_grains(seed_of())
    pool = peak_pool(U[:4])
    order = many_orders(len(U))[oi]
    for n in ((8193,) if tier == "quick" else (8193, 20000)):
        gv = peak_list(pool, n, shift=11)
        for tol in ((0.1,) if tier == "quick" else (0.05, 0.1)):
            case = {"kind": "many", "order_index": oi, "npeaks": n, "tol": tol, "seed": seed_of(), "ngrains": len(U)}
            run_seq_case(sh, cI, indexing, U, tuple(order), gv, tol, (1, 2) if tier == "quick" else (1, 4, 16), case)
    sh.sample(case, limit=1)
    return sh


def _run_hist(desc):
    """histories: the SAME indexer object is asked to assign twice, with grain list L1 and then L2 (all ordered pairs of
    the 64 ordered lists); after the second call everything must describe L2 only."""
    _, ci, nch = desc
    from ImageD11 import cImageD11 as cI, indexing
    indexing.loglevel = 3
    sh = Shard()
    U = grains(seed_of())
    pool = peak_pool(U)
    orders = [p for k in range(1, 5) for p in itertools.permutations(range(4), k)]
    gv = peak_list(pool, 257, shift=5)
    tol = 0.1
    for a, L1 in enumerate(orders):
        if a % nch != ci:
            continue
        for L2 in orders:
            ind = indexing.indexer(unitcell=None, gv=gv.copy(), hkl_tol=tol)
            ind.ubis = [U[g].copy() for g in L1]
            ind.fight_over_peaks()
            ind.ubis = [U[g].copy() for g in L2]
            ind.fight_over_peaks()
            case = {"kind": "hist", "first": list(L1), "second": list(L2), "seed": seed_of()}
            ubis = [U[g] for g in L2]
            if check_assignment(sh, "fight_over_peaks[second call on the same indexer]", case, ubis, gv, tol, ind.ga, ind.drlv2, 2.0,
                                list(range(len(ubis)))):
                hist = np.bincount(ind.ga[ind.ga >= 0], minlength=len(ubis))
                if list(hist) != [int(x) for x in ind.gas]:
                    sh.violation("fight_over_peaks[second call]:gas-not-histogram", case, {"gas": ind.gas, "hist": hist})
            sh.evaluations += 1
            if len(L2) < len(L1):
                sh.nontrivial += 1
        sh.sample(case, limit=1)
    return sh


def _run_saveindexing(desc):
    """indexer.saveindexing is the public method that RUNS the competing assignment and writes the report: on an indexer read from a
    g-vector file, for every ordered list of the four grains, the grains handed in are still the same matrices afterwards, labels /
    errors / counts describe exactly those matrices, and saving again gives the same labels and the same file"""
    import io, contextlib, shutil
    from ImageD11 import indexing, transform as tr
    from vt.props import c09
    indexing.loglevel = 4
    sh = Shard()
    U = grains(seed_of())
    pool = peak_pool(U)
    gv = peak_list(pool, 257, shift=5)
    tol = 0.1
    wvln = 0.3
    wd = os.path.join(c09.WORK, "c07_si_%d" % os.getpid())
    shutil.rmtree(wd, ignore_errors=True)
    os.makedirs(wd)
    try:
        with np.errstate(all="ignore"):
            tth, (e1, e2), (o1, o2) = tr.uncompute_g_vectors(gv.T, wvln)
        e1 = np.nan_to_num(e1); o1 = np.nan_to_num(o1)
        ds = np.sqrt((gv * gv).sum(axis=1))
        gve = os.path.join(wd, "p.gve")
        with open(gve, "w") as fh:
            fh.write("4.04 4.04 4.04 90 90 90 F\n# wavelength = %f\n# wedge = 0.000000\n# ds h k l\n" % wvln)
            fh.write("# xr yr zr xc yc ds eta omega\n")
            for k in range(len(gv)):
                fh.write("%.17g %.17g %.17g %.4f %.4f %.17g %.6f %.6f\n" % (gv[k, 0], gv[k, 1], gv[k, 2], 100.0 + k, 200.0 + 2 * k, ds[k], e1[k], o1[k]))
        orders = [p_ for k in (4, 3, 2) for p_ in itertools.permutations(range(4), k)][desc[1]::desc[2]]
        for L in orders:
            with contextlib.redirect_stdout(io.StringIO()):
                ind = indexing.indexer()
                ind.readgvfile(gve, quiet=True)
                ind.hkl_tol = tol
                ind.assigntorings()
                ind.ubis = [np.ascontiguousarray(U[g].copy()) for g in L]
                given = [u.copy() for u in ind.ubis]
                ind.saveindexing(os.path.join(wd, "a.idx"))
            case = {"kind": "saveindexing", "order": list(L), "seed": seed_of()}
            if not np.allclose(ind.gv, gv, rtol=0, atol=1e-15):
                raise RuntimeError("g-vector file did not round-trip")
            if len(ind.ubis) != len(given) or any(not np.array_equal(a_, b_) for a_, b_ in zip(ind.ubis, given)):
                sh.violation("saveindexing:grain-matrices-changed-by-saving", case,
                             {"max_change": float(max(np.abs(np.asarray(a_) - b_).max() for a_, b_ in zip(ind.ubis, given)))})
                continue
            if check_assignment(sh, "saveindexing", case, given, ind.gv, tol, ind.ga, ind.drlv2, 2.0, list(range(len(given)))):
                hist = np.bincount(ind.ga[ind.ga >= 0], minlength=len(given))
                if list(hist) != [int(x) for x in ind.gas]:
                    sh.violation("saveindexing:gas-not-histogram", case, {"gas": ind.gas, "hist": hist})
            ga1, d1 = ind.ga.copy(), ind.drlv2.copy()
            with contextlib.redirect_stdout(io.StringIO()):
                ind.saveindexing(os.path.join(wd, "b.idx"))
            if not (np.array_equal(ga1, ind.ga) and np.array_equal(d1, ind.drlv2)) or \
                    open(os.path.join(wd, "a.idx")).read() != open(os.path.join(wd, "b.idx")).read():
                sh.violation("saveindexing:second-save-differs", case, {"n_labels_differ": int((ga1 != ind.ga).sum())})
            sh.evaluations += 1
            if nontrivial(given, gv, tol):
                sh.nontrivial += 1
        sh.outcomes.add(("saveindexing", len(orders)))
        sh.sample(case, limit=1)
    finally:
        shutil.rmtree(wd, ignore_errors=True)
    return sh


def _run_assignlabels(desc):
    """refinegrains.assignlabels: each grain sees g-vectors recomputed for its OWN position (C compute_gv); all orders of the
    grain list; oracle = arg-min over per-grain errors with g-vectors from the Python reference formulas"""
    _, gi, tier = desc
    sh = Shard()
    for flavour in ("displaced", "origin-mixed", "frame-pairs"):
        _assignlabels_flavour(sh, gi, tier, flavour)
    return sh


def _assignlabels_flavour(sh, gi, tier, flavour):
    import io, contextlib, shutil
    from ImageD11 import refinegrains, transform as tr, grain as gm, parameters as P
    from vt.props import c09
    pars = c09.geometries("thorough")[(gi * 5) % 128]
    truth = c09.true_grains(3, seed_of())
    if flavour == "origin-mixed":
        # freshly indexed grains sit at the origin until their position is refined: grains 0 and 2 at (0,0,0), the others displaced
        # ... and one ON the rotation axis but above the beam centre (0, 0, t_z)
        truth = [(truth[0][0], np.zeros(3)), truth[1], (truth[2][0], np.array([0.0, 0.0, 137.0]))]
    # a competitor: grain 0 rotated by 0.2 degrees, sitting somewhere else
    u0, t0 = truth[0]
    comp = (np.dot(u0, O.rotation_from_axis_angle((1, 2, 3), 0.2).T), t0 + np.array([200.0, -150.0, 80.0]))
    grains_all = truth + [comp]
    peaks = c09.simulate(tr, pars, truth)
    if flavour == "displaced":
        # ... and the peaks of a grain that is NOT in the list handed to the refiner: they belong to nobody
        peaks = np.concatenate([peaks, c09.simulate(tr, pars, [c09.true_grains(4, seed_of())[3]])])
    nthreads = (1,)
    if flavour == "frame-pairs":
        # peaks as they come from 2-D peak tables: several spots share a frame, so consecutive rows carry exactly the same omega. Every
        # spot is listed twice (the second one 0.4 pixel away); the thread count is varied here (blocks of the compiled loops start
        # inside such runs)
        peaks = np.repeat(peaks, 2, axis=0)
        peaks[1::2, 0] += 0.37
        peaks[1::2, 1] -= 0.29
        nthreads = (1, 2, 3, 4, 7, 16)
    from ImageD11 import cImageD11 as cI_
    wd = os.path.join(c09.WORK, "c07_al_%d" % os.getpid())
    shutil.rmtree(wd, ignore_errors=True)
    os.makedirs(wd)
    try:
        with open(os.path.join(wd, "p.flt"), "w") as fh:
            fh.write("#  sc  fc  omega  Number_of_pixels  avg_intensity  sum_intensity\n")
            for k in range(len(peaks)):
                fh.write("%.4f  %.4f  %.4f  %.0f  %.4f  %.4f\n" % (peaks[k, 0], peaks[k, 1], peaks[k, 2], 10, 100.0, 1000.0))
        two_scans = flavour == "origin-mixed"
        if two_scans:
            # a second scan on the same object (every second peak of the first): one refinegrains object can hold several scans, each
            # (grain, scan) pair has its own peak list and its own count
            with open(os.path.join(wd, "q.flt"), "w") as fh:
                fh.write("#  sc  fc  omega  Number_of_pixels  avg_intensity  sum_intensity\n")
                for k in range(0, len(peaks), 2):
                    fh.write("%.4f  %.4f  %.4f  %.0f  %.4f  %.4f\n" % (peaks[k, 0], peaks[k, 1], peaks[k, 2], 10, 100.0, 1000.0))
        sc = np.array([float("%.4f" % v) for v in peaks[:, 0]]); fc = np.array([float("%.4f" % v) for v in peaks[:, 1]])
        om = np.array([float("%.4f" % v) for v in peaks[:, 2]])
        det = {k: pars[k] for k in ("distance", "y_center", "z_center", "y_size", "z_size", "tilt_x", "tilt_y", "tilt_z", "o11", "o12", "o21", "o22")}
        xyz = tr.compute_xyz_lab(np.array([sc, fc]), **det)
        def errors_of(glist):
            out = []
            for ubi, t in glist:
                tth, eta = tr.compute_tth_eta_from_xyz(xyz, om * pars["omegasign"], t_x=t[0], t_y=t[1], t_z=t[2], wedge=pars["wedge"], chi=pars["chi"])
                g = tr.compute_g_vectors(tth, eta, om * pars["omegasign"], pars["wavelength"], wedge=pars["wedge"], chi=pars["chi"])
                h = np.dot(ubi, g)
                d = h - np.round(h)
                out.append((d * d).sum(axis=0))
            return np.array(out)
        errs = errors_of(grains_all)
        ref_by_order = {}
        for tol, order, nt in [(tol, order, nt) for tol in ((0.02, 0.05) if flavour == "displaced" else (0.03,))
                               for order in (itertools.permutations(range(4)) if flavour != "frame-pairs" else [(0, 1, 2, 3), (3, 1, 0, 2)])
                               for nt in nthreads]:
            if True:
                cI_.cimaged11_omp_set_num_threads(nt)
                with contextlib.redirect_stdout(io.StringIO()):
                    o = refinegrains.refinegrains(tolerance=tol, OmFloat=False)
                    o.parameterobj.set_parameters(dict(pars))            # the object's own parameter set (it carries the step sizes)
                    o.loadfiltered(os.path.join(wd, "p.flt"))
                    if two_scans:
                        o.loadfiltered(os.path.join(wd, "q.flt"))
                    # grain NAMES are not their positions in the list (files with a sub-set of grains, re-ordered lists): 0,1,2,3 for the
                    # first tolerance, 7,2,11,5 for the others
                    names = [0, 1, 2, 3] if tol == 0.02 else [7, 2, 11, 5]
                    for pos, gidx in enumerate(order):
                        o.grainnames.append(names[pos])
                        o.ubisread[names[pos]] = grains_all[gidx][0].copy()
                        o.translationsread[names[pos]] = grains_all[gidx][1].copy()
                    o.generate_grains()
                    o.assignlabels(quiet=True)
                    if order[0] == 0:
                        # history: assigning again on the same object (as every refinement cycle does) gives the same answer
                        l1 = np.asarray(o.scandata[os.path.join(wd, "p.flt")].labels).copy()
                        d1 = np.asarray(o.scandata[os.path.join(wd, "p.flt")].drlv2).copy()
                        o.assignlabels(quiet=True)
                        l2 = np.asarray(o.scandata[os.path.join(wd, "p.flt")].labels)
                        d2 = np.asarray(o.scandata[os.path.join(wd, "p.flt")].drlv2)
                        if not (np.array_equal(l1, l2) and np.array_equal(d1, d2)):
                            sh.violation("assignlabels:second-call-differs", {"kind": "assignlabels", "geometry": (gi * 5) % 128, "order": list(order), "tol": tol,
                                                                            "seed": seed_of()}, {"n_labels_differ": int((l1 != l2).sum())})
                col = o.scandata[os.path.join(wd, "p.flt")]
                labels = np.asarray(col.labels).astype(int)
                drl = np.asarray(col.drlv2, float)
                e = errs[list(order)]
                tol2 = tol * tol
                elig = e < tol2
                border = (np.abs(e - tol2) < 1e-7).any(axis=0)
                emask = np.where(elig, e, np.inf)
                best = emask.min(axis=0)
                case = {"kind": "assignlabels", "geometry": (gi * 5) % 128, "order": list(order), "tol": tol, "seed": seed_of(), "positions": flavour,
                        "nthreads": nt}
                cI_.cimaged11_omp_set_num_threads(1)
                if nt == nthreads[0]:
                    ref_by_order[order] = (labels.copy(), drl.copy())
                elif not (np.array_equal(ref_by_order[order][0], labels) and np.array_equal(ref_by_order[order][1], drl)):
                    sh.violation("assignlabels:thread-count-dependent", case,
                                 {"n_labels_differ": int((ref_by_order[order][0] != labels).sum()), "npeaks": len(labels)})
                    continue
                none = ~elig.any(axis=0)
                ok = True
                bad = none & ~border & (labels != -1)
                if bad.any():
                    sh.violation("assignlabels:unindexed-peak-labelled", case, {"peak": int(np.nonzero(bad)[0][0])}); ok = False
                has = ~none & ~border
                lab_err = np.full(len(labels), np.nan)
                for pos in range(4):
                    m = labels == names[pos]
                    lab_err[m] = emask[pos, m]
                wrong = has & ~(np.abs(lab_err - best) <= 1e-7)
                if ok and wrong.any():
                    k = int(np.nonzero(wrong)[0][0])
                    sh.violation("assignlabels:not-best-grain", case, {"peak": k, "label": int(labels[k]), "errors": e[:, k], "tol2": tol2}); ok = False
                if ok and (has & ~(np.abs(drl - best) <= 1e-7)).any():
                    k = int(np.nonzero(has & ~(np.abs(drl - best) <= 1e-7))[0][0])
                    sh.violation("assignlabels:stored-error-not-minimum", case, {"peak": k, "drlv2": float(drl[k]), "best": float(best[k])}); ok = False
                if ok:
                    for pos in range(4):
                        if getattr(o.grains[(names[pos], os.path.join(wd, "p.flt"))], "npks", None) != int((labels == names[pos]).sum()):
                            sh.violation("assignlabels:grain-peak-count-not-histogram", dict(case, grain=pos),
                                         {"npks": getattr(o.grains[(names[pos], os.path.join(wd, "p.flt"))], "npks", "no such attribute"),
                                          "labelled": int((labels == names[pos]).sum())})
                            ok = False
                            break
                if ok and two_scans:
                    qkey = os.path.join(wd, "q.flt")
                    lq = np.asarray(o.scandata[qkey].labels).astype(int)
                    if not np.array_equal(lq, labels[::2]):
                        sh.violation("assignlabels[second scan on the same object]:labels-differ-from-the-same-peaks-in-the-first-scan", case,
                                     {"n_differ": int((lq != labels[::2]).sum()) if len(lq) == len(labels[::2]) else -1})
                    else:
                        for pos in range(4):
                            for key_, lab_ in ((os.path.join(wd, "p.flt"), labels), (qkey, lq)):
                                if getattr(o.grains[(names[pos], key_)], "npks", None) != int((lab_ == names[pos]).sum()):
                                    sh.violation("assignlabels[two scans]:grain-peak-count-not-the-histogram-of-its-own-scan", dict(case, grain=pos),
                                                 {"scan": os.path.basename(key_), "npks": getattr(o.grains[(names[pos], key_)], "npks", "no such attribute"),
                                                  "labelled": int((lab_ == names[pos]).sum())})
                                    break
                if ok and flavour == "displaced" and tuple(order) in ((0, 1, 2, 3), (2, 0, 3, 1)) and nt == 1:
                    # history: a position refinement in between (it works with its own wide tolerance internally), then the assignment again -
                    # with the tolerance the object was given, for the grains as they are now
                    fkey = os.path.join(wd, "p.flt")
                    with contextlib.redirect_stdout(io.StringIO()):
                        o.refinepositions(quiet=True, maxiters=3)
                        cur = [(np.array(o.grains[(names[pos], fkey)].ubi, float).copy(), np.array(o.grains[(names[pos], fkey)].translation, float).copy())
                               for pos in range(4)]
                        o.assignlabels(quiet=True)
                    l3 = np.asarray(o.scandata[fkey].labels).astype(int)
                    e3 = errors_of(cur)
                    elig3 = e3 < tol2
                    border3 = (np.abs(e3 - tol2) < 1e-7).any(axis=0)
                    none3 = ~elig3.any(axis=0)
                    em3 = np.where(elig3, e3, np.inf)
                    lab_err3 = np.full(len(l3), np.nan)
                    for pos in range(4):
                        m3 = l3 == names[pos]
                        lab_err3[m3] = em3[pos, m3]
                    hcase = dict(case, history=["assignlabels", "refinepositions", "assignlabels"])
                    if (none3 & ~border3 & (l3 != -1)).any():
                        sh.violation("assignlabels[after refinepositions]:unindexed-peak-labelled", hcase, {"n": int((none3 & ~border3 & (l3 != -1)).sum()), "tolerance_given": tol,
                                                                                                                   "tolerance_attribute_now": float(o.tolerance)})
                    elif (~none3 & ~border3 & ~(np.abs(lab_err3 - em3.min(axis=0)) <= 1e-7)).any():
                        sh.violation("assignlabels[after refinepositions]:not-best-grain", hcase, {})
                    sh.evaluations += 1
                if ok and tuple(order) in ((1, 0, 2, 3), (3, 2, 1, 0)) and nt == 1:
                    # history: one grain of the object is replaced by an orientation that fits no peak (40 degrees away), then the assignment
                    # again: its count and its peak list are those of the labels of THIS assignment (none), not of the one before
                    fkey = os.path.join(wd, "p.flt")
                    gone = o.grains[(names[1], fkey)]
                    gone.set_ubi(np.dot(np.array(gone.ubi, float), O.rotation_from_axis_angle((2, -1, 5), 40.0).T))
                    with contextlib.redirect_stdout(io.StringIO()):
                        o.assignlabels(quiet=True)
                    l4 = np.asarray(o.scandata[fkey].labels).astype(int)
                    hcase = dict(case, history=["assignlabels", "grain %d replaced by a far orientation" % names[1], "assignlabels"])
                    for pos in range(4):
                        g_ = o.grains[(names[pos], fkey)]
                        n4 = int((l4 == names[pos]).sum())
                        if int(g_.npks) != n4 or len(g_.ind) != n4 or len(g_.sc) != n4 or not np.array_equal(np.sort(np.asarray(g_.ind)), np.nonzero(l4 == names[pos])[0]):
                            sh.violation("assignlabels[grain replaced, assigned again]:grain-count-or-peak-list-not-those-of-the-labels", dict(hcase, grain=pos),
                                         {"npks": int(g_.npks), "len_ind": len(g_.ind), "len_sc": len(g_.sc), "labelled": n4})
                            break
                    sh.evaluations += 1
                sh.borderline += int(border.sum())
                sh.evaluations += 1
                if int(elig.sum(axis=0).max()) >= 2:
                    sh.nontrivial += 1
                sh.outcomes.add(("assignlabels", int((labels >= 0).sum()) % 5))
        sh.sample(case, limit=1)
    finally:
        shutil.rmtree(wd, ignore_errors=True)


_V = None


def _run_sched(desc):
    _, ng, T, bound, g = desc
    global _V
    from vt.vrt import VRT
    if _V is None:
        _V = VRT()
    V = _V
    sh = Shard()
    U = grains(seed_of())
    pool = peak_pool(U)
    gv = peak_list(pool, ng, shift=g)
    ubi = np.ascontiguousarray(U[g])
    tol = 0.1
    # state before the call: another grain has already claimed peaks (so the release branch and the
    # "better than current" comparison are exercised)
    other = U[(g + 1) % 4]
    e_other = errors([other], gv)[0]
    drl0 = np.where(e_other < tol * tol, e_other, 2.0)
    lab0 = np.where(e_other < tol * tol, 7, -1).astype(np.int32)
    lab0[::5] = g                     # some peaks already carry this grain's label: release branch
    drlv2 = drl0.copy()
    labels = lab0.copy()
    V.register(ubi, gv, drlv2, labels)

    def prepare():
        drlv2[:] = drl0
        labels[:] = lab0
    call = V.kernel("score_and_assign", [ubi, gv, drlv2, labels, int(g), ng], dbls=[tol])

    def observe(ret):
        return (int(ret), labels.tobytes(), drlv2.tobytes())
    # reference: one logical thread
    prepare()
    r1 = V.run(call, 1, [])
    ref = observe(r1["ret"])
    r = V.explore(prepare, call, observe, T, bound, max_exec=50000, budget_s=60, early_stop=lambda o: o != ref)
    case = {"kind": "sched", "npeaks": ng, "T": T, "bound": bound, "grain": g, "seed": seed_of()}
    sh.evaluations += 1
    sh.states += r["nodes"]
    sh.transitions += r["nodes"] - 1 + r["executions"]
    sh.traces_validated += r["executions"]
    sh.count("executions", r["total_executions"])
    sh.count("conflict_words", r["filter_size"])
    if r["capped"]:
        sh.capped = True
    # access statistics from one fully logged execution
    prepare()
    rl = V.run(call, T, [], logacc=1)
    sh.counters["max_words_touched"] = max(sh.counters.get("max_words_touched", 0), rl["words"])
    sh.count("logged_accesses", rl["nacc"])
    sh.nontrivial += 1 if (r["executions"] > 1 and rl["nacc"] > 1000) else 0
    sh.outcomes.add(len(r["outcomes"]))
    for obs, sched in r["outcomes"].items():
        if obs != ref:
            prepare(); o1 = observe(V.run(call, T, sched)["ret"])
            prepare(); o2 = observe(V.run(call, T, sched)["ret"])
            if o1 != o2 or o1 != obs:
                raise RuntimeError("non-deterministic replay")
            if obs == ("DEADLOCK",):
                sh.violation("score_and_assign:deadlock", dict(case, schedule=sched), {})
                continue
            lab = np.frombuffer(obs[1], np.int32)
            refl = np.frombuffer(ref[1], np.int32)
            sh.violation("score_and_assign:schedule-dependent:T=%d" % T, dict(case, schedule=sched),
                         {"ret": obs[0], "ref_ret": ref[0], "n_labels_differ": int((lab != refl).sum()),
                          "conflict_words": r["filter_size"]})
    # the single-thread reference itself against the oracle
    prepare()
    V.run(call, 1, [])
    sh.sample({"case": case, "executions": r["executions"], "conflict_words": r["filter_size"],
               "accesses_logged": rl["nacc"], "distinct_outcomes": len(r["outcomes"])}, limit=1)
    return sh


def _run_sched_kernels(desc):
    """the other compiled loops over the peak list behind the refinement and the counts (refine_assigned, score_and_refine, score,
    score_gvec_z) on lists longer than one 4096-peak block, teams of 2 and 3 threads, every schedule within one preemption at the words
    more than one thread touches (vrt runtime): the counts, sums and matrices they hand back do not depend on the interleaving.  (On the
    current tree these loops are serial: the exploration is then a single execution each.)"""
    _, ng = desc
    global _V
    from vt.vrt import VRT, schedule_outcomes
    from vt.sani import Call, A, I, D
    if _V is None:
        _V = VRT()
    sh = Shard()
    U = grains(seed_of())
    gv = np.ascontiguousarray(peak_list(peak_pool(U), ng, shift=1))
    ubi = np.ascontiguousarray(U[1])
    lab = ((np.arange(ng) * 7) % 3).astype(np.int32)          # the label asked for occurs in every block

    def loose(a, b):
        if a[0] != b[0]:
            return False
        return all(x.shape == y.shape and (np.array_equal(x, y) if x.dtype.kind in "iu" else np.allclose(x, y, rtol=1e-9, atol=1e-12, equal_nan=True))
                   for x, y in zip(a[1], b[1]))
    calls = [Call("refine_assigned", [A(ubi.copy(), "io"), A(gv), A(lab), I(1), A(np.zeros(1, np.int32), "out"), A(np.zeros(1), "out"), I(ng)], ret="v"),
             Call("score_and_refine", [A(ubi.copy(), "io"), A(gv), D(0.1), A(np.zeros(1, np.int32), "out"), A(np.zeros(1), "out"), I(ng)], ret="v"),
             Call("score", [A(ubi.copy()), A(gv), D(0.1), I(ng)]),
             Call("score_gvec_z", [A(ubi.copy()), A(np.linalg.inv(ubi)), A(gv), A(np.zeros((ng, 3)), "out"), A(np.zeros((ng, 3)), "out"), A(np.zeros((ng, 3)), "out"),
                                   A(np.zeros((ng, 3)), "out"), I(1), I(ng)], ret="v")]
    for call in calls:
        r = schedule_outcomes(_V, call, threads=(2, 3), bound=1, max_exec=4000, budget_s=20.0, same=loose)
        if r is None:
            continue
        bad, st = r
        case = {"kind": "sched_kernels", "kernel": call.kernel, "npeaks": ng, "seed": seed_of()}
        if bad:
            sh.violation("%s:outcome-depends-on-the-thread-schedule" % call.kernel, dict(case, team=bad[0][0], schedule=[int(x) for x in bad[0][1]]),
                         {"schedules_with_another_outcome": len(bad), "conflict_words": st["conflict_words"]})
        sh.evaluations += 1
        sh.nontrivial += 1
        sh.states += st["executions"]
        sh.traces_validated += st["executions"]
        sh.outcomes.add((call.kernel, st["regions"] > 0))
    sh.sample({"kind": "sched_kernels", "npeaks": ng}, limit=1)
    return sh


def run_shard(desc):
    if desc[0] == "sched_kernels":
        return _run_sched_kernels(desc)
    if desc[0] == "grainfile":
        # the grain file refinegrains.readubis starts from (shared with C09): positions known / unknown in every pattern
        from vt.props import c09
        return c09._run_grainfile(desc)
    if desc[0] == "seq":
        return _run_seq(desc)
    if desc[0] == "hist":
        return _run_hist(desc)
    if desc[0] == "many":
        return _run_many(desc)
    if desc[0] == "assignlabels":
        return _run_assignlabels(desc)
    if desc[0] == "saveindexing":
        return _run_saveindexing(desc)
    return _run_sched(desc)


def replay(case):
    from ImageD11 import cImageD11 as cI, indexing
    indexing.loglevel = 3
    sh = Shard()
    os.environ["VERIF_SEED"] = str(case.get("seed", 0))
    if case["kind"] == "sched_kernels":
        r = _run_sched_kernels(("sched_kernels", case["npeaks"]))
        sh.violations = [v for v in r.violations if v["case"]["kernel"] == case["kernel"]]
        return (not sh.violations), {"violations": sh.violations[:2]}
    if case["kind"] == "grainfile":
        from vt.props import c09
        return c09.replay(case)
    if case["kind"] == "assignlabels":
        gi = [g_ for g_ in range(32) if (g_ * 5) % 128 == case["geometry"]][0]
        r = _run_assignlabels(("assignlabels", gi, "quick"))
        sh.violations = [v for v in r.violations if v["case"]["order"] == case["order"] and v["case"]["tol"] == case["tol"]]
    elif case["kind"] == "saveindexing":
        r = _run_saveindexing(("saveindexing", 0, 1))
        sh.violations = [v for v in r.violations if v["case"]["order"] == case["order"]]
    elif case["kind"] == "many":
        r = _run_many(("many", case["order_index"], "thorough"))
        sh.violations = [v for v in r.violations if v["case"]["npeaks"] == case["npeaks"] and v["case"]["tol"] == case["tol"]]
    elif case["kind"] == "hist":
        r = _run_hist(("hist", 0, 1))
        sh.violations = [v for v in r.violations if v["case"]["first"] == case["first"] and v["case"]["second"] == case["second"]]
    elif case["kind"] == "seq":
        U = grains(case.get("seed", 0))
        pool = peak_pool(U)
        order = tuple(case["order"])
        gv = peak_list(pool, case["npeaks"], shift=3 * len(order) + order[0])
        run_seq_case(sh, cI, indexing, U, order, gv, case["tol"], [1, case.get("nthreads", 2)], case)
    else:
        r = _run_sched(("sched", case["npeaks"], case["T"], case["bound"], case["grain"]))
        sh.violations = r.violations
    return (not sh.violations), {"violations": sh.violations}
