"""C10 - finite strain tensors are objective, symmetric and exact for known deformations.

Bounded exhaustive exploration: 5 reference cells (cubic, hexagonal, orthorhombic, monoclinic,
triclinic) x 9 (thorough 14) stretches S (identity, +-1 % and +-10 % uniaxial, general symmetric
positive definite) x 6 rotations R x m in {-1,-0.5,0,0.5,1,1.5,2} x reference given as a cell or
as another grain (3 orientations U0).  Grain built as ubi = ubi0.(R.S)^T.
Oracle: closed form through numpy.linalg.eigh(S): E_m = (S^2m - I)/2m (log S for m = 0); lab tensor
R.E_m.R^T; symmetry; exact zero for S = I; |E_m - E_m'| <= C |S - I|^2; e6 ordering; the
guvectorised Biot strains (m = 0.5) and the TensorMap properties equal the per-grain ones voxel by
voxel including NaN voxels; the TensorMap history "eps_crystal first, eps_sample second" (rotation
path) agrees with the direct computation to second order in the strain.
"""
from __future__ import annotations
import itertools, os
import numpy as np
from vt.runner import Shard
from vt import oracles as O

LEVEL = "exploration"
RULE = ("cases = (reference cell, reference orientation, stretch, rotation, m) all combinations of the stated tables; "
        "non-trivial = non-identity stretch and non-identity rotation")
ASSUMPTIONS = ["stretches up to 10 % from the stated table; tolerance 1e-10 absolute on tensor entries (1e-9 for |m| = 2)",
               "TensorMap rotation path (eps_sample from a cached eps_crystal) is only required to agree to second order in the "
               "strain, because it rotates with the Busing-Levy U of the strained cell by design"]

CELLS = [[4.0, 4.0, 4.0, 90, 90, 90], [3.0, 3.0, 5.0, 90, 90, 120], [3.0, 4.0, 5.0, 90, 90, 90],
         [3.0, 4.0, 5.0, 90, 100, 90], [4.1, 5.2, 6.3, 80, 95, 105]]
MS = [-1, -0.5, 0, 0.5, 1, 1.5, 2]


def stretches(tier):
    out = [np.eye(3)]
    for ax in range(3):
        for e in (0.01, -0.01) if ax == 0 else ((0.1,) if ax == 1 else (-0.1,)):
            S = np.eye(3)
            S[ax, ax] += e
            out.append(S)
    S = np.eye(3); S[0, 0] = 1.1; out.append(S)
    S = np.eye(3); S[2, 2] = 0.9; out.append(S)

    def general(l, axis, ang):
        Q = O.rotation_from_axis_angle(axis, ang)
        return np.dot(Q, np.dot(np.diag(l), Q.T))
    out.append(general([1.05, 0.97, 1.01], (1, 2, 3), 40))
    out.append(general([1.1, 0.92, 1.03], (-2, 1, 1), 75))
    out.append(general([1.001, 0.9995, 1.0002], (1, 1, 0), 20))
    # elastic strains of a few 1e-6 (what a good diffractometer resolves) and a hydrostatic one: small is not zero
    out.append(general([1.000003, 0.999998, 1.000001], (2, -1, 3), 35))
    out.append(np.eye(3) * 1.000004)
    if tier == "thorough":
        out.append(general([1.1, 1.1, 0.9], (3, 1, 2), 15))
        out.append(general([0.9, 0.95, 1.1], (0, 1, 1), 130))
        out.append(general([1.0001, 1.0, 0.9999], (1, 0, 1), 50))
        out.append(general([1.07, 1.0, 1.0], (1, 1, 1), 60))
        out.append(general([1.02, 0.98, 1.0], (1, -1, 2), 95))
    return out


def rots(seed):
    # ... the last three: half turns about x, y, z - for the axial stretches R.S is then a symmetric but indefinite matrix
    return [np.eye(3), O.rotation_from_axis_angle((0, 0, 1), 90)] + O.generic_rotations(seed)[:4] + [np.diag([1.0, -1.0, -1.0]), np.diag([-1.0, 1.0, -1.0]),
                                                                                                     np.diag([-1.0, -1.0, 1.0])]


def seed_of():
    return int(os.environ.get("VERIF_SEED", "0") or 0)


def seth_hill(S, m):
    w, v = np.linalg.eigh(S)
    if m == 0:
        f = np.log(w)
    else:
        f = (w ** (2 * m) - 1) / (2 * m)
    return np.dot(v, np.dot(np.diag(f), v.T))


def plan(tier, seed):
    shards = [("grain", tier, ci, u0) for ci in range(len(CELLS)) for u0 in range(4)]
    shards += [("map", tier, ci) for ci in range(len(CELLS))]
    shards += [("grainsinos", tier, ci) for ci in range(len(CELLS))]
    shards += [("combine", tier, ci) for ci in range(len(CELLS))]
    shards += [("threads", tier, ci) for ci in ((1, 4) if tier == "quick" else range(len(CELLS)))]
    k = seed % len(shards)
    return shards[k:] + shards[:k]


def _run_grain(desc):
    _, tier, ci, u0i = desc
    from ImageD11 import grain as gm
    sh = Shard()
    cell = CELLS[ci]
    B0 = O.cell_to_B(cell)
    R = rots(seed_of())
    U0 = [None] + [R[2], R[3], R[5]]
    u0 = U0[u0i]
    ub0 = B0 if u0 is None else np.dot(u0, B0)
    ubi0 = np.linalg.inv(ub0)
    ref = cell if u0 is None else gm.grain(ubi0)
    # the same reference as a grain object with a past: made for another orientation and cell, its derived matrices read, then given
    # the reference orientation with set_ubi (what a refinement does to a grain that later serves as the strain-free reference)
    ref_hist = ref
    if u0 is not None:
        ref_hist = gm.grain(np.dot(ubi0, R[1].T) * 1.03)
        for nm in ("UB", "ub", "B", "U", "u", "mt", "rmt", "unitcell"):
            getattr(ref_hist, nm, None)
        ref_hist.set_ubi(ubi0.copy())
    for si, S in enumerate(stretches(tier)):
        delta = np.abs(np.linalg.eigvalsh(S) - 1).max()
        for ri, Rm in enumerate(R):
            F = np.dot(Rm, S)
            ubi = np.dot(ubi0, F.T)
            g = gm.grain(ubi)
            Es = {}
            for m in MS:
                case = {"kind": "grain", "cell": cell, "ref_orientation": u0i, "stretch": si, "rotation": ri, "m": m, "seed": seed_of()}
                tol = 1e-10 if abs(m) < 2 else 1e-9
                want = seth_hill(S, m)
                ref_ = ref_hist if (si + ri) % 2 else ref
                if ref_ is not ref:
                    case["reference_grain_history"] = ["grain(another ubi)", "read UB, B, U, mt, rmt, unitcell", "set_ubi(reference)"]
                Eg = g.eps_grain_matrix(ref_, m)
                Esam = g.eps_sample_matrix(ref_, m)
                Es[m] = Eg
                ok = True
                if np.abs(Eg - Eg.T).max() > 1e-12 or np.abs(Esam - Esam.T).max() > 1e-12:
                    sh.violation("strain:not-symmetric", case, {"grain": Eg, "sample": Esam}); ok = False
                elif np.abs(Eg - want).max() > tol:
                    sh.violation("eps_grain:not-seth-hill-of-S", case, {"got": Eg, "expected": want}); ok = False
                elif np.abs(Esam - np.dot(Rm, np.dot(want, Rm.T))).max() > tol:
                    sh.violation("eps_sample:not-rotated-seth-hill", case, {"got": Esam, "expected": np.dot(Rm, np.dot(want, Rm.T))}); ok = False
                elif si == 0 and (np.abs(Eg).max() > 1e-12 or np.abs(Esam).max() > 1e-12):
                    sh.violation("strain:not-zero-for-reference-cell", case, {"grain": Eg}); ok = False
                if ok and ref_ is not cell:
                    # the same question put to the tensor class directly, the reference handed over as the grain object itself (its
                    # docstring allows a grain for either argument) - and as that grain's UB array
                    from ImageD11 import finite_strain as fs_
                    Ed = fs_.DeformationGradientTensor(g, ref_).finite_strain_ref(m)
                    Ea = fs_.DeformationGradientTensor(g.ubi, np.array(ref_.UB)).finite_strain_ref(m)
                    if np.abs(Ed - Eg).max() > tol or np.abs(Ea - Eg).max() > tol:
                        sh.violation("DeformationGradientTensor:reference-given-as-a-grain-object-differs-from-its-UB", case,
                                     {"max_diff_grain_object": float(np.abs(Ed - Eg).max()), "max_diff_UB_array": float(np.abs(Ea - Eg).max())}); ok = False
                if ok:
                    e6 = g.eps_grain(ref_, m)
                    s6 = g.eps_sample(ref_, m)
                    w6 = [Eg[0, 0], Eg[0, 1], Eg[0, 2], Eg[1, 1], Eg[1, 2], Eg[2, 2]]
                    v6 = [Esam[0, 0], Esam[0, 1], Esam[0, 2], Esam[1, 1], Esam[1, 2], Esam[2, 2]]
                    if not (np.array_equal(e6, w6) and np.array_equal(s6, v6)):
                        sh.violation("strain:e6-ordering", case, {"e6": e6, "matrix": Eg})
                sh.evaluations += 1
                if si > 0 and ri > 0:
                    sh.nontrivial += 1
            # first-order agreement between different m
            for m1, m2 in itertools.combinations(MS, 2):
                if m1 in Es and m2 in Es:
                    if np.abs(Es[m1] - Es[m2]).max() > 3.0 * abs(m1 - m2) * delta * delta + 1e-12:
                        sh.violation("strain:m-dependence-not-second-order", {"kind": "grain", "cell": cell, "stretch": si, "rotation": ri,
                                                                             "m": [m1, m2], "ref_orientation": u0i, "seed": seed_of()},
                                     {"diff": float(np.abs(Es[m1] - Es[m2]).max()), "delta": float(delta)})
            sh.outcomes.add((si > 0, ri > 0, u0i > 0))
            # histories on ONE DeformationGradientTensor object: every ordered pair (thorough: triple) of (frame, m) requests;
            # each answer must not depend on what was asked before (cached decompositions must not leak between frames)
            if si in (5, 7, 8) and ri in (1, 3):
                from ImageD11 import finite_strain as fs
                reqs = [(fr, m) for fr in ("ref", "lab") for m in MS]
                depth = 2 if tier == "quick" else 3
                for seq in itertools.product(range(len(reqs)), repeat=depth):
                    Fobj = fs.DeformationGradientTensor(ubi, ub0)
                    for q in seq:
                        fr, m = reqs[q]
                        E = Fobj.finite_strain_ref(m) if fr == "ref" else Fobj.finite_strain_lab(m)
                        want = seth_hill(S, m)
                        if fr == "lab":
                            want = np.dot(Rm, np.dot(want, Rm.T))
                        if np.abs(E - want).max() > (1e-10 if abs(m) < 2 else 1e-9):
                            sh.violation("DeformationGradientTensor:answer-depends-on-earlier-requests",
                                         {"kind": "grain", "cell": cell, "ref_orientation": u0i, "stretch": si, "rotation": ri, "m": m,
                                          "history": [list(reqs[x]) for x in seq], "seed": seed_of()},
                                         {"got": E, "expected": want})
                            break
                    sh.evaluations += 1
                    sh.nontrivial += 1
    sh.sample(case, limit=1)
    return sh


def _run_map(desc):
    _, tier, ci = desc
    from ImageD11 import grain as gm, unitcell as ucm
    from ImageD11.sinograms import tensor_map as tm
    import io, contextlib
    sh = Shard()
    cell = CELLS[ci]
    B0 = O.cell_to_B(cell)
    ubi0 = np.linalg.inv(B0)
    R = rots(seed_of())
    ubis, exact_s, exact_c, deltas = [], [], [], []
    for S in stretches(tier):
        for Rm in R:
            ubi = np.dot(ubi0, np.dot(Rm, S).T)
            g = gm.grain(ubi)
            ubis.append(ubi)
            exact_s.append(g.eps_sample_matrix(cell, 0.5))
            exact_c.append(g.eps_grain_matrix(cell, 0.5))
            deltas.append(np.abs(np.linalg.eigvalsh(S) - 1).max())
    n = len(ubis)
    ubis = np.array(ubis); exact_s = np.array(exact_s); exact_c = np.array(exact_c); deltas = np.array(deltas)
    for shape in ((1, 1, n), (1, n // 6, 6), (2, n // 12, 6)):
        nv = int(np.prod(shape))
        ub = ubis[:nv].reshape(shape + (3, 3)).copy()
        mask = np.zeros(nv, bool); mask[::5] = True
        mask = mask.reshape(shape)
        ub[mask] = np.nan
        cells = np.broadcast_to(np.array(cell, float), shape + (6,)).copy()
        es = tm.ubi_and_unitcell_to_eps_sample(ub, cells)
        ec = tm.ubi_and_unitcell_to_eps_crystal(ub, cells)
        case = {"kind": "map", "cell": cell, "shape": list(shape), "seed": seed_of()}
        for name, got, want in (("eps_sample", es, exact_s), ("eps_crystal", ec, exact_c)):
            w = want[:nv].reshape(shape + (3, 3))
            if not np.isnan(got[mask]).all():
                sh.violation("tensor_map.%s:masked-voxel-not-NaN" % name, case, {})
            elif np.isnan(got[~mask]).any() or np.abs(got[~mask] - w[~mask]).max() > 1e-10:
                bad = int(np.argmax(np.abs(got[~mask] - w[~mask]).max(axis=(1, 2))))
                sh.violation("tensor_map.%s:differs-from-per-grain-strain" % name, dict(case, voxel=bad),
                             {"max_diff": float(np.nanmax(np.abs(got[~mask] - w[~mask])))})
            sh.evaluations += nv
            sh.nontrivial += nv
        # TensorMap properties, both access orders
        phases = {0: ucm.unitcell(cell, "P")}
        for order in ("sample_first", "crystal_first"):
            T = tm.TensorMap(maps={"UBI": ub.copy(), "phase_ids": np.zeros(shape, int)}, phases=phases)
            with contextlib.redirect_stdout(io.StringIO()):
                if order == "sample_first":
                    a = T.eps_sample
                    T2 = tm.TensorMap(maps={"UBI": ub.copy(), "phase_ids": np.zeros(shape, int)}, phases=phases)
                    b = T2.eps_crystal
                else:
                    b = T.eps_crystal
                    a = T.eps_sample          # rotation path
            ws = exact_s[:nv].reshape(shape + (3, 3)); wc = exact_c[:nv].reshape(shape + (3, 3))
            dl = deltas[:nv].reshape(shape)
            c2 = dict(case, access_order=order)
            if order == "sample_first":
                if np.abs(a[~mask] - ws[~mask]).max() > 1e-10 or np.abs(b[~mask] - wc[~mask]).max() > 1e-10 or not np.isnan(a[mask]).all():
                    sh.violation("TensorMap.eps:differs-from-per-grain-strain", c2, {})
            else:
                err = np.abs(a[~mask] - ws[~mask]).max(axis=(1, 2))
                bound = 6.0 * dl[~mask] ** 2 + 1e-10
                if (err > bound).any() or not np.isnan(a[mask]).all():
                    k = int(np.argmax(err - bound))
                    sh.violation("TensorMap.eps_sample:rotation-path-wrong-beyond-second-order", dict(c2, voxel=k),
                                 {"error": float(err[k]), "second_order_bound": float(bound[k]), "stretch_delta": float(dl[~mask][k])})
            sh.evaluations += nv
            sh.nontrivial += nv
    # exactly axis-aligned grains (matrices with exact zeros, as typed in by hand or produced by symmetry operators): cell axes along
    # +-x, +-y, +-z in every proper arrangement, with an axial stretch; a zero entry is a legal value, not an empty voxel
    if all(abs(x - 90) < 1e-12 for x in cell[3:]):
        ex = []
        for perm in itertools.permutations(range(3)):
            for signs in itertools.product((1, -1), repeat=3):
                P = np.zeros((3, 3))
                for r_ in range(3):
                    P[r_, perm[r_]] = signs[r_]
                if np.linalg.det(P) > 0:
                    for st in ((1.0, 1.0, 1.0), (1.01, 0.995, 1.002)):
                        ex.append(np.dot(np.diag([cell[0] * st[0], cell[1] * st[1], cell[2] * st[2]]), P))
        ex = np.array(ex)
        ws_ = np.array([gm.grain(u).eps_sample_matrix(cell, 0.5) for u in ex])
        wc_ = np.array([gm.grain(u).eps_grain_matrix(cell, 0.5) for u in ex])
        shape = (1, 1, len(ex))
        cells = np.broadcast_to(np.array(cell, float), shape + (6,)).copy()
        es = tm.ubi_and_unitcell_to_eps_sample(ex.reshape(shape + (3, 3)), cells)[0, 0]
        ec = tm.ubi_and_unitcell_to_eps_crystal(ex.reshape(shape + (3, 3)), cells)[0, 0]
        for name, got, want in (("eps_sample", es, ws_), ("eps_crystal", ec, wc_)):
            d = np.abs(got - want).max(axis=(1, 2))
            if np.isnan(d).any() or d.max() > 1e-10:
                k = int(np.argmax(np.where(np.isnan(d), np.inf, d)))
                sh.violation("tensor_map.%s:axis-aligned-grain-differs-from-per-grain-strain" % name,
                             {"kind": "map", "cell": cell, "shape": list(shape), "seed": seed_of(), "voxel": k, "ubi": ex[k]},
                             {"got": got[k], "expected": want[k]})
        sh.evaluations += len(ex)
        sh.nontrivial += len(ex)
    # history: the UBI map of ONE TensorMap is replaced after strains were read; the strains must follow
    shape = (1, 1, 6)
    ubA = ubis[:6].reshape(shape + (3, 3)).copy()
    ubB = ubis[30:36].reshape(shape + (3, 3)).copy()
    phases = {0: ucm.unitcell(cell, "P")}
    for setter in ("attribute", "item", "add_map"):
        for first in (("eps_sample",), ("eps_crystal",), ("eps_sample", "eps_crystal"), ("U", "B"), ()):
            T = tm.TensorMap(maps={"UBI": ubA.copy(), "phase_ids": np.zeros(shape, int)}, phases=phases)
            with contextlib.redirect_stdout(io.StringIO()):
                for nm in first:
                    getattr(T, nm)
                if setter == "attribute":
                    T.UBI = ubB.copy()
                elif setter == "item":
                    T["UBI"] = ubB.copy()
                else:
                    T.add_map("UBI", ubB.copy())
                got_s, got_c, got_U = T.eps_sample, T.eps_crystal, T.U
                F = tm.TensorMap(maps={"UBI": ubB.copy(), "phase_ids": np.zeros(shape, int)}, phases=phases)
                want_s = F.eps_sample
                F2 = tm.TensorMap(maps={"UBI": ubB.copy(), "phase_ids": np.zeros(shape, int)}, phases=phases)
                want_c, want_U = F2.eps_crystal, F2.U
            c3 = {"kind": "map", "cell": cell, "shape": list(shape), "seed": seed_of(), "history": ["read " + "+".join(first), "set UBI via " + setter, "read strains"]}
            if np.abs(got_U - want_U).max() > 1e-12:
                sh.violation("TensorMap.U:stale-after-UBI-replaced", c3, {})
            elif np.abs(got_s - want_s).max() > 6.0 * deltas[30:36].max() ** 2 + 1e-10 or np.abs(got_c - want_c).max() > 1e-10:
                sh.violation("TensorMap.eps:stale-after-UBI-replaced", c3, {"max_diff_sample": float(np.abs(got_s - want_s).max()),
                                                                           "max_diff_crystal": float(np.abs(got_c - want_c).max())})
            sh.evaluations += 1
            sh.nontrivial += 1
    # request histories on ONE map: the four strain maps read in every order (24); afterwards each is what a fresh map gives when it is
    # the only thing read, eps_sample is the per-grain strain, hydro + devia = sample
    names4 = ("eps_sample", "eps_crystal", "eps_hydro", "eps_devia")
    phases_h = {0: ucm.unitcell(cell, "P")}
    with contextlib.redirect_stdout(io.StringIO()):
        alone = {nm: np.array(getattr(tm.TensorMap(maps={"UBI": ubB.copy(), "phase_ids": np.zeros(shape, int)}, phases=phases_h), nm)) for nm in names4}
    per_grain = np.array([gm.grain(u_).eps_sample_matrix(cell, 0.5) for u_ in ubB.reshape(-1, 3, 3)]).reshape(shape + (3, 3))
    if np.abs(alone["eps_sample"] - per_grain).max() > 1e-10 or np.abs(alone["eps_hydro"] + alone["eps_devia"] - alone["eps_sample"]).max() > 1e-12:
        sh.violation("TensorMap.eps:hydro-plus-devia-is-not-the-sample-strain", {"kind": "map", "cell": cell, "shape": list(shape), "seed": seed_of()}, {})
    for perm in itertools.permutations(names4):
        with contextlib.redirect_stdout(io.StringIO()):
            T = tm.TensorMap(maps={"UBI": ubB.copy(), "phase_ids": np.zeros(shape, int)}, phases=phases_h)
            for nm in perm:
                getattr(T, nm)
            after = {nm: np.array(getattr(T, nm)) for nm in names4}
        # (one map may be derived from another that is already cached: agreement to rounding, 1e-12, not bit for bit)
        badn = [nm for nm in names4 if after[nm].shape != alone[nm].shape or not np.abs(after[nm] - alone[nm]).max() <= 1e-12]
        if badn:
            sh.violation("TensorMap.%s:depends-on-which-strain-maps-were-read-before" % badn[0],
                         {"kind": "map", "cell": cell, "shape": list(shape), "seed": seed_of(), "history": ["read " + nm for nm in perm]},
                         {"max_diff": float(np.abs(after[badn[0]] - alone[badn[0]]).max())})
            break
        sh.evaluations += 1
        sh.nontrivial += 1
    # two maps made WITHOUT a phase table (as from_ubis makes them), each told its reference cell afterwards by item assignment: every
    # map is measured against its own cell, whichever was set up last
    cell_other = [cell[0] * 1.1, cell[1] * 1.1, cell[2] * 0.93] + list(cell[3:])
    for order in ("a-first", "b-first"):
        with contextlib.redirect_stdout(io.StringIO()):
            Ta = tm.TensorMap(maps={"UBI": ubA.copy(), "phase_ids": np.zeros(shape, int)})
            Tb = tm.TensorMap(maps={"UBI": ubB.copy(), "phase_ids": np.zeros(shape, int)})
            if order == "a-first":
                Ta.phases[0] = ucm.unitcell(cell, "P"); Tb.phases[0] = ucm.unitcell(cell_other, "P")
            else:
                Tb.phases[0] = ucm.unitcell(cell_other, "P"); Ta.phases[0] = ucm.unitcell(cell, "P")
            got_a, got_b = Ta.eps_sample, Tb.eps_sample
            want_a = tm.TensorMap(maps={"UBI": ubA.copy(), "phase_ids": np.zeros(shape, int)}, phases={0: ucm.unitcell(cell, "P")}).eps_sample
            want_b = tm.TensorMap(maps={"UBI": ubB.copy(), "phase_ids": np.zeros(shape, int)}, phases={0: ucm.unitcell(cell_other, "P")}).eps_sample
        c5 = {"kind": "map", "cell": cell, "shape": list(shape), "seed": seed_of(),
              "history": ["two maps built without phases", "phases[0] assigned on each, " + order, "read eps_sample of both"]}
        if Ta.phases is Tb.phases or np.abs(got_a - want_a).max() > 1e-10 or np.abs(got_b - want_b).max() > 1e-10:
            sh.violation("TensorMap.eps:map-measured-against-another-map's-reference-cell", c5,
                         {"max_diff_a": float(np.abs(got_a - want_a).max()), "max_diff_b": float(np.abs(got_b - want_b).max()),
                          "phase_tables_are_one_object": Ta.phases is Tb.phases})
        sh.evaluations += 1
        sh.nontrivial += 1
    # several phases whose integer keys are NOT 0..n-1 in insertion order (out of order, with a gap): every voxel is measured against
    # the cell of ITS phase key
    for keys in ((1, 0), (0, 3), (2, 5, 1), (0, 1, 2)):
        cells_k = {k_: CELLS[(ci + q) % len(CELLS)] for q, k_ in enumerate(keys)}
        phases = {}
        for k_ in keys:                                   # insertion order = order of `keys`
            phases[k_] = ucm.unitcell(cells_k[k_], "P")
        nvox = 2 * len(keys)
        shape = (1, 1, nvox)
        pid = np.array([keys[q % len(keys)] for q in range(nvox)]).reshape(shape)
        Sx = stretches(tier)[7]
        ub, ws_, wc_ = [], [], []
        for q in range(nvox):
            cell_q = cells_k[int(pid[0, 0, q])]
            u_ = np.dot(np.linalg.inv(O.cell_to_B(cell_q)), np.dot(R[2 + q % 3], Sx).T)
            g_ = gm.grain(u_)
            ub.append(u_); ws_.append(g_.eps_sample_matrix(cell_q, 0.5)); wc_.append(g_.eps_grain_matrix(cell_q, 0.5))
        ub = np.array(ub).reshape(shape + (3, 3))
        with contextlib.redirect_stdout(io.StringIO()):
            Tm = tm.TensorMap(maps={"UBI": ub.copy(), "phase_ids": pid.copy()}, phases=phases)
            ec = Tm.eps_crystal[0, 0]
            Tm2 = tm.TensorMap(maps={"UBI": ub.copy(), "phase_ids": pid.copy()}, phases=phases)
            es = Tm2.eps_sample[0, 0]
        c4 = {"kind": "map", "cell": cell, "shape": list(shape), "seed": seed_of(), "phase_keys_in_insertion_order": list(keys)}
        dc, ds_ = np.abs(ec - np.array(wc_)), np.abs(es - np.array(ws_))
        if np.isnan(dc).any() or np.isnan(ds_).any() or dc.max() > 1e-10 or ds_.max() > 1e-10:
            sh.violation("TensorMap.eps:voxel-not-measured-against-the-cell-of-its-phase", c4,
                         {"max_diff_crystal": float(np.nanmax(dc)), "max_diff_sample": float(np.nanmax(ds_)), "any_nan": bool(np.isnan(dc).any())})
        sh.evaluations += nvox
        sh.nontrivial += nvox
    # a grain built from an array the caller goes on using: the grain owns its matrix (strain unchanged afterwards)
    work = np.array(ubis[7], float)
    g_own = gm.grain(work)
    before = g_own.eps_grain_matrix(cell, 0.5).copy()
    work *= 1.07
    g_own2 = gm.grain(np.eye(3) * 4.0)
    g_own2.set_ubi(work)
    work[:] = np.eye(3) * 9.0
    if np.abs(g_own.eps_grain_matrix(cell, 0.5) - before).max() > 0 or np.abs(g_own.ubi - ubis[7]).max() > 0 or np.abs(g_own2.ubi - ubis[7] * 1.07).max() > 1e-15:
        sh.violation("grain:matrix-shared-with-the-caller's-array", {"kind": "map", "cell": cell, "shape": [1], "seed": seed_of(), "history": "grain(a); a *= 1.07; set_ubi(a); a[:] = ..."}, {})
    sh.sample(case, limit=1)
    return sh


def warm():
    _run_map(("map", "quick", 4))


def _run_grainsinos(desc):
    """TensorMap.from_grainsinos: maps assembled from four GrainSinograms of two phases (reconstructions as separate blocks of an 8x8 frame
    ): in every voxel the map strain is the per-grain strain of the grain that owns the voxel and the phase is that
    grain's - for every way the grains may be numbered (unique ids, ids restarting in each phase, descending, all equal, none)"""
    _, tier, ci = desc
    from ImageD11 import grain as gm, unitcell as ucm
    from ImageD11.sinograms import tensor_map as tm
    from ImageD11.sinograms.dataset import DataSet
    from ImageD11.sinograms.sinogram import GrainSinogram
    import io, contextlib
    sh = Shard()
    cells = [CELLS[ci], CELLS[(ci + 2) % len(CELLS)]]
    phases = [ucm.unitcell(cells[0], "P", name="first"), ucm.unitcell(cells[1], "P", name="second")]
    St = stretches(tier)
    R = rots(seed_of())
    N = 8
    blocks = [(slice(0, 3), slice(0, 3)), (slice(0, 3), slice(5, 8)), (slice(5, 8), slice(0, 3)), (slice(4, 8), slice(4, 8))]
    weights = [1.0, 2.0, 3.0, 0.5]
    for gids in ([0, 1, 2, 3], [0, 1, 0, 1], [3, 2, 1, 0], [5, 5, 5, 5], [7, 2, 11, 2], None):
        for use_gids in (True, False):
            grains, gss = [], []
            for q in range(4):
                ph = phases[q // 2]
                F = np.dot(R[(q + 2) % len(R)], St[(3 + 2 * q) % len(St)])
                ubi = np.dot(F, np.linalg.inv(ph.B.T)).T
                g = gm.grain(ubi)
                g.ref_unitcell = ph
                if gids is not None:
                    g.gid = gids[q]
                ds = DataSet()
                ds.ystep = 1.0
                gs = GrainSinogram(g, ds)
                rec = np.zeros((N, N))
                rec[blocks[q]] = weights[q]
                gs.recons["iradon"] = rec
                grains.append(g); gss.append(gs)
            case = {"kind": "grainsinos", "cell": CELLS[ci], "gids": gids, "use_gids": use_gids, "seed": seed_of()}
            with contextlib.redirect_stdout(io.StringIO()):
                T = tm.TensorMap.from_grainsinos(gss, method="iradon", use_gids=use_gids)
                es = np.array(T.eps_sample)
                T2 = tm.TensorMap.from_grainsinos(gss, method="iradon", use_gids=use_gids)
                ec = np.array(T2.eps_crystal)
            worst, nvox = 0.0, 0
            for q, (g, gs) in enumerate(zip(grains, gss)):
                cellq = cells[q // 2]
                ws, wc = g.eps_sample_matrix(cellq, 0.5), g.eps_grain_matrix(cellq, 0.5)
                for ri, rj in zip(*np.nonzero(gs.recons["iradon"])):
                    mi, mj, mk = tm.TensorMap.recon_index_to_map(ri, rj, N)
                    worst = max(worst, float(np.abs(es[mi, mj, mk] - ws).max()), float(np.abs(ec[mi, mj, mk] - wc).max()))
                    nvox += 1
            if not worst <= 1e-10:
                sh.violation("TensorMap.from_grainsinos:voxel-strain-is-not-that-of-the-grain-owning-the-voxel", case, {"max_diff": worst})
            sh.evaluations += nvox
            sh.nontrivial += nvox
            sh.outcomes.add(("grainsinos", str(gids), use_gids))
    sh.sample(case, limit=1)
    return sh


OWNERS = ([0, 0, 1, 1, 2, 2, -1, 1], [1, 1, 1, 2, 2, 2, -1, -1], [0, 0, 0, 0, 2, 2, 2, -1], [2, 2, 2, 2, 2, 2, 2, 2], [0, 1, 2, 0, 1, 2, 0, 1],
          [-1, -1, -1, -1, 1, 1, 2, 0])


def build_phase_maps(tm, ucm, cells, ubis_for, owners, shape=(1, 2, 4)):
    """three mono-phase TensorMaps over one grid: voxel v belongs to map owners[v] (-1: nobody); a map may own nothing at all"""
    n = int(np.prod(shape))
    maps = []
    for k in range(3):
        ubi = np.full((n, 3, 3), np.nan)
        pid = np.full(n, -1, int)
        lab = np.full(n, -1, int)
        for v in range(n):
            if owners[v] == k:
                ubi[v] = ubis_for(k, v)
                pid[v] = 0
                lab[v] = v % 2              # grain labels restart in every phase
        maps.append(tm.TensorMap(maps={"UBI": ubi.reshape(shape + (3, 3)), "phase_ids": pid.reshape(shape), "labels": lab.reshape(shape)},
                                 phases={0: ucm.unitcell(cells[k], "P")}))
    return maps


def _run_combine(desc):
    """TensorMap.from_combine_phases: three mono-phase maps (one of them possibly empty, in any position of the list) combined into one:
    every voxel is measured against the reference cell of the map it came from (strain = the per-grain one), its phase id is that
    map's position in the list"""
    _, tier, ci = desc
    from ImageD11 import grain as gm, unitcell as ucm
    from ImageD11.sinograms import tensor_map as tm
    import io, contextlib
    sh = Shard()
    cells = [CELLS[ci], CELLS[(ci + 1) % len(CELLS)], CELLS[(ci + 3) % len(CELLS)]]
    St = stretches(tier)
    R = rots(seed_of())

    def ubis_for(k, v):
        F = np.dot(R[(k + v) % len(R)], St[(2 + k + 2 * v) % len(St)])
        return np.dot(F, np.linalg.inv(O.cell_to_B(cells[k]).T)).T
    shape = (1, 2, 4)
    for owners in OWNERS:
        for order in itertools.permutations(range(3)):
            with contextlib.redirect_stdout(io.StringIO()):
                parts = build_phase_maps(tm, ucm, cells, ubis_for, owners, shape)
                T = tm.TensorMap.from_combine_phases([parts[k] for k in order])
                es = np.array(T.eps_sample).reshape(-1, 3, 3)
                T2 = tm.TensorMap.from_combine_phases([parts[k] for k in order])
                ec = np.array(T2.eps_crystal).reshape(-1, 3, 3)
                pid = np.array(T.phase_ids).reshape(-1)
            case = {"kind": "combine", "cell": CELLS[ci], "owners": list(owners), "order_of_the_maps": list(order), "seed": seed_of()}
            worst = 0.0
            bad = None
            for v in range(8):
                k = owners[v]
                if k < 0:
                    if pid[v] != -1:
                        bad = ("phase-id-on-a-voxel-nobody-owns", {"voxel": v, "phase_id": int(pid[v])})
                    continue
                if pid[v] != order.index(k):
                    bad = ("phase-id-is-not-the-position-of-the-owning-map", {"voxel": v, "phase_id": int(pid[v]), "expected": order.index(k)})
                    break
                g = gm.grain(ubis_for(k, v))
                worst = max(worst, float(np.abs(es[v] - g.eps_sample_matrix(cells[k], 0.5)).max()), float(np.abs(ec[v] - g.eps_grain_matrix(cells[k], 0.5)).max()))
            if bad:
                sh.violation("TensorMap.from_combine_phases:" + bad[0], case, bad[1])
            elif not worst <= 1e-10:
                sh.violation("TensorMap.from_combine_phases:voxel-strain-is-not-the-per-grain-strain-against-its-own-phase", case, {"max_diff": worst})
            sh.evaluations += 1
            sh.nontrivial += 1
    # TensorMap.from_stack: sub-volumes of one, two and three layers stacked along Z in every order: layer by layer the strain is the
    # per-grain one
    phase = {0: ucm.unitcell(cells[0], "P")}
    vols = []
    for nz, first in ((2, 0), (1, 6), (3, 9)):
        ub = np.array([ubis_for(0, first + v) for v in range(nz * 3)]).reshape(nz, 1, 3, 3, 3)
        vols.append(ub)
    for order in itertools.permutations(range(3)):
        with contextlib.redirect_stdout(io.StringIO()):
            parts = [tm.TensorMap(maps={"UBI": vols[k].copy(), "phase_ids": np.zeros(vols[k].shape[:3], int)}, phases=phase) for k in order]
            T = tm.TensorMap.from_stack(parts, zstep=1.0)
            es = np.array(T.eps_sample)
        want_u = np.concatenate([vols[k] for k in order])
        case = {"kind": "combine", "cell": CELLS[ci], "owners": "from_stack", "order_of_the_maps": list(order), "seed": seed_of()}
        if es.shape[:3] != want_u.shape[:3]:
            sh.violation("TensorMap.from_stack:shape", case, {"shape": list(es.shape), "expected": list(want_u.shape[:3])})
            continue
        worst = 0.0
        for idx in np.ndindex(*want_u.shape[:3]):
            w_ = gm.grain(want_u[idx]).eps_sample_matrix(cells[0], 0.5)
            d_ = np.abs(es[idx] - w_).max()
            worst = max(worst, float(d_) if np.isfinite(d_) else np.inf)
        if not worst <= 1e-10:
            sh.violation("TensorMap.from_stack:layer-strain-is-not-the-per-grain-strain", case, {"max_diff": worst})
        sh.evaluations += 1
        sh.nontrivial += 1
    sh.outcomes.add(("combine", ci))
    sh.sample(case, limit=1)
    return sh


def _run_threads(desc):
    """two python threads compute the strain of two DIFFERENT grains at the same time (grain.eps_grain_matrix / eps_sample_matrix, for
    m = 0, 0.5, 1): every schedule with one preemption at a bytecode of the finite_strain module is executed (engine E7); each thread
    gets the tensors it gets when it runs alone"""
    _, tier, ci = desc
    from ImageD11 import grain as gm, finite_strain as fs
    from vt import pysched
    sh = Shard()
    cell = CELLS[ci]
    B0 = O.cell_to_B(cell)
    St = stretches(tier)
    R = rots(seed_of())
    ubis = [np.linalg.inv(np.dot(np.dot(R[2 + k], St[7 + k]), B0)) for k in range(2)]
    modfile = fs.__file__
    for m in (0, 0.5, 1):
        alone = [(gm.grain(u.copy()).eps_grain_matrix(cell, m), gm.grain(u.copy()).eps_sample_matrix(cell, m)) for u in ubis]

        def make():
            return [lambda: (gm.grain(ubis[0].copy()).eps_grain_matrix(cell, m), gm.grain(ubis[0].copy()).eps_sample_matrix(cell, m)),
                    lambda: (gm.grain(ubis[1].copy()).eps_grain_matrix(cell, m), gm.grain(ubis[1].copy()).eps_sample_matrix(cell, m))]
        nexec = 0
        for sw, res, err in pysched.explore(make, lambda fr: fr.f_code.co_filename == modfile, bound=1, max_exec=20000, opcodes=True):
            nexec += 1
            case = {"kind": "threads", "cell": cell, "m": m, "switch_at_points": list(sw), "seed": seed_of()}
            for t in range(2):
                if err[t] is not None:
                    sh.violation("finite-strain:concurrent-evaluation-raises", dict(case, thread=t), {"error": repr(err[t])[:200]})
                    break
                if not (np.array_equal(res[t][0], alone[t][0]) and np.array_equal(res[t][1], alone[t][1])):
                    sh.violation("finite-strain:differs-when-another-grain-is-evaluated-at-the-same-time", dict(case, thread=t),
                                 {"max_diff": float(max(np.abs(res[t][0] - alone[t][0]).max(), np.abs(res[t][1] - alone[t][1]).max()))})
                    break
            sh.states += 1
            sh.traces_validated += 1
            if sh.violations:
                break
        sh.count("thread_schedules_executed", nexec)
        sh.evaluations += 1
        sh.nontrivial += 1
    sh.outcomes.add(("threads", ci))
    sh.sample({"kind": "threads", "cell": cell, "schedules": nexec}, limit=1)
    return sh


def run_shard(desc):
    return {"grain": _run_grain, "map": _run_map, "grainsinos": _run_grainsinos, "combine": _run_combine, "threads": _run_threads}[desc[0]](desc)


def replay(case):
    os.environ["VERIF_SEED"] = str(case.get("seed", 0))
    if case["kind"] == "grain":
        ci = CELLS.index(case["cell"])
        r = _run_grain(("grain", "thorough", ci, case["ref_orientation"]))
        v = [x for x in r.violations if x["case"].get("stretch") == case["stretch"] and x["case"].get("rotation") == case["rotation"]
             and x["case"].get("m") == case["m"]]
    elif case["kind"] == "threads":
        r = _run_threads(("threads", "quick", CELLS.index(case["cell"])))
        v = [x for x in r.violations if x["case"]["m"] == case["m"]]
    elif case["kind"] == "combine":
        r = _run_combine(("combine", "thorough", CELLS.index(case["cell"])))
        v = [x for x in r.violations if x["case"]["owners"] == case["owners"] and x["case"]["order_of_the_maps"] == case["order_of_the_maps"]]
    elif case["kind"] == "grainsinos":
        r = _run_grainsinos(("grainsinos", "thorough", CELLS.index(case["cell"])))
        v = [x for x in r.violations if x["case"]["gids"] == case["gids"] and x["case"]["use_gids"] == case["use_gids"]]
    else:
        r = _run_map(("map", "thorough", CELLS.index(case["cell"])))
        v = r.violations
    return (not v), {"violations": v[:3]}
