"""C06 - scoring and least-squares refinement kernels match their mathematical definition.

Bounded exhaustive exploration: 5 UBIs (cubic exact, rotated 0.3 deg, scaled 1.0005; triclinic exact
and rotated; 150 A cubic and 95x110x140 A triclinic, rotated) x 5 tolerances x ALL sub-multisets of size 0..4 (quick) / 0..5 (thorough) of a
24-letter peak alphabet g = UB.(hkl + delta) (coplanar triples, collinear pairs, |h| = 1000, offsets
0, 0.004, 0.03, 0.2 and exactly 0.5), plus structured lists of 10^5 peaks; for refine_assigned ALL
assignments of {label, other} to the list.  Kernels: cImageD11.score, score_and_refine,
refine_assigned; Python reference: indexing.calc_drlv2 / indexing.refine.
Oracle: numpy re-expression of the definition (round to nearest, normal equations solved with
numpy.linalg.solve, H and its determinant in exact integer arithmetic); exactly singular H => the
input matrix must come back unchanged.
"""
from __future__ import annotations
import itertools, os, math
import numpy as np
from vt.runner import Shard
from vt import oracles as O

LEVEL = "exploration"
RULE = ("cases = (UBI, tolerance, multiset of peaks from the 24-letter alphabet[, label assignment]) enumerated completely; "
        "non-trivial = the selection holds >= 3 non-coplanar peaks and rejects >= 1")
ASSUMPTIONS = ["peaks whose squared error is within 1e-9 of tol^2 make the case borderline (not decided)",
               "selections whose exact integer det(H) is zero but whose entries exceed 2^53 in the cubic terms, or whose H has "
               "condition number > 1e8, are borderline", "peak alphabet and UBI table as stated"]

TOLS = (0.01, 0.05, 0.1, 0.25, 0.5)

ALPHA = [((1, 0, 0), (0, 0, 0)), ((0, 1, 0), (0, 0, 0)), ((0, 0, 1), (0, 0, 0)), ((1, 1, 0), (0, 0, 0)),
         ((1, -1, 0), (0, 0, 0)), ((2, 0, 0), (0, 0, 0)), ((1, 1, 1), (0, 0, 0)), ((-1, 2, 1), (0, 0, 0)),
         ((1, 1, 1), (0.004, 0, 0)), ((1, 0, 0), (0, -0.03, 0)), ((0, 1, 0), (0, 0, 0.2)), ((0, 0, 1), (0.5, 0, 0)),
         ((2, 0, 0), (0.03, 0.03, 0.03)), ((-1, 2, 1), (-0.004, 0, -0.03)), ((3, 1, 2), (0, 0, 0)), ((3, 1, 2), (0.2, -0.2, 0)),
         ((1000, 0, 0), (0, 0, 0)), ((999, -1000, 3), (0.004, 0, 0)), ((0, 2, -1), (0, 0, 0)), ((0, 2, -1), (-0.03, 0, 0)),
         ((1, -1, 0), (0, 0, 0.004)), ((5, -3, 4), (0, 0, 0)), ((2, 2, 2), (0, 0, 0)), ((-1, -1, -1), (0, 0, 0)),
         # the zero vector (zero-padded tables) and a spot next to the direct beam: their nearest integer hkl is (0, 0, 0); they are
         # within tolerance like any other peak (they count, their error enters the mean) and add nothing to the normal equations
         ((0, 0, 0), (0, 0, 0)), ((0, 0, 0), (0.004, 0, -0.003))]


def ubis():
    A = np.eye(3) * 4.0
    r = O.rotation_from_axis_angle((1, 2, 3), 0.3)
    T = np.linalg.inv(np.dot(O.rotation_from_axis_angle((2, -1, 1), 33.0), O.cell_to_B([4.1, 5.2, 6.3, 80, 95, 105])))
    # (test matrix, matrix the peaks were generated with)
    # large (protein-size) cells: det(UB) = 1/volume is 1e-6 .. 1e-7, far from singular in relative terms
    L = np.eye(3) * 150.0
    TL = np.linalg.inv(np.dot(O.rotation_from_axis_angle((2, -1, 1), 33.0), O.cell_to_B([95.0, 110.0, 140.0, 80, 95, 105])))
    return [(A, A), (np.dot(A, r.T), A), (A * 1.0005, A), (T, T), (np.dot(T, r.T), T), (np.dot(L, r.T), L), (np.dot(TL, r.T), TL)]


NUBI = 7


def peaks_for(gen_ubi):
    ub = np.linalg.inv(gen_ubi)
    return np.array([np.dot(ub, np.array(h, float) + np.array(d, float)) for h, d in ALPHA])


def plan(tier, seed):
    kmax = 4 if tier == "quick" else 5
    shards = []
    for ui in range(NUBI):
        for first in range(len(ALPHA)):
            shards.append(("multi", ui, first, kmax))
    for ui in range(NUBI):
        shards.append(("assigned", ui, 7 if tier == "quick" else 9))
    shards.append(("long",))
    for ui in range(NUBI):
        shards.append(("getind", ui, 4 if tier == "quick" else 5))
    for ui in range(NUBI):
        shards.append(("reassign", ui, 3 if tier == "quick" else 4))
    for ui in range(NUBI):
        shards.append(("indexer_refine", ui))
    shards.append(("flat",))
    for gi in (3, 12, 22):
        shards.append(("rgpositions", gi))
        shards.append(("rgubis", gi))
    shards.append(("exact",))
    shards.append(("callers",))
    shards.append(("rgrefine",))
    k = seed % len(shards)
    return shards[k:] + shards[:k]


def oracle(ubi, gv, tol, sel=None):
    """returns dict(n, mean, status, ubi_expected) ; status in ok|singular|borderline"""
    if len(gv) == 0:
        return {"n": 0, "mean": 0.0, "status": "singular", "sel": np.zeros(0, bool)}
    h = np.dot(ubi, gv.T)
    ih = np.round(h)
    d = h - ih
    e = (d * d).sum(axis=0)
    if sel is None:
        tol2 = tol * tol
        if (np.abs(e - tol2) < 1e-9).any():
            return {"status": "borderline"}
        sel = e < tol2
    n = int(sel.sum())
    mean = float(e[sel].sum() / n) if n else 0.0
    out = {"n": n, "mean": mean, "sel": sel}
    H = [[0] * 3 for _ in range(3)]
    hs = ih[:, sel].T
    if np.abs(d[:, sel]).max(initial=0) > 0.4999:      # rounding direction ambiguous
        return {"status": "borderline"}
    for v in hs:
        vi = [int(x) for x in v]
        for i in range(3):
            for j in range(3):
                H[i][j] += vi[i] * vi[j]
    det = (H[0][0] * (H[2][2] * H[1][1] - H[2][1] * H[1][2]) - H[1][0] * (H[2][2] * H[0][1] - H[2][1] * H[0][2])
           + H[2][0] * (H[1][2] * H[0][1] - H[1][1] * H[0][2]))
    big = max(abs(x) for row in H for x in row)
    if det == 0:
        if big ** 3 * 6 > 2 ** 53:
            out["status"] = "borderline"
        else:
            out["status"] = "singular"
        return out
    Hf = np.array(H, float)
    if np.linalg.cond(Hf) > 1e8:
        out["status"] = "borderline"
        return out
    R = np.dot(gv[sel].T, hs)                 # sum g h^T
    UB = np.linalg.solve(Hf.T, R.T).T         # R H^-1
    if abs(np.linalg.det(UB)) < 1e-9 * np.abs(UB).max() ** 3 or np.linalg.cond(UB) > 1e8:
        out["status"] = "borderline"
        return out
    out["ubi"] = np.linalg.inv(UB)
    # forward error bound of solving the normal equations in double precision (the kernel uses explicit cofactor inverses)
    out["atol"] = max(1e-9, 1e-13 * np.linalg.cond(Hf) * np.linalg.cond(UB)) * np.abs(out["ubi"]).max()
    out["status"] = "ok"
    out["noncoplanar"] = True
    return out


def check_case(sh, cI, indexing, ubi, gv, tol, case, do_python=True):
    gv_in, ubi_in = gv.copy(), ubi.copy()
    _check_case(sh, cI, indexing, ubi, gv, tol, case, do_python)
    # only score_and_refine may write, and only into the matrix it is given (it always gets a copy here)
    if not (np.array_equal(gv, gv_in) and np.array_equal(ubi, ubi_in)):
        sh.violation("arguments-modified-by-a-scoring-call", case, {"gv_changed": not np.array_equal(gv, gv_in), "ubi_changed": not np.array_equal(ubi, ubi_in)})
        gv[...] = gv_in
        ubi[...] = ubi_in


def _check_case(sh, cI, indexing, ubi, gv, tol, case, do_python=True):
    o = oracle(ubi, gv, tol)
    if o["status"] == "borderline" and "n" not in o:
        sh.borderline += 1
        return
    # --- score
    n = cI.score(ubi, gv, tol)
    if n != o["n"]:
        sh.violation("score:count", case, {"got": int(n), "expected": o["n"]})
        return
    # python reference counts the same peaks
    drl = indexing.calc_drlv2(ubi, gv)
    if int((drl < tol * tol).sum()) != o["n"]:
        sh.violation("indexing.calc_drlv2:count", case, {"got": int((drl < tol * tol).sum()), "expected": o["n"]})
        return
    # --- score_and_refine
    u = ubi.copy()
    n2, mean = cI.score_and_refine(u, gv, tol)
    if n2 != o["n"] or abs(mean - o["mean"]) > 1e-12 + 1e-9 * abs(o["mean"]):
        sh.violation("score_and_refine:count-or-error", case, {"n": int(n2), "mean": float(mean), "expected": [o["n"], o["mean"]]})
        return
    if o["status"] == "borderline":
        sh.borderline += 1
        return
    want = o["ubi"] if o["status"] == "ok" else ubi
    if not np.allclose(u, want, rtol=1e-7, atol=o.get("atol", 0.0)):
        sh.violation("score_and_refine:matrix" + (":singular-case-not-left-unchanged" if o["status"] == "singular" else ""), case,
                     {"got": u, "expected": want, "status": o["status"]})
        return
    # --- python reference refine (raises by design when nothing is selected)
    if do_python and o["n"] > 0:
        try:
            up = indexing.refine(ubi.copy(), gv, tol)
        except Exception as e:
            sh.violation("indexing.refine:raises", case, {"error": repr(e)})
            return
        # refine() re-scores and returns the input if nothing is indexed afterwards
        after = oracle(want, gv, tol)
        if after.get("status") != "borderline" and after.get("n", 0) > 0:
            if not np.allclose(up, want, rtol=1e-7, atol=o.get("atol", 0.0)):
                sh.violation("indexing.refine:matrix", case, {"got": up, "expected": want})
                return
    sh.evaluations += 1
    if o["status"] == "ok" and o["n"] < len(gv):
        sh.nontrivial += 1
    sh.outcomes.add((o["status"], min(o["n"], 5)))


def _run_multi(desc):
    _, ui, first, kmax = desc
    from ImageD11 import cImageD11 as cI, indexing
    indexing.loglevel = 4
    sh = Shard()
    ubi, gen = ubis()[ui]
    ubi = np.ascontiguousarray(ubi)
    P = peaks_for(gen)
    nA = len(ALPHA)
    # multisets whose smallest element is `first` (plus the empty one in shard first == 0)
    combos = []
    if first == 0:
        combos.append(())
    for k in range(1, kmax + 1):
        for rest in itertools.combinations_with_replacement(range(first, nA), k - 1):
            combos.append((first,) + rest)
    for combo in combos:
        gv = np.ascontiguousarray(P[list(combo)].reshape(len(combo), 3))
        for tol in TOLS:
            case = {"kind": "multi", "ubi": ui, "peaks": list(combo), "tol": tol}
            if len(combo) == 0:
                try:
                    n = cI.score(ubi, gv, tol)
                    u = ubi.copy()
                    n2, m = cI.score_and_refine(u, gv, tol)
                    if n != 0 or n2 != 0 or m != 0 or not np.array_equal(u, ubi):
                        sh.violation("empty-list", case, {"score": int(n), "n": int(n2), "mean": float(m)})
                    sh.evaluations += 1
                except Exception as e:     # the wrapper may refuse a zero-length array: then the call is not well formed
                    sh.count("empty_list_rejected_by_wrapper")
                continue
            check_case(sh, cI, indexing, ubi, gv, tol, case, do_python=(len(combo) <= 3))
    sh.sample(case, limit=1)
    return sh


def _run_assigned(desc):
    _, ui, k = desc
    from ImageD11 import cImageD11 as cI, indexing
    sh = Shard()
    ubi, gen = ubis()[ui]
    ubi = np.ascontiguousarray(ubi)
    P = peaks_for(gen)
    idx = [0, 1, 2, 6, 8, 12, 14, 16, 19, 21, 22][:k]
    gv = np.ascontiguousarray(P[idx])
    for bits in range(1 << k):
        labels = np.array([3 if (bits >> q) & 1 else (-1 if q % 2 else 5) for q in range(k)], np.int32)
        sel = labels == 3
        case = {"kind": "assigned", "ubi": ui, "peaks": idx, "labels": labels.tolist()}
        o = oracle(ubi, gv, 0.0, sel=sel)
        if o["status"] == "borderline" and "n" not in o:
            sh.borderline += 1
            continue
        u = ubi.copy()
        npk, mean = cI.refine_assigned(u, gv, labels, 3)
        if npk != o["n"] or abs(mean - o["mean"]) > 1e-12 + 1e-9 * abs(o["mean"]):
            sh.violation("refine_assigned:count-or-error", case, {"n": int(npk), "mean": float(mean), "expected": [o["n"], o["mean"]]})
            continue
        if o["status"] == "borderline":
            sh.borderline += 1
            continue
        want = o["ubi"] if o["status"] == "ok" else ubi
        if not np.allclose(u, want, rtol=1e-7, atol=o.get("atol", 0.0)):
            sh.violation("refine_assigned:matrix" + (":singular-case-not-left-unchanged" if o["status"] == "singular" else ""), case,
                         {"got": u, "expected": want, "status": o["status"]})
            continue
        sh.evaluations += 1
        if o["status"] == "ok" and o["n"] < k:
            sh.nontrivial += 1
        sh.outcomes.add(("assigned", o["status"]))
    sh.sample(case, limit=1)
    return sh


def _run_long(desc):
    from ImageD11 import cImageD11 as cI, indexing
    indexing.loglevel = 4
    sh = Shard()
    for ui, (ubi, gen) in enumerate(ubis()):
        ubi = np.ascontiguousarray(ubi)
        P = peaks_for(gen)
        for n in (99999, 100000, 4097, 8192, 12289):
            idx = (np.arange(n) * 5 + ui) % len(ALPHA)
            gv = np.ascontiguousarray(P[idx])
            for tol in (0.05, 0.25):
                case = {"kind": "long", "ubi": ui, "n": n, "tol": tol}
                check_case(sh, cI, indexing, ubi, gv, tol, case, do_python=False)
                # score_and_assign on a fresh assignment returns the number of peaks within the tolerance, for any thread count
                o0 = oracle(ubi, gv, tol)
                if "n" in o0:
                    for nt in (1, 2, 4, 8):
                        cI.cimaged11_omp_set_num_threads(nt)
                        na = cI.score_and_assign(ubi, gv, tol, np.full(n, 2.0), np.full(n, -1, np.int32), 1)
                        ns_ = cI.score(ubi, gv, tol)
                        if na != o0["n"] or ns_ != o0["n"]:
                            sh.violation("score_and_assign:returned-count", dict(case, threads=nt), {"score_and_assign": int(na), "score": int(ns_), "expected": o0["n"]})
                            break
                    cI.cimaged11_omp_set_num_threads(1)
                labels = ((np.arange(n) % 3) == 0).astype(np.int32) * 9
                o = oracle(ubi, gv, 0.0, sel=labels == 9)
                u = ubi.copy()
                npk, mean = cI.refine_assigned(u, gv, labels, 9)
                if "n" in o and (npk != o["n"] or abs(mean - o["mean"]) > 1e-9 * (1 + abs(o["mean"]))):
                    sh.violation("refine_assigned:count-or-error", case, {"n": int(npk), "mean": float(mean)})
                elif o.get("status") == "ok" and not np.allclose(u, o["ubi"], rtol=1e-6, atol=10 * o["atol"]):
                    sh.violation("refine_assigned:matrix", case, {"got": u, "expected": o["ubi"]})
    sh.sample(case, limit=1)
    return sh


def _run_getind(desc):
    """indexer.getind / indexer.score on ONE indexer object, for every sequence (length <= 4, thorough 5) over 4 trial orientations, with
    and without the caller-supplied scratch arrays scorethem() passes: each answer is the set of peaks within hkl_tol of an integer hkl
    for THAT orientation, whatever was asked before"""
    _, ui, depth = desc
    from ImageD11 import indexing
    indexing.loglevel = 4
    sh = Shard()
    ubi, gen = ubis()[ui]
    P = peaks_for(gen)
    gv = np.ascontiguousarray(np.concatenate([P, -P[:12]]))
    twin = np.dot(ubi, O.rotation_from_axis_angle((1, 1, 1), 60.0).T)
    trials = [np.ascontiguousarray(ubi), np.ascontiguousarray(gen), np.ascontiguousarray(twin), np.ascontiguousarray(np.dot(ubi, O.rotation_from_axis_angle((1, 0, 0), 0.1).T))]
    tol = 0.05
    want = []
    for t in trials:
        o = oracle(t, gv, tol)
        if "sel" not in o:
            sh.borderline += 1
            return sh
        want.append(o["sel"])
    ind = indexing.indexer(unitcell=None, gv=gv.copy())
    ind.hkl_tol = tol
    ind.gv = gv
    ind.gvflat = gv
    for scratch in (False, True):
        d = np.empty(len(gv), float); l = np.empty(len(gv), np.int32)
        for L in range(1, depth + 1):
            for seq in itertools.product(range(4), repeat=L):
                # one object, one pair of scratch arrays, the whole sequence; only the last answer is new information
                for k in seq[:-1]:
                    ind.getind(trials[k], drlv2tmp=d, labelstmp=l) if scratch else ind.getind(trials[k])
                k = seq[-1]
                got = ind.getind(trials[k], drlv2tmp=d, labelstmp=l) if scratch else ind.getind(trials[k])
                case = {"kind": "getind", "ubi": ui, "sequence": list(seq), "scratch_arrays_passed": scratch}
                if not np.array_equal(got, want[k]):
                    sh.violation("indexer.getind:answer-depends-on-earlier-calls" if L > 1 else "indexer.getind:not-the-peaks-within-tolerance", case,
                                 {"n_marked": int(got.sum()), "n_within_tolerance": int(want[k].sum())})
                    return sh
                if ind.score(trials[k]) != int(want[k].sum()):
                    sh.violation("indexer.score:count", case, {"got": int(ind.score(trials[k])), "expected": int(want[k].sum())})
                    return sh
                if L == 1:
                    # the tolerance given explicitly (other than the object's own)
                    for t2 in (0.01, 0.1, 0.3):
                        o2 = oracle(trials[k], gv, t2)
                        if "sel" in o2 and ind.score(trials[k], t2) != o2["n"]:
                            sh.violation("indexer.score[explicit tolerance]:count", dict(case, tol=t2), {"got": int(ind.score(trials[k], t2)), "expected": o2["n"]})
                            return sh
                sh.evaluations += 1
                if L > 1 and len(set(seq)) > 1:
                    sh.nontrivial += 1
    # the competing assignment over these four matrices (they share most of their peaks), in two list orders: the count kept per matrix
    # is the number of peaks carrying its label, and it is what the labelled kernel refines over
    from ImageD11 import cImageD11 as cI
    for order in ((0, 1, 2, 3), (3, 2, 1, 0), (2, 0, 3, 1)):
        ind = indexing.indexer(unitcell=None, gv=gv.copy(), hkl_tol=tol)
        ind.ubis = [trials[k].copy() for k in order]
        ind.fight_over_peaks()
        case = {"kind": "getind", "ubi": ui, "sequence": list(order), "scratch_arrays_passed": "fight_over_peaks"}
        # a label that no peak carries (a duplicate that lost every peak, a grain number beyond the list): count 0, mean error 0, matrix untouched
        u_none = ind.ubis[0].copy()
        n0, m0 = cI.refine_assigned(u_none, ind.gv, ind.ga, len(order) + 3)
        if n0 != 0 or not (m0 == 0.0) or not np.array_equal(u_none, ind.ubis[0]):
            sh.violation("refine_assigned[label nobody carries]:count-mean-or-matrix", case, {"n": int(n0), "mean": float(m0)})
            return sh
        for pos in range(len(order)):
            carrying = int((np.asarray(ind.ga) == pos).sum())
            npk, _ = cI.refine_assigned(ind.ubis[pos].copy(), ind.gv, ind.ga, pos)
            if int(ind.gas[pos]) != carrying or int(npk) != carrying:
                sh.violation("fight_over_peaks:count-kept-for-a-matrix-is-not-the-number-of-peaks-carrying-its-label", dict(case, position=pos),
                             {"gas": int(ind.gas[pos]), "carrying_the_label": carrying, "refine_assigned_count": int(npk)})
                return sh
        sh.evaluations += 1
        sh.nontrivial += 1
    sh.outcomes.add(("getind", tuple(int(w.sum()) for w in want)))
    sh.sample(case, limit=1)
    return sh


def _run_indexer_refine(desc):
    """indexer.refine (the python reference behind the indexer's reports): least squares over exactly the peaks that are within hkl_tol AND
    assigned to a ring (ring assignment is the label here) - peaks within tolerance that sit on no ring (a second phase, a forbidden
    position) do not enter; the count reported afterwards is that of the refined matrix"""
    _, ui = desc
    from ImageD11 import indexing
    indexing.loglevel = 4
    sh = Shard()
    ubi, gen = ubis()[ui]
    P = peaks_for(gen)
    gv = np.ascontiguousarray(np.concatenate([P, -P[:12], 1.37 * P[5:15]]))
    n = len(gv)
    tol = 0.05
    patterns = {"all-on-rings": np.zeros(n, int), "every-third-off": np.where(np.arange(n) % 3 == 1, -1, 2),
                "first-ten-off": np.where(np.arange(n) < 10, -1, 1), "only-eight-on": np.where((np.arange(n) * 5) % n < 8, 0, -1)}
    for pname, ra in patterns.items():
        for t in (np.ascontiguousarray(ubi), np.ascontiguousarray(np.dot(ubi, O.rotation_from_axis_angle((1, 0, 0), 0.1).T))):
            o0 = oracle(t, gv, tol)
            if "sel" not in o0:
                sh.borderline += 1
                continue
            sel = o0["sel"] & (ra > -1)
            o = oracle(t, gv, 0.0, sel=sel)
            case = {"kind": "indexer_refine", "ubi": ui, "rings": pname}
            if o.get("status") != "ok" or sel.sum() == 0:
                sh.borderline += 1
                continue
            ind = indexing.indexer(unitcell=None, gv=gv.copy(), hkl_tol=tol)
            ind.ra = ra.copy()
            got = ind.refine(t.copy())
            if not np.allclose(got, o["ubi"], rtol=1e-7, atol=o.get("atol", 0.0)):
                sh.violation("indexer.refine:not-the-least-squares-fit-over-the-indexed-peaks-on-rings", case,
                             {"got": got, "expected": o["ubi"], "peaks_in_fit": int(sel.sum()), "within_tol_off_rings": int((o0["sel"] & (ra < 0)).sum())})
                continue
            after = oracle(np.asarray(got, float), gv, tol)
            if "sel" in after and ind.scorelastrefined != int((after["sel"] & (ra > -1)).sum()):
                sh.violation("indexer.refine:scorelastrefined", case, {"got": int(ind.scorelastrefined), "expected": int((after["sel"] & (ra > -1)).sum())})
                continue
            sh.evaluations += 1
            if (o0["sel"] & (ra < 0)).any():
                sh.nontrivial += 1
            sh.outcomes.add(("indexer_refine", pname))
    sh.sample(case, limit=1)
    return sh


def _run_flat(desc):
    """a flat layer of g-vectors (all with gz exactly 0: one detector row, a 2-D simulation) scored with a TILTED matrix at a loose
    tolerance: the rounded hkl are not coplanar (the sum of h.h^T is regular) but the sum of g.h^T has a zero row, so UB = R.H^-1 cannot be
    inverted - the normal equations give no matrix, and the input must come back unchanged, with the right count and mean error"""
    from ImageD11 import cImageD11 as cI, indexing
    indexing.loglevel = 4
    sh = Shard()
    a = 4.0
    gv = np.ascontiguousarray(np.array([(h / a, k / a, 0.0) for h in range(-2, 3) for k in range(0, 7)], float))
    for axis, ang in (((1, 0, 0), 6.0), ((1, 0, 0), -7.0), ((0, 1, 0), 6.5), ((1, 1, 0), 8.0)):
        ubi = np.ascontiguousarray(np.dot(np.eye(3) * a, O.rotation_from_axis_angle(axis, ang).T))
        for tol in (0.45, 0.5):
            h = np.dot(ubi, gv.T)
            ih = np.round(h)
            e = ((h - ih) ** 2).sum(axis=0)
            if (np.abs(e - tol * tol) < 1e-9).any() or np.abs(h - ih).max() > 0.4999:
                sh.borderline += 1
                continue
            sel = e < tol * tol
            H = np.dot(ih[:, sel], ih[:, sel].T)
            case = {"kind": "flat", "axis": list(axis), "angle": ang, "tol": tol}
            if abs(np.linalg.det(H)) < 0.5 or int(sel.sum()) < 4:
                sh.count("flat_cases_with_coplanar_hkl")
                continue
            u = ubi.copy()
            n, mean = cI.score_and_refine(u, gv, tol)
            if n != int(sel.sum()) or abs(mean - e[sel].mean()) > 1e-12:
                sh.violation("score_and_refine[flat layer]:count-or-error", case, {"n": int(n), "expected": int(sel.sum())})
            elif not np.array_equal(u, ubi):
                sh.violation("score_and_refine[flat layer]:matrix-changed-although-UB-cannot-be-inverted", case, {"got": u, "input": ubi})
            up = indexing.refine(ubi.copy(), gv, tol)
            if not np.array_equal(np.asarray(up), ubi):
                sh.violation("indexing.refine[flat layer]:matrix-changed-although-UB-cannot-be-inverted", case, {"got": up})
            sh.evaluations += 1
            sh.nontrivial += 1
            sh.outcomes.add(("flat", int(sel.sum())))
    sh.sample(case, limit=1)
    return sh


def _run_reassign(desc):
    """assign / the matrix changes / assign again with the SAME label on ONE labels array (an iterative fit): for every sequence
    (length <= 3, thorough 4) over 5 trial matrices, after every call the peaks carrying the label are exactly the peaks within the
    tolerance of the matrix just given, the returned count is their number, peaks of other labels outside the tolerance keep theirs,
    and refine_assigned over that label is the least-squares fit over exactly those peaks"""
    _, ui, depth = desc
    from ImageD11 import cImageD11 as cI
    sh = Shard()
    ubi, gen = ubis()[ui]
    P = peaks_for(gen)
    gv = np.ascontiguousarray(np.concatenate([P, -P[:12], 1.37 * P[5:15]]))
    n = len(gv)
    trials = [np.ascontiguousarray(t) for t in (
        ubi, gen, np.dot(ubi, O.rotation_from_axis_angle((1, 1, 1), 60.0).T), np.dot(ubi, O.rotation_from_axis_angle((1, 0, 0), 0.1).T),
        1.015 * np.dot(gen, O.rotation_from_axis_angle((0, 0, 1), 0.1).T))]
    tol = 0.05
    want = []
    for t in trials:
        o = oracle(t, gv, tol)
        if "sel" not in o:
            sh.borderline += 1
            return sh
        want.append(o)
    LBL = 3
    for L in range(1, depth + 1):
        for seq in itertools.product(range(len(trials)), repeat=L):
            labels = np.array([7 if q % 5 == 0 else -1 for q in range(n)], np.int32)     # some peaks belong to another grain already
            case = {"kind": "reassign", "ubi": ui, "sequence": list(seq)}
            bad = None
            for step, k in enumerate(seq):
                before = labels.copy()
                drlv2 = np.ones(n, float)               # fresh errors for the new matrix, the labels are kept
                got_n = cI.score_and_assign(trials[k], gv, tol, drlv2, labels, LBL)
                sel = want[k]["sel"]
                expect = np.where(sel, LBL, np.where(before == LBL, -1, before))
                if got_n != want[k]["n"]:
                    bad = ("score_and_assign:returned-count", {"got": int(got_n), "expected": want[k]["n"], "step": step})
                elif not np.array_equal(labels, expect):
                    stale = int(((labels == LBL) & ~sel).sum())
                    bad = ("score_and_assign:labels-after-reassignment", {"peaks_carrying_label_but_outside_tolerance": stale,
                                                                        "wrong_labels": int((labels != expect).sum()), "step": step})
                if bad:
                    break
            if bad is None and want[seq[-1]]["status"] in ("ok", "singular"):
                o = want[seq[-1]]
                u = trials[seq[-1]].copy()
                npk, mean = cI.refine_assigned(u, gv, labels, LBL)
                wantm = o["ubi"] if o["status"] == "ok" else trials[seq[-1]]
                if npk != o["n"] or abs(mean - o["mean"]) > 1e-12 + 1e-9 * abs(o["mean"]):
                    bad = ("refine_assigned-after-reassignment:count-or-error", {"n": int(npk), "mean": float(mean), "expected": [o["n"], o["mean"]]})
                elif not np.allclose(u, wantm, rtol=1e-7, atol=o.get("atol", 0.0)):
                    bad = ("refine_assigned-after-reassignment:matrix", {"got": u, "expected": wantm})
            if bad:
                sh.violation(bad[0], case, bad[1])
                return sh
            sh.evaluations += 1
            if L > 1 and len(set(seq)) > 1:
                sh.nontrivial += 1
    sh.outcomes.add(("reassign", tuple(o["n"] for o in want)))
    sh.sample(case, limit=1)
    return sh


def _run_callers(desc):
    """the scoring / refinement kernels are declared threadsafe (the GIL is released): pairs of different calls from the C20 call tables as
    TWO CONCURRENT CALLERS on the schedule-exploring runtime, every interleaving at shared words within 2 preemptions; each call must
    leave in its arrays what it leaves alone"""
    from vt.vrt import VRT, callers_interfere
    from vt import sani
    sh = Shard()
    V = VRT()
    # calls that really refine: 8 .. 14 non-coplanar peaks of this check's alphabet, different test matrices and peak lists per caller
    U = ubis()
    own = []
    for (ua, ga), (ub_, gb), na, nb in ((U[1], U[1], 9, 12), (U[2], U[4], 14, 8), (U[4], U[5], 10, 10)):
        specs = []
        for (tm_, gen), n_, off in (((ua, ga), na, 0), ((ub_, gb), nb, 5)):
            idx = [(3 * q + off) % len(ALPHA) for q in range(n_)]
            gv = np.ascontiguousarray(peaks_for(gen)[idx])
            lab = ((np.arange(n_) % 3 != 0) * 3).astype(np.int32)
            specs.append((sani.Call("score_and_refine", [sani.A(np.ascontiguousarray(tm_), "io"), sani.A(gv), sani.D(0.25), sani.A(np.zeros(1, np.int32), "out"),
                                                         sani.A(np.zeros(1), "out"), sani.I(n_)], ret="v"),
                          sani.Call("refine_assigned", [sani.A(np.ascontiguousarray(tm_), "io"), sani.A(gv), sani.A(lab), sani.I(3), sani.A(np.zeros(1, np.int32), "out"),
                                                        sani.A(np.zeros(1), "out"), sani.I(n_)], ret="v")))
        own += [(specs[0][0], specs[1][0]), (specs[0][1], specs[1][1]), (specs[0][0], specs[1][1])]
    for a, b in own + sani.threadsafe_pairs(("scoring_kernels",), ("score_and_refine", "refine_assigned"), per_kernel=3):
        bad, r = callers_interfere(V, a, b)
        if r is None:
            continue
        case = {"kind": "callers", "calls": [a.describe(), b.describe()]}
        for sched in (bad or [])[:1]:
            sh.violation("concurrent-callers:%s-calls-interfere" % a.kernel, dict(case, schedule=sched), {"conflict_words": r["filter_size"]})
        sh.states += r["nodes"]
        sh.transitions += r["nodes"] - 1 + r["executions"]
        sh.count("caller_pair_executions", r["total_executions"])
        sh.evaluations += 1
        sh.nontrivial += 1
        sh.outcomes.add(("callers", a.kernel))
    sh.sample(case, limit=1)
    return sh


def _run_exact(desc):
    """peaks whose squared error is EXACTLY tol^2 in floating point (power-of-two UBI, dyadic g-vectors, dyadic tolerances, so that no
    operation rounds): here "within the tolerance" is decidable, and every kernel must count like the Python reference
    (drlv2 < tol*tol)"""
    from ImageD11 import cImageD11 as cI, indexing
    indexing.loglevel = 4
    sh = Shard()
    for scale in (4.0, 8.0, 2.0):
        ubi = np.eye(3) * scale
        # errors on a dyadic grid: components in {0, 1/16, ..., 8/16}
        comps = np.arange(0, 9) / 16.0
        hk = [(1, 0, 0), (0, 2, -1), (3, 1, 2), (1000, 0, -7), (-5, 4, 0)]
        rows = []
        for h in hk:
            for d in itertools.product(comps, repeat=3):
                rows.append((np.array(h, float) + np.array(d)) / scale)
        gv = np.ascontiguousarray(rows)
        e_ref = indexing.calc_drlv2(ubi, gv)
        for tol in (0.25, 0.3125, 0.5, 0.125, 0.0625, 0.375):
            want = int((e_ref < tol * tol).sum())
            n_eq = int((e_ref == tol * tol).sum())
            case = {"kind": "exact", "scale": scale, "tol": tol, "peaks_exactly_on_the_tolerance": n_eq}
            got = {"score": int(cI.score(ubi, gv, tol)), "score_and_refine": int(cI.score_and_refine(ubi.copy(), gv, tol)[0]),
                   "score_and_assign": int(cI.score_and_assign(ubi, gv, tol, np.full(len(gv), 2.0), np.full(len(gv), -1, np.int32), 1))}
            ind = indexing.indexer(unitcell=None, gv=gv.copy())
            ind.hkl_tol = tol
            got["indexer.score"] = int(ind.score(ubi, tol))
            got["indexer.getind"] = int(ind.getind(ubi, tol).sum())
            for nm, v in got.items():
                if v != want:
                    sh.violation("%s:peak-exactly-on-the-tolerance-counted-differently-from-the-python-reference" % nm, dict(case, kernel=nm),
                                 {"got": v, "python_reference": want})
            sh.evaluations += 1
            if n_eq:
                sh.nontrivial += 1
    sh.outcomes.add("exact")
    sh.sample(case, limit=1)
    return sh


def _run_rgpositions(desc):
    """refinegrains.refinepositions (translation by simplex, then the matrix by score_and_refine over the grain's own peaks): afterwards
    EVERY grain's matrix - not only the first one's - is the least-squares solution over all the peaks carrying its label, for the
    g-vectors at its refined position"""
    _, gi = desc
    import io, contextlib, shutil
    from ImageD11 import refinegrains, transform as tr
    from vt.props import c09
    sh = Shard()
    pars = c09.geometries("quick")[gi]
    truth = c09.true_grains(3, 0)
    # every grain is slightly split: three quarters of its reflections come from the main part, a quarter from a sub-grain with the same
    # orientation 250 um away; the grain file puts the grain in between.  Once the position has moved to the main part the sub-grain's
    # peaks are further from the lattice than the user's tolerance - they still carry the label and belong in the fit
    shift = np.array([100.0, -75.0, 50.0])
    pa = c09.simulate(tr, pars, [(u, t + shift) for u, t in truth])
    pb = c09.simulate(tr, pars, [(u, t - shift) for u, t in truth])
    if len(pa) != len(pb) or not np.array_equal(pa[:, 3:7], pb[:, 3:7]):
        pa = pa[np.lexsort((pa[:, 6], pa[:, 5], pa[:, 4], pa[:, 3]))]
        pb = pb[np.lexsort((pb[:, 6], pb[:, 5], pb[:, 4], pb[:, 3]))]
    nmin = min(len(pa), len(pb))
    peaks = np.array([pb[k] if k % 4 == 3 else pa[k] for k in range(nmin)])
    start = [(u.copy(), t.copy()) for u, t in truth]
    wd = os.path.join(c09.WORK, "c06_rp_%d" % os.getpid())
    shutil.rmtree(wd, ignore_errors=True)
    os.makedirs(wd)
    try:
        fn = os.path.join(wd, "p.flt")
        with open(fn, "w") as fh:
            fh.write("#  sc  fc  omega  Number_of_pixels  avg_intensity  sum_intensity\n")
            for k in range(len(peaks)):
                fh.write("%.4f  %.4f  %.4f  %.0f  %.4f  %.4f\n" % (peaks[k, 0], peaks[k, 1], peaks[k, 2], 10, 100.0, 1000.0))
        with contextlib.redirect_stdout(io.StringIO()):
            o = refinegrains.refinegrains(tolerance=0.02, OmFloat=False)
            o.parameterobj.set_parameters(dict(pars))
            o.loadfiltered(fn)
            for gidx, (ubi, t) in enumerate(start):
                o.grainnames.append(gidx)
                o.ubisread[gidx] = ubi.copy()
                o.translationsread[gidx] = t.copy()
            o.generate_grains()
            o.refinepositions()
        col = o.scandata[fn]
        lab = np.asarray(col.labels).astype(int)
        det = {k: pars[k] for k in ("distance", "y_center", "z_center", "y_size", "z_size", "tilt_x", "tilt_y", "tilt_z", "o11", "o12", "o21", "o22")}
        xyz = tr.compute_xyz_lab(np.array([col.sc, col.fc]), **det)
        om = np.asarray(col.omega) * pars["omegasign"]
        for gidx in range(len(start)):
            g = o.grains[(gidx, fn)]
            t = np.asarray(g.translation, float)
            tth, eta = tr.compute_tth_eta_from_xyz(xyz, om, t_x=t[0], t_y=t[1], t_z=t[2], wedge=pars["wedge"], chi=pars["chi"])
            gv = tr.compute_g_vectors(tth, eta, om, pars["wavelength"], wedge=pars["wedge"], chi=pars["chi"]).T
            sel = lab == gidx
            case = {"kind": "rgpositions", "geometry": gi, "grain": gidx}
            if sel.sum() < 10:
                sh.violation("refinepositions:grain-lost-its-peaks", case, {"peaks": int(sel.sum())})
                continue
            fit = oracle(np.asarray(g.ubi, float), np.ascontiguousarray(gv), 0.0, sel=sel)
            if fit.get("status") != "ok":
                sh.borderline += 1
                continue
            if not np.allclose(np.asarray(g.ubi, float), fit["ubi"], rtol=1e-6, atol=max(fit["atol"], 1e-9)):
                sh.violation("refinepositions:matrix-is-not-the-least-squares-fit-over-the-peaks-carrying-the-grain's-label", case,
                             {"max_diff": float(np.abs(np.asarray(g.ubi, float) - fit["ubi"]).max()), "labelled_peaks": int(sel.sum())})
            sh.evaluations += 1
            sh.nontrivial += 1
        sh.outcomes.add(("rgpositions", gi))
        sh.sample(case, limit=1)
    finally:
        shutil.rmtree(wd, ignore_errors=True)
    return sh


def _run_rgubis(desc):
    """refinegrains.refineubis (the matrix of every grain refitted over its own peaks, as the fitting loops call it between position
    steps): three grains at three different positions, orientations 0.05 degrees off, assignlabels, then refineubis (twice: the second
    pass starts from the state the first one left): every grain's matrix is the least-squares solution over the peaks carrying its
    label for the g-vectors at ITS position, and the counts left on the grains are those of the labels"""
    _, gi = desc
    import io, contextlib, shutil
    from ImageD11 import refinegrains, transform as tr
    from vt.props import c09
    sh = Shard()
    pars = c09.geometries("quick")[gi]
    truth = c09.true_grains(3, 1)
    peaks = c09.simulate(tr, pars, truth)
    start = [(np.dot(u, O.rotation_from_axis_angle((1, -2, 1 + k), 0.05).T), t.copy()) for k, (u, t) in enumerate(truth)]
    wd = os.path.join(c09.WORK, "c06_ru_%d" % os.getpid())
    shutil.rmtree(wd, ignore_errors=True)
    os.makedirs(wd)
    try:
        fn = os.path.join(wd, "p.flt")
        with open(fn, "w") as fh:
            fh.write("#  sc  fc  omega  Number_of_pixels  avg_intensity  sum_intensity\n")
            for k in range(len(peaks)):
                fh.write("%.4f  %.4f  %.4f  %.0f  %.4f  %.4f\n" % (peaks[k, 0], peaks[k, 1], peaks[k, 2], 10, 100.0, 1000.0))
        with contextlib.redirect_stdout(io.StringIO()):
            o = refinegrains.refinegrains(tolerance=0.05, OmFloat=False)
            o.parameterobj.set_parameters(dict(pars))
            o.loadfiltered(fn)
            for gidx, (ubi, t) in enumerate(start):
                o.grainnames.append(gidx)
                o.ubisread[gidx] = ubi.copy()
                o.translationsread[gidx] = t.copy()
            o.generate_grains()
            o.assignlabels()
        col = o.scandata[fn]
        lab = np.asarray(col.labels).astype(int).copy()
        det = {k: pars[k] for k in ("distance", "y_center", "z_center", "y_size", "z_size", "tilt_x", "tilt_y", "tilt_z", "o11", "o12", "o21", "o22")}
        xyz = tr.compute_xyz_lab(np.array([col.sc, col.fc]), **det)
        om = np.asarray(col.omega) * pars["omegasign"]
        for rnd in (1, 2):
            with contextlib.redirect_stdout(io.StringIO()):
                o.refineubis(quiet=True)
            for gidx in range(len(start)):
                g = o.grains[(gidx, fn)]
                t = np.asarray(g.translation, float)
                tth, eta = tr.compute_tth_eta_from_xyz(xyz, om, t_x=t[0], t_y=t[1], t_z=t[2], wedge=pars["wedge"], chi=pars["chi"])
                gv = tr.compute_g_vectors(tth, eta, om, pars["wavelength"], wedge=pars["wedge"], chi=pars["chi"]).T
                sel = lab == gidx
                case = {"kind": "rgubis", "geometry": gi, "grain": gidx, "refineubis_calls": rnd}
                if sel.sum() < 10:
                    sh.violation("refineubis:grain-has-no-peaks", case, {"peaks": int(sel.sum())})
                    continue
                fit = oracle(np.asarray(g.ubi, float), np.ascontiguousarray(gv), 0.0, sel=sel)
                if fit.get("status") != "ok":
                    sh.borderline += 1
                    continue
                if not np.allclose(np.asarray(g.ubi, float), fit["ubi"], rtol=1e-7, atol=max(fit["atol"], 1e-10)):
                    sh.violation("refineubis:matrix-is-not-the-least-squares-fit-over-the-grain's-peaks-at-the-grain's-position", case,
                                 {"max_diff": float(np.abs(np.asarray(g.ubi, float) - fit["ubi"]).max()), "labelled_peaks": int(sel.sum())})
                sh.evaluations += 1
                sh.nontrivial += 1
        sh.outcomes.add(("rgubis", gi))
        sh.sample(case, limit=1)
    finally:
        shutil.rmtree(wd, ignore_errors=True)
    return sh


def _run_rgrefine(desc):
    """refinegrains.refine (the method the position refinement calls on every step): it returns the refined matrix and leaves the
    matrix it was given alone, so that calling it again with the same array gives the same answer"""
    from ImageD11 import refinegrains, indexing
    import io, contextlib
    indexing.loglevel = 4
    sh = Shard()
    for ui, (ubi, gen) in enumerate(ubis()):
        P = peaks_for(gen)
        gv = np.ascontiguousarray(np.concatenate([P, -P[:10]]))
        for tol in (0.05, 0.25):
            o = oracle(np.ascontiguousarray(ubi), gv, tol)
            if o.get("status") != "ok":
                sh.borderline += 1
                continue
            with contextlib.redirect_stdout(io.StringIO()):
                rg = refinegrains.refinegrains(tolerance=tol)
            rg.gv = gv
            case = {"kind": "rgrefine", "ubi": ui, "tol": tol}
            for layout in ("C", "F"):
                arr = np.array(ubi, float, order=layout)
                keep = arr.copy()
                r1 = rg.refine(arr)
                n1 = rg.npks
                if not np.array_equal(arr, keep):
                    sh.violation("refinegrains.refine:modifies-the-matrix-it-was-given", dict(case, layout=layout), {"before": keep, "after": arr})
                    break
                r2 = rg.refine(arr)
                if not np.array_equal(r1, r2) or rg.npks != n1:
                    sh.violation("refinegrains.refine:second-call-with-the-same-matrix-differs", dict(case, layout=layout), {"first": r1, "second": r2})
                    break
                # the first of its two passes is the least-squares solution over the peaks within tolerance of the input
                second = oracle(o["ubi"], gv, tol)
                if second.get("status") == "ok" and not np.allclose(r1, o["ubi"], rtol=1e-7, atol=o["atol"]):
                    sh.violation("refinegrains.refine:not-the-least-squares-matrix", dict(case, layout=layout), {"got": r1, "expected": o["ubi"]})
                    break
                sh.evaluations += 1
                sh.nontrivial += 1
    sh.outcomes.add("rgrefine")
    sh.sample(case, limit=1)
    return sh


def run_shard(desc):
    return {"rgubis": _run_rgubis, "rgpositions": _run_rgpositions, "flat": _run_flat, "indexer_refine": _run_indexer_refine, "reassign": _run_reassign, "callers": _run_callers, "exact": _run_exact, "rgrefine": _run_rgrefine, "multi": _run_multi, "assigned": _run_assigned, "long": _run_long, "getind": _run_getind}[desc[0]](desc)


def replay(case):
    from ImageD11 import cImageD11 as cI, indexing
    indexing.loglevel = 4
    sh = Shard()
    if case["kind"] == "multi":
        ubi, gen = ubis()[case["ubi"]]
        gv = np.ascontiguousarray(peaks_for(gen)[case["peaks"]].reshape(len(case["peaks"]), 3))
        check_case(sh, cI, indexing, np.ascontiguousarray(ubi), gv, case["tol"], case)
    elif case["kind"] == "assigned":
        r = _run_assigned(("assigned", case["ubi"], len(case["peaks"])))
        sh.violations = [v for v in r.violations if v["case"]["labels"] == case["labels"]]
    elif case["kind"] == "callers":
        sh.violations = [v for v in _run_callers(("callers",)).violations if v["case"]["calls"] == case["calls"]]
    elif case["kind"] == "exact":
        sh.violations = [v for v in _run_exact(("exact",)).violations if v["case"]["tol"] == case["tol"] and v["case"]["scale"] == case["scale"]]
    elif case["kind"] == "rgrefine":
        sh.violations = [v for v in _run_rgrefine(("rgrefine",)).violations if v["case"]["ubi"] == case["ubi"]]
    elif case["kind"] == "rgubis":
        sh.violations = [v for v in _run_rgubis(("rgubis", case["geometry"])).violations if v["case"]["grain"] == case["grain"]]
    elif case["kind"] == "rgpositions":
        sh.violations = [v for v in _run_rgpositions(("rgpositions", case["geometry"])).violations if v["case"]["grain"] == case["grain"]]
    elif case["kind"] == "flat":
        sh.violations = [v for v in _run_flat(("flat",)).violations if v["case"]["angle"] == case["angle"] and v["case"]["tol"] == case["tol"]]
    elif case["kind"] == "indexer_refine":
        sh.violations = [v for v in _run_indexer_refine(("indexer_refine", case["ubi"])).violations if v["case"]["rings"] == case["rings"]]
    elif case["kind"] == "reassign":
        sh.violations = _run_reassign(("reassign", case["ubi"], len(case["sequence"]))).violations
    elif case["kind"] == "getind":
        sh.violations = _run_getind(("getind", case["ubi"], len(case["sequence"]))).violations
    else:
        sh.violations = _run_long(("long",)).violations
    return (not sh.violations), {"violations": sh.violations[:3]}
