"""C02 - g-vectors obey Bragg/Ewald laws and the diffraction geometry is invertible.

Bounded exhaustive exploration over the grid tth (12 values) x eta (16 values incl. 0, +-90, 180) x
omega (12) x wavelength (3) x (wedge, chi) in {0, +-5, 12}^2 x omegasign, plus g-vectors CONSTRUCTED
inside the blind cone around the rotation axis and with |g| > 2/lambda, plus the detector round trip
on 4096 (thorough: all 16 384) configurations of the C01 tilt/flip/translation grid.  Laws, no reference implementation:
 (i)   |g| lambda = 2 sin(tth/2) for the Python and the C route;
 (ii)  |g| unchanged when omega, wedge, chi, omegasign vary;
 (iii) g(omega + d) = Rz(-d) g(omega);
 (iv)  uncompute_g_vectors then compute_g_vectors returns g for BOTH solutions whenever the oracle's
       own Ewald-sphere test says g can diffract, and flags (zero/NaN angles) when it cannot; a finite
       angle triple that does not map back to g is a violation;
 (v)   compute_xyz_from_tth_eta o compute_tth_eta = id on (tth, eta).
"""
from __future__ import annotations
import itertools, os
import numpy as np
from vt.runner import Shard

LEVEL = "exploration"
RULE = ("cases = (g or (tth, eta, omega), configuration) over the full product of the stated grids; non-trivial = wedge or chi "
        "non-zero, or a constructed g that cannot diffract; diffracting, blind-cone and over-range cases are counted separately")
ASSUMPTIONS = ["g-vectors whose Ewald condition is within 1e-7 (relative) of the blind-cone boundary are borderline",
               "values from the stated grids only"]

TTH = np.array([0.5, 1.3, 2.9, 4.4, 7.7, 10.1, 14.6, 19.0, 23.3, 28.5, 34.2, 40.0])
ETA = np.array([0.0, 11.0, 45.0, 77.7, 90.0, 101.5, 135.0, 170.0, 180.0, -170.0, -135.0, -90.0, -63.3, -45.0, -11.0, -0.5])
OMEGA = np.array([-179.0, -120.5, -90.0, -33.3, 0.0, 7.25, 45.0, 90.0, 133.7, 180.0, 271.0, 359.9])
WVLN = (0.15, 0.3, 0.7)
WC = [(w, c) for w in (0.0, 5.0, -5.0, 12.0) for c in (0.0, 5.0, -5.0, 12.0)]


# the thorough tier: denser grids (36 x 53 x 30 angles, 7 x 7 wedge/chi pairs) and the detector round trip on all four magnitude sets
_Q = (TTH, ETA, OMEGA, WC)
TTH_T = np.concatenate([[0.05, 0.5, 1.3], np.linspace(2.0, 60.0, 30), [75.0, 89.0, 120.0]])
ETA_T = np.unique(np.concatenate([np.arange(-180.0, 180.0, 7.5), ETA, [89.99, -89.99, 179.99]]))
OMEGA_T = np.unique(np.concatenate([OMEGA, np.arange(-170.0, 190.0, 20.0)]))
WC_T = WC + [(w, c) for w in (0.0, 5.0, -5.0, 12.0, 2.0, -12.0, 0.1) for c in (0.0, 5.0, -5.0, 12.0, 2.0, -12.0, 0.1)
             if (w, c) not in WC]


def grids(tier):
    return _Q if tier != "thorough" else (TTH_T, ETA_T, OMEGA_T, WC_T)


def plan(tier, seed):
    nwc = len(grids(tier)[3])
    shards = [("laws", wi, wc, tier) for wi in range(3) for wc in range(nwc)]
    shards += [("invalid", wi, wc, tier) for wi in range(3) for wc in range(nwc)]
    nd = 16 if tier == "quick" else 64
    shards += [("detector", c, nd, tier, mg) for c in range(nd) for mg in ((seed % 4,) if tier == "quick" else (0, 1, 2, 3))]
    # the magnitude set written in metres (tiny pixel area in the chosen unit), and one slice of the C01 schedule exploration of the
    # compiled kernels (a frame's peaks share omega: the run straddles the thread chunks)
    shards += [("detector", c, nd, "thorough" if tier == "thorough" else "quick4", 4) for c in range(0, nd, 4 if tier == "quick" else 1)]
    shards.append(("sched", tier, seed % 4))
    shards.append(("callers", tier, seed % 4))
    shards.append(("rotation_axis", tier))
    k = seed % len(shards)
    return shards[k:] + shards[:k]


def rz(deg):
    t = np.radians(deg)
    return np.array([[np.cos(t), -np.sin(t), 0], [np.sin(t), np.cos(t), 0], [0, 0, 1.0]])


def can_diffract(g, wvln, wedge, chi):
    """Own Ewald-sphere test. g (3,n). Returns margin (>0 can diffract, <0 cannot), relative to |g| |b_perp|."""
    w, c = np.radians(wedge), np.radians(chi)
    W = np.array([[np.cos(w), 0, np.sin(w)], [0, 1, 0], [-np.sin(w), 0, np.cos(w)]])      # as compute_g_from_k applies it
    C = np.array([[1, 0, 0], [0, np.cos(c), np.sin(c)], [0, -np.sin(c), np.cos(c)]])
    b = np.dot(C, np.dot(W, np.array([1.0, 0, 0])))          # lab x axis carried into the omega frame
    gz = g[2]
    gperp = np.sqrt(g[0] ** 2 + g[1] ** 2)
    modg2 = (g * g).sum(axis=0)
    target = -modg2 * wvln / 2.0                              # required x component of k
    centre = b[2] * gz
    halfwidth = gperp * np.sqrt(b[0] ** 2 + b[1] ** 2)
    scale = np.sqrt(modg2) + 1e-300
    return (halfwidth - np.abs(target - centre)) / scale


def _run_laws(desc):
    _, wi, wci, tier = desc
    from ImageD11 import transform as tr
    sh = Shard()
    wvln = WVLN[wi]
    TTH, ETA, OMEGA, WC = grids(tier)
    wedge, chi = WC[wci]
    T, E, Om = np.meshgrid(TTH, ETA, OMEGA, indexing="ij")
    tth, eta, om = T.ravel(), E.ravel(), Om.ravel()
    n = len(tth)
    case = {"kind": "laws", "wavelength": wvln, "wedge": wedge, "chi": chi, "tier": tier}
    g = tr.compute_g_vectors(tth, eta, om, wvln, wedge=wedge, chi=chi)
    modg = np.sqrt((g * g).sum(axis=0))
    bragg = 2 * np.sin(np.radians(tth) / 2) / wvln
    # (i)
    if np.abs(modg - bragg).max() > 1e-13 * bragg.max() + 1e-15:
        i = int(np.argmax(np.abs(modg - bragg)))
        sh.violation("bragg-law:python", dict(case, tth=tth[i], eta=eta[i], omega=om[i]), {"modg": modg[i], "expected": bragg[i]})
    # (ii) |g| independent of omega / wedge / chi
    g0 = tr.compute_g_vectors(tth, eta, om * 0, wvln, wedge=0.0, chi=0.0)
    m0 = np.sqrt((g0 * g0).sum(axis=0))
    if np.abs(modg - m0).max() > 1e-13 * m0.max():
        sh.violation("modg-depends-on-omega-wedge-chi", case, {"max_diff": float(np.abs(modg - m0).max())})
    # (iii) rigid rotation about the axis
    for d in (10.0, -73.0, 180.0):
        gd = tr.compute_g_vectors(tth, eta, om + d, wvln, wedge=wedge, chi=chi)
        want = np.dot(rz(-d), g)
        if np.abs(gd - want).max() > 1e-12 * modg.max():
            sh.violation("omega-does-not-rotate-g-rigidly", dict(case, delta=d), {"max_diff": float(np.abs(gd - want).max())})
    # C route: build xyz on a distant flat detector from (tth, eta) and run compute_geometry / compute_gv
    for osign in (1.0, -1.0):
        dist = 1e5
        # a point at distance `dist` in the direction of the diffracted ray (valid for back-scattering, tth > 90, as well)
        st_, ct_ = np.sin(np.radians(tth)), np.cos(np.radians(tth))
        xyz = np.ascontiguousarray(np.array([dist * ct_, -dist * st_ * np.sin(np.radians(eta)), dist * st_ * np.cos(np.radians(eta))]).T)
        pars = {"y_center": 0., "z_center": 0., "y_size": 1., "z_size": 1., "distance": dist, "wavelength": wvln, "omegasign": osign,
                "tilt_x": 0., "tilt_y": 0., "tilt_z": 0., "o11": 1, "o12": 0, "o21": 0, "o22": -1, "wedge": wedge, "chi": chi}
        C = tr.Ctransform(pars)
        geo = C.xyz2geometry(xyz, om * osign)       # omega column such that the effective angle is om
        gc = geo[:, 3:6].T
        if np.abs(geo[:, 2] - bragg).max() > 1e-12 * bragg.max():
            sh.violation("bragg-law:C-ds", dict(case, omegasign=osign), {"max_diff": float(np.abs(geo[:, 2] - bragg).max())})
        if np.abs(np.sqrt((gc * gc).sum(axis=0)) - bragg).max() > 1e-12 * bragg.max():
            sh.violation("bragg-law:C-g", dict(case, omegasign=osign), {})
        if np.abs(gc - g).max() > 1e-11 * modg.max():
            i = int(np.argmax(np.abs(gc - g).max(axis=0)))
            sh.violation("C-g-differs-from-python-g", dict(case, omegasign=osign, tth=tth[i], eta=eta[i], omega=om[i]),
                         {"c": gc[:, i], "python": g[:, i]})
        gv = C.xyz2gv(xyz, om * osign)
        if np.abs(gv.T - g).max() > 1e-11 * modg.max():
            sh.violation("C-compute_gv-differs-from-python-g", dict(case, omegasign=osign), {})
        # history on ONE Ctransform object: results handed out earlier stay what they were when it is used again, and the rigid
        # rotation law holds between two of its answers
        gv_kept, geo_kept = gv.copy(), geo.copy()
        gv2 = C.xyz2gv(xyz, (om + 25.0) * osign)
        geo2 = C.xyz2geometry(xyz, (om + 25.0) * osign)
        gv3 = C.sf2gv(np.zeros(n), np.zeros(n), om * osign)
        # ... and a SECOND Ctransform object for another experiment (other wavelength, axis tilts, sense of rotation) made in between does
        # not change what the first one answers
        other = tr.Ctransform(dict(pars, wavelength=wvln * 1.7, wedge=wedge + 3.0, chi=chi - 2.0, omegasign=-osign))
        other.xyz2gv(xyz, om * osign)
        if not (np.array_equal(C.xyz2gv(xyz, om * osign), gv_kept) and np.array_equal(C.xyz2geometry(xyz, om * osign), geo_kept)):
            sh.violation("Ctransform:answers-change-when-another-Ctransform-object-is-made", dict(case, omegasign=osign), {})
        if not (np.array_equal(gv, gv_kept) and np.array_equal(geo, geo_kept)):
            sh.violation("Ctransform:earlier-result-overwritten-by-a-later-call", dict(case, omegasign=osign), {})
        elif np.abs(gv2.T - np.dot(rz(-25.0), gv.T)).max() > 1e-11 * modg.max() or np.abs(geo2[:, 3:6].T - np.dot(rz(-25.0), geo[:, 3:6].T)).max() > 1e-11 * modg.max():
            sh.violation("omega-does-not-rotate-g-rigidly:C", dict(case, omegasign=osign, delta=25.0), {})
    # (iv) invert and go forward again
    margin = can_diffract(g, wvln, wedge, chi)
    t2, (e1, e2), (o1, o2) = tr.uncompute_g_vectors(g, wvln, wedge=wedge, chi=chi)
    sure = margin > 1e-7
    nb = int((np.abs(margin) <= 1e-7).sum())
    sh.borderline += nb
    for k_, (ee, oo) in enumerate(((e1, o1), (e2, o2))):
        gb = tr.compute_g_vectors(t2, ee, oo, wvln, wedge=wedge, chi=chi)
        err = np.abs(gb - g).max(axis=0)
        bad = sure & ~(err <= 1e-9 * modg)
        if bad.any():
            i = int(np.nonzero(bad)[0][0])
            sh.violation("inverse-then-forward-does-not-return-g:solution%d" % (k_ + 1),
                         dict(case, tth=tth[i], eta=eta[i], omega=om[i]),
                         {"g": g[:, i], "back": gb[:, i], "angles": [t2[i], ee[i], oo[i]], "margin": margin[i]})
            break
    g_in = g.copy()
    # (iv-b) the answer for one g-vector does not depend on how many are converted together: batches of 1..5 vectors (a 3x3 batch
    # is the one a layout guess gets wrong) against the slice of the whole-grid answer
    full = np.array([t2, e1, e2, o1, o2])
    starts = sorted(set(int(x) for x in np.linspace(0, n - 6, 24 if tier == "quick" else 96)))
    for k_ in (1, 2, 3, 4, 5):
        for i0 in starts:
            # alternately a contiguous copy and a strided view of the big array (what slicing a table gives)
            gb = g[:, i0:i0 + k_].copy() if (i0 + k_) % 2 else g[:, i0:i0 + k_]
            tb, (ea, eb), (oa, ob) = tr.uncompute_g_vectors(gb, wvln, wedge=wedge, chi=chi)
            part = np.array([np.atleast_1d(x) for x in (tb, ea, eb, oa, ob)], float)
            ref_ = full[:, i0:i0 + k_]
            same = part.shape == ref_.shape and bool((np.isnan(part) == np.isnan(ref_)).all()) and \
                bool((np.abs((np.nan_to_num(part) - np.nan_to_num(ref_) + 180) % 360 - 180) <= 1e-9).all())
            sh.evaluations += 1
            if not same:
                sh.violation("uncompute_g_vectors:answer-depends-on-batch-size", dict(case, batch=k_, first=i0,
                                                                                   tth=tth[i0], eta=eta[i0], omega=om[i0]),
                             {"batch_answer": part, "whole_grid_answer": ref_})
                break
    if not np.array_equal(g, g_in):
        sh.violation("uncompute_g_vectors:modifies-the-g-vectors-it-is-given", case, {})
        g = g_in
    # (v) the angles as the caller may hold them: an INTEGER omega array (np.arange over whole degrees) gives what the same values as
    # floats give - for a grain off the axis too (non-integer t_z) - and an omega buffer REFILLED IN PLACE between calls (one array
    # object, new angles) is answered for the angles it holds now
    om_i = np.arange(-170, 190, 20)
    om_f = om_i.astype(float)
    ni = len(om_i)
    tth_i, eta_i = np.linspace(3.0, 25.0, ni), np.linspace(-170.0, 175.0, ni)
    t_ = (12.25, -4.5, 0.3)
    k_i = tr.compute_k_vectors(tth_i, eta_i, wvln)
    xyz_i = np.array([np.full(ni, 1e5), 3e3 * np.sin(om_f), 4e3 * np.cos(om_f)])
    fns = {"compute_grain_origins": lambda o: tr.compute_grain_origins(o, wedge=wedge, chi=chi, t_x=t_[0], t_y=t_[1], t_z=t_[2]),
           "compute_g_vectors": lambda o: tr.compute_g_vectors(tth_i, eta_i, o, wvln, wedge=wedge, chi=chi),
           "compute_g_from_k": lambda o: tr.compute_g_from_k(k_i, o, wedge=wedge, chi=chi),
           "compute_tth_eta_from_xyz": lambda o: np.array(tr.compute_tth_eta_from_xyz(xyz_i, o, t_x=t_[0], t_y=t_[1], t_z=t_[2], wedge=wedge, chi=chi)),
           "compute_xyz_from_tth_eta": lambda o: np.array(tr.compute_xyz_from_tth_eta(tth_i, eta_i, o, t_x=t_[0], t_y=t_[1], t_z=t_[2], wedge=wedge, chi=chi,
                                                                                   distance=1e5, y_center=1000.0, z_center=1000.0, y_size=50.0, z_size=50.0))}
    for name, fn in fns.items():
        a_, b_ = np.asarray(fn(om_i), float), np.asarray(fn(om_f), float)
        if a_.shape != b_.shape or not np.allclose(a_, b_, rtol=0, atol=1e-9 * max(1.0, np.abs(b_).max())):
            sh.violation("transform.%s:integer-omega-array-gives-another-answer-than-the-same-angles-as-floats" % name, case,
                         {"max_diff": float(np.abs(a_ - b_).max()) if a_.shape == b_.shape else None})
        sh.evaluations += 1
    # ... and the other angle containers as integer arrays (whole-degree two-theta / eta tables): same answers as for floats
    tth_n, eta_n = np.arange(5, 5 + 3 * ni, 3), np.arange(-170, -170 + 19 * ni, 19)
    for name, fi, ff in (("compute_k_vectors", lambda: tr.compute_k_vectors(tth_n, eta_n, wvln), lambda: tr.compute_k_vectors(tth_n.astype(float), eta_n.astype(float), wvln)),
                         ("compute_g_vectors", lambda: tr.compute_g_vectors(tth_n, eta_n, om_i, wvln, wedge=wedge, chi=chi),
                          lambda: tr.compute_g_vectors(tth_n.astype(float), eta_n.astype(float), om_f, wvln, wedge=wedge, chi=chi)),
                         ("compute_xyz_from_tth_eta", lambda: np.array(tr.compute_xyz_from_tth_eta(tth_n, eta_n, om_i, t_x=t_[0], t_y=t_[1], t_z=t_[2], wedge=wedge, chi=chi,
                                                                                                distance=1e5, y_center=1000.0, z_center=1000.0, y_size=50.0, z_size=50.0)),
                          lambda: np.array(tr.compute_xyz_from_tth_eta(tth_n.astype(float), eta_n.astype(float), om_f, t_x=t_[0], t_y=t_[1], t_z=t_[2], wedge=wedge,
                                                                       chi=chi, distance=1e5, y_center=1000.0, z_center=1000.0, y_size=50.0, z_size=50.0)))):
        a_, b_ = np.asarray(fi(), float), np.asarray(ff(), float)
        if a_.shape != b_.shape or not np.allclose(a_, b_, rtol=0, atol=1e-9 * max(1.0, np.abs(b_).max())):
            sh.violation("transform.%s:integer-angle-arrays-give-another-answer-than-the-same-angles-as-floats" % name, case,
                         {"max_diff": float(np.abs(a_ - b_).max()) if a_.shape == b_.shape else None})
        sh.evaluations += 1
    buf = om_f.copy()
    for fill in (None, lambda b: b.__iadd__(25.0), lambda b: b.__imul__(-1.0), lambda b: b.__setitem__(slice(None), om_f[::-1] + 0.5)):
        if fill is not None:
            fill(buf)
        gots = {name: np.asarray(fn(buf), float) for name, fn in fns.items()}
        wants = {name: np.asarray(fn(buf.copy()), float) for name, fn in fns.items()}
        for name, fn in fns.items():
            fn(buf)
        for name in fns:
            if not np.array_equal(gots[name], wants[name]):
                sh.violation("transform.%s:stale-answer-after-the-omega-array-was-refilled-in-place" % name, case,
                             {"max_diff": float(np.abs(gots[name] - wants[name]).max())})
        sh.evaluations += len(fns)
    # the two solutions are different diffraction events (unless eta is 0/180 exactly) and one of them is the generating one
    d1 = np.abs((o1 - om + 180) % 360 - 180); d2 = np.abs((o2 - om + 180) % 360 - 180)
    lost = sure & ~((d1 < 1e-6) | (d2 < 1e-6))
    if lost.any():
        i = int(np.nonzero(lost)[0][0])
        sh.violation("generating-omega-not-among-the-two-solutions", dict(case, tth=tth[i], eta=eta[i], omega=om[i]),
                     {"omega1": o1[i], "omega2": o2[i]})
    sh.evaluations += n
    if wedge != 0 or chi != 0:
        sh.nontrivial += n
    sh.count("diffracting_cases", int(sure.sum()))
    sh.outcomes.add((wi, wci))
    sh.sample(dict(case, tth=float(tth[777]), eta=float(eta[777]), omega=float(om[777]), g=g[:, 777]), limit=1)
    sh.counters["max_grid_points_per_configuration"] = max(sh.counters.get("max_grid_points_per_configuration", 0), n)
    return sh


def _run_invalid(desc):
    """g-vectors constructed in the blind cone (close to the rotation axis) and beyond the Ewald limit"""
    _, wi, wci, tier = desc
    from ImageD11 import transform as tr
    sh = Shard()
    wvln = WVLN[wi]
    wedge, chi = grids(tier)[3][wci]
    case = {"kind": "invalid", "wavelength": wvln, "wedge": wedge, "chi": chi, "tier": tier}
    mods = np.array([0.05, 0.3, 0.9, 1.5, 1.99, 2.01, 2.5, 4.0]) / wvln          # |g| in units of 1/lambda
    polar = np.array([0.0, 0.01, 0.5, 2.0, 5.0, 10.0, 20.0, 45.0, 70.0, 90.0, 110.0, 160.0, 175.0, 179.99, 180.0])
    azim = np.array([0.0, 37.0, 90.0, 181.0, 270.0, 333.0])
    if tier == "thorough":
        mods = np.unique(np.concatenate([mods * wvln, np.linspace(0.02, 3.0, 40)])) / wvln
        polar = np.unique(np.concatenate([polar, np.arange(1.0, 180.0, 3.0)]))
        azim = np.arange(0.0, 360.0, 15.0) + 1.0
    M, P, A = np.meshgrid(mods, polar, azim, indexing="ij")
    m, p, a = M.ravel(), np.radians(P.ravel()), np.radians(A.ravel())
    g = np.array([m * np.sin(p) * np.cos(a), m * np.sin(p) * np.sin(a), m * np.cos(p)])
    margin = can_diffract(g, wvln, wedge, chi)
    over = m * wvln > 2.0
    with np.errstate(all="ignore"):
        t2, (e1, e2), (o1, o2) = tr.uncompute_g_vectors(g, wvln, wedge=wedge, chi=chi)
    cannot = margin < -1e-7
    can = margin > 1e-7
    sh.borderline += int((~cannot & ~can).sum())
    modg = np.sqrt((g * g).sum(axis=0))
    for k_, (ee, oo) in enumerate(((e1, o1), (e2, o2))):
        with np.errstate(all="ignore"):
            gb = tr.compute_g_vectors(t2, ee, oo, wvln, wedge=wedge, chi=chi)
        err = np.abs(gb - g).max(axis=0)
        finite = np.isfinite(t2) & np.isfinite(ee) & np.isfinite(oo)
        flagged = ~finite | ((ee == 0) & (oo == 0))
        # cannot diffract: must be flagged
        bad = cannot & ~flagged
        if bad.any():
            i = int(np.nonzero(bad)[0][0])
            sh.violation("non-diffracting-g-given-angles:solution%d" % (k_ + 1), dict(case, g=g[:, i]),
                         {"angles": [t2[i], ee[i], oo[i]], "maps_back_to": gb[:, i], "margin": margin[i], "modg_lambda": m[i] * wvln})
            break
        # can diffract: must come back
        bad = can & ~(err <= 1e-9 * modg)
        if bad.any():
            i = int(np.nonzero(bad)[0][0])
            sh.violation("diffracting-g-not-recovered:solution%d" % (k_ + 1), dict(case, g=g[:, i]),
                         {"angles": [t2[i], ee[i], oo[i]], "maps_back_to": gb[:, i], "margin": margin[i]})
            break
    sh.evaluations += g.shape[1]
    sh.nontrivial += int(cannot.sum())
    sh.count("blind_cone_cases", int((cannot & ~over).sum()))
    sh.count("over_range_cases", int((cannot & over).sum()))
    sh.count("diffracting_constructed_cases", int(can.sum()))
    sh.sample(dict(case, g=g[:, 100], margin=float(margin[100])), limit=1)
    return sh


CANCELLING = ((1.0, -0.625, -0.375), (1.0, -1.0, 0.0), (0.0, 0.5, -0.5), (-0.375, 0.25, 0.125), (0.75, 0.0, -0.75), (-1.0, 0.5, 0.5))


def _run_detector(desc):
    _, c, nd, tier, mg = desc
    from ImageD11 import transform as tr
    from vt.props import c01
    sh = Shard()
    T, E = np.meshgrid(TTH, ETA, indexing="ij")
    tth, eta = T.ravel(), E.ravel()
    om = np.resize(OMEGA, len(tth))
    idx = 0
    seed = int(os.environ.get("VERIF_SEED", "0") or 0)
    for pars, non in c01.configs(mg):
        idx += 1
        # quick: every 4th configuration of the C01 grid (4096, offset chosen by the seed); thorough: all 16 384
        if idx % nd != c:
            continue
        if tier in ("quick", "quick4") and (idx // nd) % 4 != seed % 4:
            continue
        sh.count("detector_configurations")
        p = dict(pars)
        osn = p.pop("omegasign")
        fc, sc = tr.compute_xyz_from_tth_eta(tth, eta, om, **p)
        t2, e2 = tr.compute_tth_eta(np.array([sc, fc]), omega=om, **p)
        case = {"kind": "detector", "pars": pars}
        # the compiled way back (Ctransform, as columnfile.updateGeometry uses it) from the same detector positions
        C = tr.Ctransform(pars)
        geo = C.xyz2geometry(C.sf2xyz(np.ascontiguousarray(sc, float), np.ascontiguousarray(fc, float)), om * osn, p["t_x"], p["t_y"], p["t_z"])
        dtc = np.abs(geo[:, 0] - tth)
        dec = np.abs((geo[:, 1] - eta + 180) % 360 - 180)
        if not np.isfinite(geo).all() or dtc.max() > 1e-8 or (dec * np.sin(np.radians(tth))).max() > 1e-8:
            i = int(np.argmax(dtc + dec))
            sh.violation("detector-round-trip:compiled-route", dict(case, tth=tth[i], eta=eta[i], omega=om[i]),
                         {"tth_back": geo[i, 0], "eta_back": geo[i, 1], "sc": sc[i], "fc": fc[i]})
        dt = np.abs(t2 - tth)
        de = np.abs((e2 - eta + 180) % 360 - 180)
        if not np.isfinite(t2).all() or dt.max() > 1e-8 or (de * np.sin(np.radians(tth))).max() > 1e-8:
            i = int(np.argmax(dt + de))
            sh.violation("detector-round-trip", dict(case, tth=tth[i], eta=eta[i], omega=om[i]),
                         {"tth_back": t2[i], "eta_back": e2[i], "sc": sc[i], "fc": fc[i]})
        sh.evaluations += len(tth)
        if non >= 2:
            sh.nontrivial += len(tth)
        # grain positions whose components cancel or repeat (grid scans symmetric about the axis produce them): a position is "no
        # translation" only when all three components are zero
        scale = max(abs(pars["t_x"]), abs(pars["t_y"]), abs(pars["t_z"]), 1e-3 * abs(pars["distance"]))
        tc = CANCELLING[idx % len(CANCELLING)]
        p2 = dict(p, t_x=tc[0] * scale, t_y=tc[1] * scale, t_z=tc[2] * scale)
        sub = slice(idx % 3, None, 3)
        fc2, sc2 = tr.compute_xyz_from_tth_eta(tth[sub], eta[sub], om[sub], **p2)
        t3, e3 = tr.compute_tth_eta(np.array([sc2, fc2]), omega=om[sub], **p2)
        dt = np.abs(t3 - tth[sub])
        de = np.abs((e3 - eta[sub] + 180) % 360 - 180)
        if not np.isfinite(t3).all() or dt.max() > 1e-8 or (de * np.sin(np.radians(tth[sub]))).max() > 1e-8:
            i = int(np.argmax(dt + de))
            sh.violation("detector-round-trip[position components cancel]", {"kind": "detector", "pars": dict(p2, omegasign=osn), "tth": tth[sub][i], "eta": eta[sub][i],
                                                                           "omega": om[sub][i]}, {"tth_back": t3[i], "eta_back": e3[i]})
        sh.evaluations += len(t3)
        # history: the NEXT projection differs from the one just made in ONE detector parameter only (a refinement step, a tilt scan):
        # each parameter in turn, each time straight after a call with the unchanged set
        few = slice(idx % 7, None, 7)
        for name, step in (("tilt_x", 0.013), ("tilt_y", -0.011), ("tilt_z", 0.009), ("distance", 0.01 * p["distance"]), ("y_center", 3.5), ("z_center", -2.5),
                           ("y_size", 0.02 * p["y_size"]), ("z_size", -0.02 * p["z_size"]), ("wedge", 0.7), ("chi", -0.6), ("t_x", 0.004 * abs(p["distance"]))):
            tr.compute_xyz_from_tth_eta(tth[few], eta[few], om[few], **p)
            p4 = dict(p)
            p4[name] = p[name] + step
            fc4, sc4 = tr.compute_xyz_from_tth_eta(tth[few], eta[few], om[few], **p4)
            t4, e4 = tr.compute_tth_eta(np.array([sc4, fc4]), omega=om[few], **p4)
            dt = np.abs(t4 - tth[few])
            de = np.abs((e4 - eta[few] + 180) % 360 - 180)
            if not np.isfinite(t4).all() or dt.max() > 1e-8 or (de * np.sin(np.radians(tth[few]))).max() > 1e-8:
                i = int(np.argmax(dt + de))
                sh.violation("detector-round-trip[straight after a call that differs in %s only]" % name,
                             {"kind": "detector", "pars": dict(p4, omegasign=osn), "tth": tth[few][i], "eta": eta[few][i], "omega": om[few][i],
                              "previous_call": {name: p[name]}}, {"tth_back": t4[i], "eta_back": e4[i]})
                break
            sh.evaluations += len(t4)
    sh.sample({"kind": "detector", "pars": pars}, limit=1)
    return sh


def _run_callers(desc):
    """the C route of the laws (compute_geometry / compute_gv) when two python threads are inside the kernels at once with different
    wedge / chi / omega sign: explored with the two-callers mode of the vrt runtime (shared with C01)"""
    from vt.props import c01
    return c01._run_callers(("callers", desc[1], desc[2]))


def _run_rotation_axis(desc):
    """gv_general.rotation_axis / k_to_g, which carry the omega rotation for ANY axis direction: laws only (no reference): the per-angle
    route preserves length and the component along the axis, leaves the axis fixed, composes additively, is undone by the inverse
    route, agrees with the matrix route, and k_to_g applies post, rotation, pre in that order"""
    from ImageD11 import gv_general as gg
    sh = Shard()
    axes = [(0, 0, 1.0), (0, 0, -1.0), (1.0, 0, 0), (0, 1.0, 0), (1 / 3.0, 2 / 3.0, 2 / 3.0), (0, 0.28, -0.96), (-0.6, 0, 0.8), (2 / 7.0, -3 / 7.0, 6 / 7.0),
            (0.6, 0.8, 0)]
    angs = np.array([0.0, 7.25, 45.0, 90.0, 133.7, 180.0, -33.3, -90.0, 271.0, 359.9, -179.0, 720.5])
    k = np.arange(14) + 0.5
    phi = np.arccos(1 - 2 * k / 14)
    th = np.pi * (1 + 5 ** 0.5) * k
    vecs = np.array([np.cos(th) * np.sin(phi), np.sin(th) * np.sin(phi), np.cos(phi)]) * (0.3 + 0.1 * np.arange(14))
    V, A = np.meshgrid(np.arange(vecs.shape[1]), np.arange(len(angs)), indexing="ij")
    p = vecs[:, V.ravel()]
    q = angs[A.ravel()]
    pre = rz(12.0)
    post = np.dot(rz(-5.0), np.array([[1, 0, 0], [0, np.cos(0.2), np.sin(0.2)], [0, -np.sin(0.2), np.cos(0.2)]]))
    for ax in axes:
        a = np.array(ax, float)
        case = {"kind": "rotation_axis", "axis": list(ax)}
        ra = gg.rotation_axis(a)
        rp = ra.rotate_vectors(p, q)

        def bad(what, detail=None):
            sh.violation("rotation_axis:" + what, case, detail or {})
        if np.abs(np.sqrt((rp * rp).sum(axis=0)) - np.sqrt((p * p).sum(axis=0))).max() > 1e-12: bad("length-not-preserved")
        if np.abs(np.dot(a, rp) - np.dot(a, p)).max() > 1e-12: bad("component-along-the-axis-changes")
        if np.abs(ra.rotate_vectors(np.outer(a, np.ones(len(angs))), angs) - a[:, None]).max() > 1e-12: bad("axis-not-fixed")
        if np.abs(ra.rotate_vectors_inverse(rp, q) - p).max() > 1e-12: bad("inverse-route-does-not-undo")
        if np.abs(ra.rotate_vectors(rp, np.full(len(q), 25.0)) - ra.rotate_vectors(p, q + 25.0)).max() > 1e-12: bad("angles-do-not-add")
        # handedness: a quarter turn about the axis takes e to a x e for e perpendicular to the axis
        e = np.cross(a, (1.0, 0.3, -0.2)); e /= np.linalg.norm(e)
        if np.abs(ra.rotate_vectors(e[:, None], np.array([90.0]))[:, 0] - np.cross(a, e)).max() > 1e-12: bad("not-right-handed-about-the-axis")
        for ang in angs:
            rm = gg.rotation_axis(a, ang)
            sel = q == ang
            if np.abs(rm.rotate_vectors(p[:, sel]) - rp[:, sel]).max() > 1e-12 or np.abs(np.dot(rm.to_matrix(), p[:, sel]) - rp[:, sel]).max() > 1e-12:
                bad("matrix-route-differs-from-per-angle-route", {"angle": float(ang)}); break
            if np.abs(rm.rotate_vectors_inverse(rp[:, sel]) - p[:, sel]).max() > 1e-12:
                bad("matrix-inverse-route", {"angle": float(ang)}); break
            if abs(np.sin(np.radians(ang))) > 0.1:          # the axis of a 0 or 180 degree rotation cannot be read off the antisymmetric part
                back = gg.axis_from_matrix(rm.to_matrix())
                if np.abs(back.to_matrix() - rm.to_matrix()).max() > 1e-9:
                    bad("axis_from_matrix-does-not-reproduce-the-rotation", {"angle": float(ang)}); break
        g1 = gg.k_to_g(p, q, axis=a)
        if np.abs(g1 - rp).max() > 1e-12: bad("k_to_g-differs-from-rotate_vectors")
        g2 = gg.k_to_g(p, q, axis=a, pre=pre, post=post)
        if np.abs(g2 - np.dot(pre, ra.rotate_vectors(np.dot(post, p), q))).max() > 1e-12: bad("k_to_g-pre-post-order")
        sh.evaluations += p.shape[1]
        sh.nontrivial += p.shape[1] if abs(a[2]) < 1 else 0
        sh.outcomes.add(("axis", tuple(ax)))
    sh.sample(case, limit=1)
    return sh


def run_shard(desc):
    if desc[0] == "sched":
        from vt.props import c01
        return c01._run_sched(("sched", desc[1], desc[2], 1, 4))
    if desc[0] == "rotation_axis":
        return _run_rotation_axis(desc)
    if desc[0] == "callers":
        return _run_callers(desc)
    return {"laws": _run_laws, "invalid": _run_invalid, "detector": _run_detector}[desc[0]](desc)


def replay(case):
    if case["kind"] == "callers":
        r = _run_callers(("callers", "thorough", case["mag"]))
        return (not r.violations), {"violations": r.violations[:3]}
    if case["kind"] == "sched":
        from vt.props import c01
        r = c01._run_sched(("sched", "quick", case["mag"], 1, 4))
        return (not r.violations), {"violations": r.violations[:3]}
    if case["kind"] == "rotation_axis":
        r = _run_rotation_axis(("rotation_axis", "quick"))
        v = [x for x in r.violations if x["case"]["axis"] == case["axis"]]
        return (not v), {"violations": v[:3]}
    if case["kind"] in ("laws", "invalid"):
        tier = case.get("tier", "quick")
        wi = WVLN.index(case["wavelength"]); wci = grids(tier)[3].index((case["wedge"], case["chi"]))
        r = run_shard((case["kind"], wi, wci, tier))
        v = r.violations
    else:
        from ImageD11 import transform as tr
        p = dict(case["pars"]); p.pop("omegasign")
        tth = np.array([case["tth"]]); eta = np.array([case["eta"]]); om = np.array([case["omega"]])
        fc, sc = tr.compute_xyz_from_tth_eta(tth, eta, om, **p)
        t2, e2 = tr.compute_tth_eta(np.array([sc, fc]), omega=om, **p)
        ok = abs(t2[0] - tth[0]) < 1e-8 and abs((e2[0] - eta[0] + 180) % 360 - 180) * np.sin(np.radians(tth[0])) < 1e-8
        C = tr.Ctransform(case["pars"])
        geo = C.xyz2geometry(C.sf2xyz(np.ascontiguousarray(sc, float), np.ascontiguousarray(fc, float)), om * case["pars"]["omegasign"],
                             p["t_x"], p["t_y"], p["t_z"])
        okc = abs(geo[0, 0] - tth[0]) < 1e-8 and abs((geo[0, 1] - eta[0] + 180) % 360 - 180) * np.sin(np.radians(tth[0])) < 1e-8
        return bool(ok and okc), {"tth_back": t2[0], "eta_back": e2[0], "tth_back_compiled": geo[0, 0], "eta_back_compiled": geo[0, 1]}
    return (not v), {"violations": v[:3]}
