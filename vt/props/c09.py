"""C09 - grain refinement recovers orientation, cell and position from simulated data.

Bounded exhaustive exploration of a configuration grid: geometry {2 flips} x {tilts off/on} x {wedge
off/on} x {chi off/on} x omegasign +- = 32 configurations (thorough: 128 incl. pixel-size signs and
distances) x {1, 2 (quick), 3, 5 (thorough)} grains from tables of rotations, strains <= 5e-3 and
positions within +-0.5 mm x omega {floated, as observed}.  Peaks are forward-simulated with the PYTHON
REFERENCE only (uncompute_g_vectors -> compute_xyz_from_tth_eta), so the hkl, grain of origin and
position of every peak are known.  The pipeline under test runs through files on disk exactly as
scripts/makemap.py drives it (parameter file, .flt, .ubi in; .ubi, .flt.new out), three passes,
starting from grains perturbed by 0.1 deg, 2e-3 in cell and 50 um.
Required: every simulated peak labelled with its grain and its integer hkl; UBI within 1e-5 relative
and translation within 2 um of the truth; the saved files read back with those values.
"""
from __future__ import annotations
import argparse, contextlib, io, itertools, os, shutil, sys
import numpy as np
from vt.runner import Shard
from vt import oracles as O

LEVEL = "exploration"
RULE = ("cases = (geometry configuration, grain set, omega mode) all combinations of the stated tables; non-trivial = the start "
        "assigns < 100 % of the peaks correctly or the start goodness of fit is > 10x the final one (the optimiser has to move)")
ASSUMPTIONS = ["noise-free simulated peaks written with the flt text precision (1e-4 pixel / degree)", "thresholds fixed in DESIGN.md: "
               "1e-5 relative on UBI, 2 um on translation, after three makemap passes", "the statement decided is about this finite set of "
               "simulated data sets"]

WORK = os.path.join(os.path.dirname(os.path.dirname(os.path.dirname(os.path.abspath(__file__)))), ".work")
CELL = [4.04, 4.04, 4.04, 90.0, 90.0, 90.0]
SYM = "F"

ROTS = [((1, 2, 3), 37.0), ((-2, 1, 5), 111.0), ((3, -1, 2), 73.5), ((1, 0, 4), 158.0), ((5, 4, -3), 12.3)]
STRAINS = [np.diag([1e-3, -2e-3, 5e-4]), np.array([[0, 2e-3, 0], [2e-3, 0, -1e-3], [0, -1e-3, 0.0]]),
           np.array([[3e-3, 1e-3, -2e-3], [1e-3, -5e-3, 2e-3], [-2e-3, 2e-3, 2e-3]]), np.zeros((3, 3)), np.diag([-4e-3, 1e-3, 2e-3])]
POSITIONS = [(120.0, -300.0, 60.0), (-400.0, 150.0, -200.0), (33.0, 480.0, 310.0), (-250.0, -250.0, 0.0), (499.0, 10.0, -450.0)]


def geometries(tier):
    out = []
    flips = [(1, 0, 0, -1), (0, 1, -1, 0)]
    sizes = [(50.0, 50.0)] if tier == "quick" else [(50.0, 50.0), (-47.0, 52.0)]
    dists = [150000.0] if tier == "quick" else [150000.0, 110000.0]
    for fl, tilt, wedge, chi, osign, sz, dist in itertools.product(flips, (0, 1), (0, 1), (0, 1), (1.0, -1.0), sizes, dists):
        out.append({"distance": dist, "y_center": 1000.3, "z_center": 1050.7, "y_size": sz[0], "z_size": sz[1],
                    "tilt_x": 0.004 * tilt, "tilt_y": -0.007 * tilt, "tilt_z": 0.011 * tilt,
                    "o11": fl[0], "o12": fl[1], "o21": fl[2], "o22": fl[3], "wedge": (1.5 if tilt == (fl[0] == 1) else -1.5) * wedge, "chi": (-0.7 if osign > 0 else 0.7) * chi,
                    "omegasign": osign, "wavelength": 0.2846, "t_x": 0.0, "t_y": 0.0, "t_z": 0.0,
                    "cell__a": CELL[0], "cell__b": CELL[1], "cell__c": CELL[2], "cell_alpha": CELL[3], "cell_beta": CELL[4],
                    "cell_gamma": CELL[5], "cell_lattice_[P,A,B,C,I,F,R]": SYM, "fit_tolerance": 0.05})
    # appended (the indices above are used elsewhere): wedge and chi with the SAME non-zero value, both signs of omega
    for osign in (1.0, -1.0):
        out.append(dict(out[7 if len(out) > 7 else 0], wedge=0.9, chi=0.9, omegasign=osign, tilt_x=0.004, tilt_y=-0.007, tilt_z=0.011))
    return out


def plan(tier, seed):
    geos = geometries(tier)
    ngs = (1, 2, 3) if tier == "quick" else (1, 3, 5)
    shards = []
    for gi in range(len(geos)):
        for ng in ngs:
            for omfloat in (True, False):
                shards.append(("pipe", tier, gi, ng, omfloat))
        if gi % 4 == 0:
            shards.append(("pipe_nostart", tier, gi, 3, True))
        if gi % 8 in (2, 5):
            shards.append(("pipe_mixedstart", tier, gi, 3, gi % 8 == 2))
        if gi % 8 in (4, 7):
            shards.append(("pipe_tie", tier, gi, 3, gi % 8 == 4))
        if gi % 8 in (0, 5):
            shards.append(("pipe_wrap360", tier, gi, 2, True))
        if gi % 4 == 3:
            shards.append(("pipe_missing", tier, gi, 3, gi % 8 == 3))
            shards.append(("pipe_bigcell", tier, gi, 2, gi % 8 != 3))
        if gi % 4 == 2:
            for rep in (2, 3, 4):
                shards.append(("pipe_repeat%d" % rep, tier, gi, 2, rep % 2 == 0))
        if gi % 4 == 1:
            for omfloat in (True, False):
                shards.append(("pipe_cubic", tier, gi, 2 if tier == "quick" else 3, omfloat))
        if gi % 8 in (1, 6):
            shards.append(("pipe_legacy", tier, gi, 2, gi % 8 == 1))
        if gi % 8 in (0, 3, 5):
            shards.append(("pipe_subgrain", tier, gi, 2 + (gi % 8 == 3), gi % 8 != 5))
        if gi % 8 in (2, 7):
            for nt in (4, 16) if tier == "quick" else (2, 3, 4, 7, 16):
                shards.append(("pipe_frames%d" % nt, tier, gi, 3, gi % 8 == 2))
    shards.append(("callers",))
    shards.append(("grainfile",))
    k = seed % len(shards)
    return shards[k:] + shards[:k]


def seed_of():
    return int(os.environ.get("VERIF_SEED", "0") or 0)


def true_grains(ng, seed, strained=True, cell=None):
    B0 = O.cell_to_B(cell or CELL)
    out = []
    for k in range(ng):
        q = (k + seed) % 5
        R = O.rotation_from_axis_angle(*ROTS[q])
        F = np.eye(3) + (STRAINS[(k + 2 * seed) % 5] if strained else 0.0)
        UB = np.dot(R, np.dot(np.linalg.inv(F).T, B0))
        out.append((np.linalg.inv(UB), np.array(POSITIONS[(k + 3 * seed) % 5])))
    return out


def simulate(tr, pars, grains, dsmax=0.95, wrap360=False):
    """forward simulation with the python reference only; returns arrays sc, fc, omega, grain, hkl"""
    cell_ = [pars["cell__a"], pars["cell__b"], pars["cell__c"], pars["cell_alpha"], pars["cell_beta"], pars["cell_gamma"]]
    dsmax = dsmax * CELL[0] / cell_[0]
    hk, _ = O.brute_hkls(cell_, SYM, dsmax)
    hkls = np.array(sorted(hk), float)
    det = {k: pars[k] for k in ("distance", "y_center", "z_center", "y_size", "z_size", "tilt_x", "tilt_y", "tilt_z", "o11", "o12", "o21", "o22")}
    rows = []
    for gi, (ubi, t) in enumerate(grains):
        g = np.dot(np.linalg.inv(ubi), hkls.T)
        tth, (e1, e2), (o1, o2) = tr.uncompute_g_vectors(g, pars["wavelength"], wedge=pars["wedge"], chi=pars["chi"])
        for eta, om in ((e1, o1), (e2, o2)):
            ok = np.isfinite(tth) & (tth > 0.5 * CELL[0] / cell_[0]) & ~((eta == 0) & (om == 0))
            fc, sc = tr.compute_xyz_from_tth_eta(tth, eta, om, t_x=t[0], t_y=t[1], t_z=t[2], wedge=pars["wedge"], chi=pars["chi"], **det)
            inside = ok & (sc > 5) & (sc < 2043) & (fc > 5) & (fc < 2043)
            for k in np.nonzero(inside)[0]:
                rows.append((sc[k], fc[k], om[k] * pars["omegasign"], gi, hkls[k][0], hkls[k][1], hkls[k][2], tth[k], eta[k]))
    a = np.array(rows)
    if wrap360:
        a[:, 2] = a[:, 2] % 360.0          # the scan is written 0 .. 360 whatever the sign convention
    # remove peaks too close to the rotation axis poles / eta = 0, 180 where omega is ill-conditioned
    keep = np.abs(np.sin(np.radians(a[:, 8]))) > 0.1
    return a[keep]


def perturbed(grains):
    out = []
    for k, (ubi, t) in enumerate(grains):
        r = O.rotation_from_axis_angle((1, -2, 1 + k), 0.1)
        scale = np.diag([1 + 2e-3, 1 - 1e-3, 1 + 1e-3])
        out.append((np.dot(scale, np.dot(ubi, r.T)), t + np.array([50.0, -40.0, 30.0]) * (1 if k % 2 == 0 else -1)))
    return out


def write_inputs(wd, pars, peaks, start, gm, P, with_translation=True, legacy=False, by_omega=False):
    p = P.parameters(**pars)
    p.saveparameters(os.path.join(wd, "g.par"))
    with open(os.path.join(wd, "p.flt"), "w") as fh:
        # legacy: the column names older peak files use for the same two detector coordinates
        fh.write("#  %s  omega  Number_of_pixels  avg_intensity  sum_intensity\n" % ("xc  yc" if legacy else "sc  fc"))
        order = (np.arange(len(peaks)) * 7919) % len(peaks) if np.gcd(7919, len(peaks)) == 1 else np.arange(len(peaks))
        if by_omega:
            order = np.argsort(peaks[:, 2], kind="stable")          # frame by frame, as a peak search writes them
        for k in order:
            fh.write("%.4f  %.4f  %.4f  %.0f  %.4f  %.4f\n" % (peaks[k, 0], peaks[k, 1], peaks[k, 2], 10, 100.0, 1000.0))
    # "mixed": refined grains followed by newly indexed ones - only the first grain of the file has a position
    gl = [gm.grain(u, translation=(t if (with_translation is True or (with_translation == "mixed" and k == 0)) else None)) for k, (u, t) in enumerate(start)]
    gm.write_grain_file(os.path.join(wd, "start.ubi"), gl)
    return order


def _makemap_repeated(opts, k):
    """what scripts/makemap.py does, with refinepositions() called k times on the SAME refinegrains object (as the fitting loops of the
    GUI and of fitgrain-style scripts do) before anything is saved"""
    import ImageD11.refinegrains as RG
    o = RG.refinegrains(intensity_tth_range=(0.0, 180.0), latticesymmetry=getattr(RG, opts.latticesymmetry), OmFloat=opts.omega_float, OmSlop=opts.omega_slop)
    o.loadparameters(opts.parfile)
    o.loadfiltered(opts.fltfile)
    o.readubis(opts.ubifile)
    o.tolerance = float(opts.tol)
    o.generate_grains()
    # a snapshot of the starting state is saved first (it is written with the orientation of every grain as it is now)
    o.assignlabels()
    o.savegrains(opts.newubifile + ".start", sort_npks=False)
    for _ in range(k):
        o.refinepositions()
    o.savegrains(opts.newubifile, sort_npks=opts.sort_npks)
    o.scandata[opts.fltfile].writefile(opts.fltfile + ".new")


def run_case(sh, mods, pars, ng, omfloat, case, passes=3, with_translation=True, cubic=False, repeat=0, unlisted=0, cellscale=1.0, wrap360=False,
             legacy=False, frame_threads=0, subgrain=False, tie=False):
    tr, gm, P, cf_mod, makemap_mod = mods
    wd = os.path.join(WORK, "c09_%d" % os.getpid())
    shutil.rmtree(wd, ignore_errors=True)
    os.makedirs(wd)
    try:
        if cellscale != 1.0:
            # a large cell seen from proportionally further away: the same reflections at the same detector positions
            pars = dict(pars, cell__a=CELL[0] * cellscale, cell__b=CELL[1] * cellscale, cell__c=CELL[2] * cellscale, distance=pars["distance"] * cellscale)
        cell_ = [pars["cell__a"], pars["cell__b"], pars["cell__c"], pars["cell_alpha"], pars["cell_beta"], pars["cell_gamma"]]
        truth = true_grains(ng, seed_of(), strained=not cubic, cell=cell_)
        if subgrain:
            # the second grain is a sub-grain of the first (0.6 degrees away, somewhere else in the sample): most low-order peaks of
            # either are within the tolerance of BOTH lattices and belong to the one they fit better
            u0, _ = truth[0]
            truth = [truth[0], (np.dot(u0, O.rotation_from_axis_angle((1, 2, 3), 0.6).T), truth[1][1])] + truth[2:]
        peaks = simulate(tr, pars, truth, wrap360=wrap360)
        start = perturbed(truth)
        if unlisted:
            # the last `unlisted` grains are in the sample (their peaks are in the table) but not in the grain file
            start = start[:ng - unlisted]
            peaks[peaks[:, 3] >= ng - unlisted, 3] = -1
            truth = truth[:ng - unlisted]
            ng = ng - unlisted
        if with_translation is not True:
            # an indexer-style ubi file: no positions known; grains closer to the axis so that the assignment can start
            known = 1 if with_translation == "mixed" else 0
            truth = [(u, t * (1.0 if k < known else 0.3)) for k, (u, t) in enumerate(truth)]
            peaks = simulate(tr, pars, truth)
            start = [(u, t if k < known else np.zeros(3)) for k, (u, t) in enumerate(perturbed(truth))]
        if tie:
            # every grain keeps exactly as many peaks as the poorest one, and the grains are saved "sorted by number of peaks" (the default of
            # makemap): a tie all the way - every grain is still saved, and the peaks of every grain get their hkl
            nmin = min(int((peaks[:, 3] == k).sum()) for k in range(ng))
            keep = np.zeros(len(peaks), bool)
            for k in range(ng):
                keep[np.nonzero(peaks[:, 3] == k)[0][:nmin]] = True
            peaks = peaks[keep]
        if frame_threads:
            # every spot listed twice, the table in omega order: consecutive rows with exactly the same omega, as 2-D peak tables have;
            # the compiled loops run with `frame_threads` threads
            peaks = np.repeat(peaks, 2, axis=0)
            from ImageD11 import cImageD11 as cI_
            cI_.cimaged11_omp_set_num_threads(int(frame_threads))
        order = write_inputs(wd, pars, peaks, start, gm, P, with_translation, legacy=legacy, by_omega=bool(frame_threads))
        peaks = peaks[order]
        ubifile = os.path.join(wd, "start.ubi")
        cwd = os.getcwd()
        os.chdir(wd)
        try:
            for it in range(passes):
                newubi = os.path.join(wd, "pass%d.ubi" % it)
                opts = argparse.Namespace(parfile=os.path.join(wd, "g.par"), ubifile=ubifile, newubifile=newubi, fltfile=os.path.join(wd, "p.flt"),
                                          newfltfile=None, symmetry="cubic" if cubic else "triclinic", latticesymmetry="cubic" if cubic else "triclinic", tol=0.05,
                                          omega_float=omfloat,
                                          omega_slop=0.25, tthrange=None, sort_npks=bool(tie))
                with contextlib.redirect_stdout(io.StringIO()):
                    if repeat:
                        _makemap_repeated(opts, repeat)
                    else:
                        makemap_mod.makemap(opts)
                ubifile = newubi
                if repeat:
                    first_flt = cf_mod.columnfile(os.path.join(wd, "p.flt.new"))
                    start_correct = 0.0
                    break
                if it == 0:
                    first_flt = cf_mod.columnfile(os.path.join(wd, "p.flt.new"))
                    start_correct = float((first_flt.labels.astype(int) == peaks[:, 3].astype(int)).mean())
                    # already the first pass must move every grain towards ITS OWN position (a loose bound, 20x the measured error)
                    g1 = gm.read_grain_file(newubi)
                    if tie and len(g1) == ng:
                        g1 = [min(g1, key=lambda g_: float(np.abs(g_.ubi - truth[k][0]).max())) for k in range(ng)]
                    for k in range(min(ng, len(g1))):
                        e1 = float(np.abs(g1[k].translation - truth[k][1]).max())
                        sh.counters["max_translation_err_after_first_pass_nm"] = max(sh.counters.get("max_translation_err_after_first_pass_nm", 0), int(e1 * 1e3))
                        if e1 > 40.0:
                            sh.violation("refinement:first-pass-leaves-grain-far-from-its-position", dict(case, grain=k),
                                         {"error_um": e1, "translation": g1[k].translation, "truth": truth[k][1]})
                            break
                    # the peak file saved WITH that grain file carries, per peak, two-theta and eta as seen from the position saved for its
                    # grain (reference formulas), not from where the grain started
                    if len(g1) == ng and not cubic and not legacy and "tth_per_grain" in first_flt.titles:
                        det = {k_: pars[k_] for k_ in ("distance", "y_center", "z_center", "y_size", "z_size", "tilt_x", "tilt_y", "tilt_z", "o11", "o12", "o21", "o22")}
                        xyz1 = tr.compute_xyz_lab(np.array([first_flt.sc, first_flt.fc]), **det)
                        lab1 = first_flt.labels.astype(int)
                        for k in range(ng):
                            m1 = lab1 == k
                            if not m1.any() or tie:
                                continue
                            tk = g1[k].translation
                            t_ref, e_ref = tr.compute_tth_eta_from_xyz(xyz1[:, m1], first_flt.omega[m1] * pars["omegasign"], t_x=tk[0], t_y=tk[1], t_z=tk[2],
                                                                       wedge=pars["wedge"], chi=pars["chi"])
                            dt_ = np.abs(np.asarray(first_flt.tth_per_grain, float)[m1] - t_ref)
                            de_ = np.abs((np.asarray(first_flt.eta_per_grain, float)[m1] - e_ref + 180.0) % 360.0 - 180.0)
                            if dt_.max() > 2e-3 or (de_ * np.abs(np.sin(np.radians(t_ref)))).max() > 2e-3:
                                sh.violation("saved-file[first pass]:per-grain-angles-are-not-those-seen-from-the-saved-position", dict(case, grain=k),
                                             {"max_dtth_deg": float(dt_.max()), "max_deta_deg": float(de_.max())})
                                break
        finally:
            os.chdir(cwd)
            if frame_threads:
                cI_.cimaged11_omp_set_num_threads(1)
        # ---- read back what was saved
        final = gm.read_grain_file(ubifile)
        with contextlib.redirect_stdout(io.StringIO()):
            flt = cf_mod.columnfile(os.path.join(wd, "p.flt.new"))
        ok = True
        # the orientation line (#Rod) written above every matrix of the saved grain file is the Rodrigues vector of THAT matrix (a fresh
        # grain object made from the saved matrix gives the reference)
        rods = [[float(x) for x in line.split()[1:4]] for line in open(ubifile) if line.startswith("#Rod")]
        if len(rods) == len(final):
            for k, (rod, g_) in enumerate(zip(rods, final)):
                want_rod = np.asarray(gm.grain(np.array(g_.ubi, float)).Rod, float)
                if np.abs(np.asarray(rod) - want_rod).max() > 2e-5 * (1.0 + np.abs(want_rod).max()):
                    sh.violation("saved-file:orientation-line-is-not-that-of-the-saved-matrix", dict(case, grain=k), {"written": rod, "of_the_saved_matrix": want_rod})
                    ok = False
                    break
        if len(final) != ng:
            sh.violation("pipeline:number-of-grains", case, {"saved": len(final), "expected": ng}); ok = False
        elif tie:
            # saved in the order of the sort: put the saved grains back in the order of the grain file they started from
            final = [min(final, key=lambda g_: float(np.abs(g_.ubi - truth[k][0]).max())) for k in range(ng)]
        worst_u, worst_t = 0.0, 0.0
        if cubic and ok:
            # the cell is constrained to cubic and the orientation reduced to the canonical setting of the cubic group: the saved matrix is
            # an integer, determinant +1, metric-preserving re-indexing M of the true one; the true grain and hkl are mapped with it
            mapped, newpk = [], peaks.copy()
            for k in range(ng):
                Mf = np.dot(final[k].ubi, np.linalg.inv(truth[k][0]))
                M = np.round(Mf)
                if np.abs(Mf - M).max() > 1e-3 or abs(np.linalg.det(M) - 1) > 1e-9 or np.abs(np.dot(M, M.T) - np.eye(3)).max() > 1e-9:
                    sh.violation("refinement:saved-orientation-not-a-cubic-setting-of-the-true-grain", dict(case, grain=k), {"M": Mf}); ok = False
                    break
                mapped.append((np.dot(M, truth[k][0]), truth[k][1]))
                m = peaks[:, 3].astype(int) == k
                newpk[m, 4:7] = np.dot(M, peaks[m, 4:7].T).T
            if ok:
                truth, peaks = mapped, newpk
        for k in range(ng if ok else 0):
            ubi_t, t_t = truth[k]
            du = np.abs(final[k].ubi - ubi_t).max() / np.abs(ubi_t).max()
            dt = np.abs(final[k].translation - t_t).max()
            worst_u, worst_t = max(worst_u, du), max(worst_t, dt)
            if du > 1e-5:
                sh.violation("refinement:UBI-not-recovered", dict(case, grain=k), {"relative_error": float(du), "ubi": final[k].ubi, "truth": ubi_t}); ok = False; break
            if dt > 2.0:
                sh.violation("refinement:translation-not-recovered", dict(case, grain=k), {"error_um": float(dt), "translation": final[k].translation, "truth": t_t}); ok = False; break
        if ok:
            lab = flt.labels.astype(int)
            if tie and passes > 1:
                # the labels count the grains in the order of the file the last pass STARTED from (sorted by the pass before)
                prev = gm.read_grain_file(os.path.join(wd, "pass%d.ubi" % (passes - 2)))
                perm = np.array([int(np.argmin([np.abs(g_.ubi - truth[k][0]).max() for k in range(ng)])) for g_ in prev] + [-1])
                lab = perm[lab]
            if len(lab) != len(peaks) or not np.array_equal(lab, peaks[:, 3].astype(int)):
                nbad = int((lab != peaks[:, 3].astype(int)).sum()) if len(lab) == len(peaks) else -1
                sh.violation("assignment:peak-not-labelled-with-its-grain", case, {"n_wrong": nbad, "n_peaks": len(peaks)}); ok = False
        if ok:
            owned = peaks[:, 3] >= 0
            for name, col in (("h", 4), ("k", 5), ("l", 6)):
                if not np.array_equal(np.asarray(flt.getcolumn(name), float)[owned], peaks[owned, col]):
                    sh.violation("saved-file:integer-hkl-differs-from-simulation", dict(case, column=name),
                                 {"n_wrong": int((np.asarray(flt.getcolumn(name), float) != peaks[:, col]).sum())}); ok = False
                    break
        if ok:
            # the saved flt carries the refined values: hr,kr,lr close to integers, g-vectors = UB.hkl of the saved grains
            hr = np.array([flt.hr, flt.kr, flt.lr])[:, peaks[:, 3] >= 0]
            if np.abs(hr - np.round(hr)).max() > 5e-3:
                sh.violation("saved-file:real-hkl-far-from-integer", case, {"max": float(np.abs(hr - np.round(hr)).max())}); ok = False
            # ... and the per-grain angles: two-theta and eta of every peak as seen from the REFINED position of its grain (the simulated
            # ones, to 5e-3 degrees - a 50 um start error shows as 0.01 .. 0.3 degrees)
            if ok and not cubic and not frame_threads and not wrap360 and "tth_per_grain" in flt.titles:
                own = peaks[:, 3] >= 0
                dt_ = np.abs(np.asarray(flt.tth_per_grain, float)[own] - peaks[own, 7])
                de_ = np.abs((np.asarray(flt.eta_per_grain, float)[own] - peaks[own, 8] + 180.0) % 360.0 - 180.0)
                if dt_.max() > 5e-3 or (de_ * np.abs(np.sin(np.radians(peaks[own, 7])))).max() > 5e-3:
                    sh.violation("saved-file:per-grain-angles-are-not-those-seen-from-the-refined-position", case,
                                 {"max_dtth_deg": float(dt_.max()), "max_deta_deg": float(de_.max())}); ok = False
            for k in range(ng):
                m = lab == k
                gcalc = np.dot(np.linalg.inv(final[k].ubi), peaks[m, 4:7].T)
                gobs = np.array([flt.gx[m], flt.gy[m], flt.gz[m]])
                if np.abs(gobs - gcalc).max() > 2e-3 * np.abs(gcalc).max():
                    sh.violation("saved-file:g-vectors-inconsistent-with-saved-grain", dict(case, grain=k), {"max": float(np.abs(gobs - gcalc).max())}); ok = False
                    break
        sh.evaluations += 1
        start_err = max(np.abs(s_[0] - t_[0]).max() / np.abs(t_[0]).max() for s_, t_ in zip(start, truth))
        if start_correct < 1.0 or start_err > 10 * max(worst_u, 1e-12):
            sh.nontrivial += 1
        sh.counters["max_ubi_rel_err_1e9"] = max(sh.counters.get("max_ubi_rel_err_1e9", 0), int(worst_u * 1e9))
        sh.counters["max_translation_err_nm"] = max(sh.counters.get("max_translation_err_nm", 0), int(worst_t * 1e3))
        sh.outcomes.add((ng, omfloat, start_correct == 1.0))
        return {"npeaks": len(peaks), "start_fraction_correct": start_correct, "ubi_rel_err": worst_u, "translation_err_um": worst_t}
    finally:
        shutil.rmtree(wd, ignore_errors=True)


def _mods():
    from ImageD11 import transform as tr, grain as gm, parameters as P, columnfile as cf_mod
    root = os.environ["VT_ROOT"]
    sp = os.path.join(root, "tree", "scripts")
    if sp not in sys.path:
        sys.path.insert(0, sp)
    import makemap as makemap_mod
    return tr, gm, P, cf_mod, makemap_mod


def run_shard(desc):
    if desc[0] == "callers":
        # score_and_refine (behind refinegrains.refine) is declared threadsafe: two refinements in two python threads are inside it at once
        from vt.props import c06
        return c06._run_callers(("callers",))
    if desc[0] == "grainfile":
        return _run_grainfile(desc)
    kind, tier, gi, ng, omfloat = desc
    sh = Shard()
    pars = geometries(tier)[gi]
    case = {"tier": tier, "geometry": gi, "ngrains": ng, "omega_float": omfloat, "seed": seed_of(), "start_has_translations": "mixed" if kind == "pipe_mixedstart" else kind != "pipe_nostart",
            "cubic_constraint": kind == "pipe_cubic", "refinepositions_calls_on_one_object": int(kind[11:]) if kind.startswith("pipe_repeat") else 0,
            "grains_not_in_the_grain_file": 1 if kind == "pipe_missing" else 0, "cell_scale": 30.0 if kind == "pipe_bigcell" else 1.0,
            "omega_written_0_to_360": kind == "pipe_wrap360", "legacy_column_names": kind == "pipe_legacy",
            "frame_pairs_threads": int(kind[11:]) if kind.startswith("pipe_frames") else 0, "second_grain_is_a_subgrain_of_the_first": kind == "pipe_subgrain", "grains_tie_on_number_of_peaks": kind == "pipe_tie",
            "pars": {k: v for k, v in pars.items() if not k.startswith("cell")}}
    info = run_case(sh, _mods(), pars, ng, omfloat, case, with_translation=case["start_has_translations"], cubic=(kind == "pipe_cubic"),
                    repeat=case["refinepositions_calls_on_one_object"], unlisted=case["grains_not_in_the_grain_file"], cellscale=case["cell_scale"], wrap360=case["omega_written_0_to_360"],
                    legacy=case["legacy_column_names"], frame_threads=case["frame_pairs_threads"], subgrain=case["second_grain_is_a_subgrain_of_the_first"], tie=case["grains_tie_on_number_of_peaks"])
    sh.sample(dict(case, **{k: v for k, v in (info or {}).items()}), limit=1)
    return sh


def _run_grainfile(desc):
    """The starting grain file of the pipeline, every pattern of known / unknown positions for 1..3 grains (refined grains and newly
    indexed ones in one file): what is read back is what was written, a grain written without a position has none, and refinegrains starts
    such a grain at t_x, t_y, t_z of the parameter file"""
    tr, gm, P, cf_mod, makemap_mod = _mods()
    import ImageD11.refinegrains as RG
    sh = Shard()
    truth = true_grains(3, seed_of())
    ta, tb = np.array([120.5, -340.25, 77.0]), np.array([-15.0, 8.5, -260.75])
    pars = geometries("quick")[0]
    wd = os.path.join(WORK, "c09_gf_%d" % os.getpid())
    os.makedirs(wd, exist_ok=True)
    try:
        peaks = simulate(tr, pars, truth[:1])
        write_inputs(wd, pars, peaks, truth[:1], gm, P)
        for n in (1, 2, 3):
            for pat in itertools.product((None, ta, tb), repeat=n):
                case = {"kind": "grainfile", "positions": [None if t is None else list(t) for t in pat]}
                fn = os.path.join(wd, "mixed.ubi")
                gm.write_grain_file(fn, [gm.grain(truth[k][0], translation=pat[k]) for k in range(n)])
                back = gm.read_grain_file(fn)
                sh.evaluations += 1
                sh.states += 1
                sh.nontrivial += any(t is None for t in pat) and any(t is not None for t in pat)
                sh.outcomes.add(tuple(t is None for t in pat))
                bad = len(back) != n
                for k in range(0 if bad else n):
                    bt = back[k].translation
                    if (pat[k] is None) != (bt is None) or (bt is not None and np.abs(np.asarray(bt) - pat[k]).max() > 1e-3):
                        bad = True
                    if np.abs(back[k].ubi - truth[k][0]).max() > 1e-6 * np.abs(truth[k][0]).max():
                        bad = True
                if bad:
                    sh.violation("grain-file:positions-read-back-differ-from-those-written", case,
                                 {"read": [None if g.translation is None else list(g.translation) for g in back]})
                    continue
                with contextlib.redirect_stdout(io.StringIO()):
                    o = RG.refinegrains(tolerance=0.05, OmFloat=False)
                    o.loadparameters(os.path.join(wd, "g.par"))
                    o.parameterobj.set_parameters({"t_x": 3.0, "t_y": -4.0, "t_z": 5.0})
                    o.loadfiltered(os.path.join(wd, "p.flt"))
                    o.readubis(fn)
                    o.generate_grains()
                for k, gname in enumerate(o.grainnames):
                    want = np.array([3.0, -4.0, 5.0]) if pat[k] is None else pat[k]
                    got = np.asarray(o.grains[(gname, o.scannames[0])].translation, float)
                    if np.abs(got - want).max() > 1e-3:
                        sh.violation("refinegrains:grain-does-not-start-where-the-grain-file-puts-it", dict(case, grain=k), {"got": got, "expected": want})
                        break
    finally:
        shutil.rmtree(wd, ignore_errors=True)
    return sh


def replay(case):
    if case.get("kind") == "grainfile":
        return _run_grainfile(("grainfile",))
    if case.get("kind") == "callers":
        from vt.props import c06
        return c06.replay(case)
    os.environ["VERIF_SEED"] = str(case.get("seed", 0))
    sh = Shard()
    pars = geometries(case["tier"])[case["geometry"]]
    run_case(sh, _mods(), pars, case["ngrains"], case["omega_float"], case, with_translation=case.get("start_has_translations", True),
             cubic=case.get("cubic_constraint", False), repeat=case.get("refinepositions_calls_on_one_object", 0),
             unlisted=case.get("grains_not_in_the_grain_file", 0), cellscale=case.get("cell_scale", 1.0), wrap360=case.get("omega_written_0_to_360", False),
             legacy=case.get("legacy_column_names", False), frame_threads=case.get("frame_pairs_threads", 0),
             subgrain=case.get("second_grain_is_a_subgrain_of_the_first", False), tie=case.get("grains_tie_on_number_of_peaks", False))
    return (not sh.violations), {"violations": sh.violations[:3]}
