"""E0: rebuild everything the checks need from /repo's *current working tree*.

Nothing is imported from /repo directly: /repo/ImageD11/_cImageD11*.so may be stale with
respect to /repo/src.  `ensure()` hashes the sources and (re)creates, under
/verif/.cache/<hash>/ :

  tree/ImageD11/...        copy of the python package + freshly built f2py extension
  tree/scripts/...         copy of /repo/scripts (makemap.py is driven by C09)
  lib/libid11_plain.so     same C sources as a ctypes library (hidden symbols made visible)
  lib/libid11_asan.so      -fsanitize=address,undefined
  lib/libid11_zero.so      -O0 -ftrivial-auto-var-init=zero
  lib/libid11_pat.so       -O0 -ftrivial-auto-var-init=pattern
  lib/libid11_vrt.so       -fsanitize=thread instrumentation linked against vt/c/vrt.c
  numba/                   NUMBA_CACHE_DIR for this tree version

Run under /venv/bin/python.
"""
from __future__ import annotations
import hashlib, os, shutil, subprocess, sys, sysconfig, time, fcntl, glob, json
from concurrent.futures import ThreadPoolExecutor

REPO = os.environ.get("VT_REPO", "/repo")
VERIF = os.path.dirname(os.path.dirname(os.path.abspath(__file__)))
CACHE = os.path.join(VERIF, ".cache")
PY = "/venv/bin/python"

CSRC = ["blobs.c", "cdiffraction.c", "cimaged11utils.c", "closest.c", "connectedpixels.c",
        "darkflat.c", "localmaxlabel.c", "sparse_image.c", "splat.c"]
ENGINE_C = ["vrt.c", "shims.c"]
KEEP = 6  # cache entries kept (entries younger than 30 min are never pruned: concurrent runs)


def _files():
    out = []
    for pat in ("src/*.c", "src/*.h", "src/*.pyf"):
        out += glob.glob(os.path.join(REPO, pat))
    for root, dirs, files in os.walk(os.path.join(REPO, "ImageD11")):
        dirs[:] = [d for d in dirs if d != "__pycache__"]
        for f in files:
            if f.endswith(".py"):
                out.append(os.path.join(root, f))
    out += glob.glob(os.path.join(REPO, "scripts", "*.py"))
    out += [os.path.join(VERIF, "vt", "c", f) for f in ENGINE_C]
    out.append(os.path.abspath(__file__))
    return sorted(out)


def tree_hash():
    h = hashlib.sha256()
    for f in _files():
        h.update(f.encode())
        with open(f, "rb") as fh:
            h.update(hashlib.sha256(fh.read()).digest())
    return h.hexdigest()[:16]


def _run(cmd, cwd=None, env=None):
    r = subprocess.run(cmd, cwd=cwd, env=env, stdout=subprocess.PIPE, stderr=subprocess.STDOUT, text=True)
    if r.returncode != 0:
        sys.stderr.write("BUILD FAILED: %s\n%s\n" % (" ".join(cmd), r.stdout))
        raise SystemExit(2)
    return r.stdout


def _copy_tree(dst):
    os.makedirs(dst, exist_ok=True)
    _run(["rsync", "-a", "--delete", "--exclude", "__pycache__", "--exclude", "*.so", "--exclude", "*.pyc",
          os.path.join(REPO, "ImageD11") + "/", os.path.join(dst, "ImageD11") + "/"])
    _run(["rsync", "-a", "--delete", "--exclude", "__pycache__",
          os.path.join(REPO, "scripts") + "/", os.path.join(dst, "scripts") + "/"])


def _compile_many(jobs):
    with ThreadPoolExecutor(16) as ex:
        list(ex.map(lambda j: _run(j), jobs))


def _build_ext(root):
    import numpy, numpy.f2py
    bdir = os.path.join(root, "build_ext")
    os.makedirs(bdir, exist_ok=True)
    shutil.copy(os.path.join(REPO, "src", "_cImageD11.pyf"), bdir)
    _run([PY, "-m", "numpy.f2py", "_cImageD11.pyf"], cwd=bdir)
    f2pyinc = os.path.join(os.path.dirname(numpy.f2py.__file__), "src")
    inc = ["-I", os.path.join(REPO, "src"), "-I", numpy.get_include(), "-I", f2pyinc,
           "-I", sysconfig.get_paths()["include"]]
    flags = ["-fPIC", "-O2", "-fopenmp", "-fno-strict-aliasing", "-DNDEBUG", "-w"]
    srcs = [os.path.join(bdir, "_cImageD11module.c"), os.path.join(f2pyinc, "fortranobject.c")] + \
           [os.path.join(REPO, "src", c) for c in CSRC]
    objs, jobs = [], []
    for s in srcs:
        o = os.path.join(bdir, os.path.basename(s)[:-2] + ".o")
        objs.append(o)
        jobs.append(["gcc"] + flags + inc + ["-c", s, "-o", o])
    _compile_many(jobs)
    ext = sysconfig.get_config_var("EXT_SUFFIX")
    out = os.path.join(root, "tree", "ImageD11", "_cImageD11" + ext)
    _run(["gcc", "-shared", "-fopenmp"] + objs + ["-o", out, "-lm"])
    shutil.rmtree(bdir)


# gcc's visibility("hidden") on DLL_LOCAL functions would hide them from dlsym; a function-like
# macro turns the attribute argument into the harmless `unused`, the code itself is untouched.
VIS = "-Dvisibility(x)=unused"


def _build_lib(root, name, cflags, ldflags, extra_src=(), sanit_thread=False):
    bdir = os.path.join(root, "build_" + name)
    os.makedirs(bdir, exist_ok=True)
    inc = ["-I", os.path.join(REPO, "src")]
    objs, jobs = [], []
    for c in CSRC:
        o = os.path.join(bdir, c[:-2] + ".o")
        objs.append(o)
        jobs.append(["gcc", "-fPIC", "-w", VIS] + cflags + inc + ["-c", os.path.join(REPO, "src", c), "-o", o])
    for s, fl in extra_src:
        o = os.path.join(bdir, os.path.basename(s)[:-2] + ".o")
        objs.append(o)
        jobs.append(["gcc", "-fPIC", "-w"] + fl + inc + ["-c", s, "-o", o])
    _compile_many(jobs)
    out = os.path.join(root, "lib", "libid11_%s.so" % name)
    _run(["gcc", "-shared"] + objs + ["-o", out] + ldflags + ["-lm"])
    shutil.rmtree(bdir)


def _build_all(root):
    t0 = time.time()
    os.makedirs(os.path.join(root, "lib"), exist_ok=True)
    os.makedirs(os.path.join(root, "numba"), exist_ok=True)
    _copy_tree(os.path.join(root, "tree"))
    cdir = os.path.join(VERIF, "vt", "c")
    shims = os.path.join(cdir, "shims.c")
    with ThreadPoolExecutor(6) as ex:
        futs = [
            ex.submit(_build_ext, root),
            ex.submit(_build_lib, root, "plain", ["-O2", "-fopenmp"], ["-fopenmp"], [(shims, ["-O2"])]),
            ex.submit(_build_lib, root, "asan",
                      ["-O1", "-g", "-fopenmp", "-fsanitize=address,undefined", "-fno-sanitize-recover=all",
                       "-fno-omit-frame-pointer"],
                      ["-fopenmp", "-fsanitize=address,undefined"], [(shims, ["-O1", "-g"])]),
            ex.submit(_build_lib, root, "zero", ["-O0", "-fopenmp", "-ftrivial-auto-var-init=zero"], ["-fopenmp"],
                      [(shims, ["-O0"])]),
            ex.submit(_build_lib, root, "pat", ["-O0", "-fopenmp", "-ftrivial-auto-var-init=pattern"], ["-fopenmp"],
                      [(shims, ["-O0"])]),
            ex.submit(_build_lib, root, "vrt",
                      ["-O0", "-g", "-fopenmp", "-fsanitize=thread", "-fno-omit-frame-pointer", "-Dmalloc=vrt_malloc",
                       "-Dcalloc=vrt_calloc", "-Drealloc=vrt_realloc", "-Dfree=vrt_free"], [],
                      [(os.path.join(cdir, "vrt.c"), ["-O2", "-g", "-fno-omit-frame-pointer"]), (shims, ["-O0"])]),
        ]
        for f in futs:
            f.result()
    with open(os.path.join(root, "OK"), "w") as fh:
        json.dump({"built_s": time.time() - t0, "at": time.time()}, fh)


def ensure(verbose=False):
    """Return the cache root for the current /repo working tree, building it if needed."""
    os.makedirs(CACHE, exist_ok=True)
    h = tree_hash()
    root = os.path.join(CACHE, h)
    if os.path.exists(os.path.join(root, "OK")):
        os.utime(os.path.join(root, "OK"))
        return root
    with open(os.path.join(CACHE, "lock"), "w") as lk:
        fcntl.flock(lk, fcntl.LOCK_EX)
        if not os.path.exists(os.path.join(root, "OK")):
            if os.path.exists(root):
                shutil.rmtree(root)
            t0 = time.time()
            _build_all(root)
            if verbose:
                print("vt.build: built %s in %.1fs" % (h, time.time() - t0), flush=True)
            # prune old entries
            ents = [os.path.join(CACHE, d) for d in os.listdir(CACHE)
                    if os.path.isdir(os.path.join(CACHE, d)) and d != h]
            ents.sort(key=lambda d: os.path.getmtime(os.path.join(d, "OK")) if os.path.exists(os.path.join(d, "OK")) else 0)
            for d in ents[:-(KEEP - 1)] if KEEP > 1 else ents:
                okf = os.path.join(d, "OK")
                if os.path.exists(okf) and time.time() - os.path.getmtime(okf) < 1800:
                    continue
                shutil.rmtree(d, ignore_errors=True)
    return root


def env_for(root, nthreads=1):
    e = dict(os.environ)
    # VT_TREE: a diagnostic copy of the overlay tree (tools/ccov.py) takes precedence
    e["PYTHONPATH"] = os.environ.get("VT_TREE", os.path.join(root, "tree")) + os.pathsep + VERIF
    e["NUMBA_CACHE_DIR"] = os.path.join(root, "numba")
    e["PYTHONHASHSEED"] = "0"
    e["OMP_NUM_THREADS"] = str(nthreads)
    e["NUMBA_NUM_THREADS"] = e.get("NUMBA_NUM_THREADS", "16")
    e["NUMBA_THREADING_LAYER"] = "omp" if False else e.get("NUMBA_THREADING_LAYER", "workqueue")
    e["OMP_WAIT_POLICY"] = "passive"
    e["OPENBLAS_NUM_THREADS"] = "1"
    e["MKL_NUM_THREADS"] = "1"
    e["VT_ROOT"] = root
    e["VT_REPO"] = REPO
    e["HDF5_USE_FILE_LOCKING"] = "FALSE"
    e["PYTHONWARNINGS"] = "ignore"
    return e


if __name__ == "__main__":
    r = ensure(verbose=True)
    print(r)
