"""setup_cmd: build the cache for the current /repo tree and pre-warm the numba cache."""
import os, subprocess, sys, time
sys.path.insert(0, os.path.dirname(os.path.dirname(os.path.abspath(__file__))))
from vt import build

def main():
    t0 = time.time()
    root = build.ensure(verbose=True)
    env = build.env_for(root)
    code = ("import ImageD11, ImageD11.cImageD11, "
            "ImageD11.sparseframe; print('imported', ImageD11.__file__)")
    r = subprocess.run([build.PY, "-c", code], env=env, stdout=subprocess.PIPE, stderr=subprocess.STDOUT, text=True)
    print(r.stdout[-2000:])
    # pre-compile the numba functions each check uses (serially: numba's disk cache is not safe for concurrent writers)
    import glob
    wenv = dict(env, VT_CHILD="1")
    for f in sorted(glob.glob(os.path.join(os.path.dirname(os.path.abspath(__file__)), "props", "c*.py"))):
        if "def warm(" in open(f).read():
            mod = "vt.props." + os.path.basename(f)[:-3]
            rr = subprocess.run([build.PY, "-c", "from vt import runner; runner._warm(%r)" % mod], env=wenv,
                                stdout=subprocess.PIPE, stderr=subprocess.STDOUT, text=True)
            print("warm", mod, rr.returncode, rr.stdout[-300:])
    print("setup done in %.1fs -> %s" % (time.time() - t0, root))
    return 0 if r.returncode == 0 else 1

if __name__ == "__main__":
    sys.exit(main())
