/* helpers compiled into every ctypes build of the kernels */
#include <stdlib.h>
#include <string.h>
/* exact-size heap blocks: with libasan preloaded these come from the intercepted malloc, so a
 * one-byte overrun of an argument array lands in a red zone */
void *vt_alloc(size_t n) { return malloc(n ? n : 1); }
void vt_free(void *p) { free(p); }
int vt_abi(void) { return 1; }
