/* vrt: a controlled-scheduler runtime that replaces libgomp + libtsan.
 *
 * The kernels in /repo/src are compiled unchanged with `gcc -fopenmp -fsanitize=thread -c`.
 * That leaves calls to GOMP_*, omp_* and __tsan_* undefined; this file defines them all.
 * OpenMP threads become ucontext coroutines on ONE OS thread.  Every instrumented access to
 * shared memory whose 4-byte word is in the conflict filter, and every synchronisation
 * operation, is a scheduling point.  At a point the enabled threads are ordered "current
 * thread first (if enabled), then ascending id"; the schedule (array of small ints supplied by
 * the driver) picks one; beyond the supplied prefix choice 0 is taken.
 *
 * While running, a per-word table records which threads read/wrote each word in the current
 * phase (phase = interval between region start / barrier releases).  A word touched by two
 * threads in one phase with at least one write is a *conflict*; conflicts that are not yet in
 * the filter are reported to the driver, which adds them and restarts the exploration.
 */
#define _GNU_SOURCE
#include <ucontext.h>
#include <stdlib.h>
#include <stdio.h>
#include <string.h>
#include <stdint.h>

#define MAXT 8
#define STACKSZ (512 * 1024)
enum { ST_RUN = 0, ST_BARRIER = 1, ST_DONE = 2, ST_CRIT = 3 };
typedef struct {
    ucontext_t ctx;
    char *stack;
    int state;
    void (*fn)(void *);
    void *data;
    int dyn_gen;
} lthread;
static lthread T[MAXT];
static ucontext_t main_ctx;
static int nthr_cfg = 2, nthr = 0, cur = -1, active = 0;
static int callers_mode = 0; /* two independent kernel CALLS run as the logical threads (concurrent python callers) */

/* schedule */
static int *sched = NULL;
static int sched_len = 0;
static int npoints = 0;
#define MAXPTS (1 << 22)
static unsigned char *pt_nen = NULL, *pt_choice = NULL, *pt_cur_enabled = NULL;
static int status = 0; /* 0 ok, 1 diverged (choice out of range), 2 deadlock, 4 point overflow */
static long nregions = 0;

/* full access log (optional) */
typedef struct {
    uintptr_t addr;
    unsigned char sz, w, tid;
    unsigned int phase;
} acc_t;
static acc_t *acclog = NULL;
static long nacc = 0, acccap = 0;
static int log_acc = 0;
static long nacc_total = 0;

/* per word access table, for conflict detection */
#define WT_BITS 20
#define WT_SIZE (1u << WT_BITS)
typedef struct {
    uintptr_t word;
    unsigned int epoch, phase;
    unsigned char rmask, wmask, reported;
} went;
static went *wt = NULL;
static unsigned int epoch = 0, phase = 0;
static long wt_used = 0;
static int wt_overflow = 0;

/* conflict filter: set of words; mode 0 = every access is a point, 1 = only words in filter */
#define FT_BITS 16
#define FT_SIZE (1u << FT_BITS)
static uintptr_t *ft = NULL;
static long ft_n = 0;
static int filter_mode = 1;

/* newly detected conflicts in this execution */
#define MAXNEW 4096
static uintptr_t newconf[MAXNEW];
static int nnew = 0;
static long nconf_events = 0; /* conflicting access events (in filter or not) */

static int barrier_count = 0, crit_owner = -1;
static long stray_writes = 0;
static uintptr_t stray_first = 0;
static int check_strays = 0;
static int nrg, blk_overflow;
static unsigned char *kernel_top;
#define MAXDYN 64
static struct {
    long next, end, incr, chunk;
    int inited;
} dyn[MAXDYN];

static inline unsigned int hashw(uintptr_t w, int bits) { return (unsigned int)((w * 0x9E3779B97F4A7C15ull) >> (64 - bits)); }

static int ft_has(uintptr_t w) {
    if (!ft) return 0;
    unsigned int h = hashw(w, FT_BITS);
    while (ft[h]) {
        if (ft[h] == w) return 1;
        h = (h + 1) & (FT_SIZE - 1);
    }
    return 0;
}
void vrt_filter_clear(void) {
    if (!ft) ft = calloc(FT_SIZE, sizeof(uintptr_t));
    memset(ft, 0, FT_SIZE * sizeof(uintptr_t));
    ft_n = 0;
}
void vrt_filter_add(uintptr_t w) {
    if (!ft) vrt_filter_clear();
    if (ft_has(w) || ft_n > FT_SIZE / 2) return;
    unsigned int h = hashw(w, FT_BITS);
    while (ft[h]) h = (h + 1) & (FT_SIZE - 1);
    ft[h] = w;
    ft_n++;
}
long vrt_filter_size(void) { return ft_n; }
void vrt_filter_mode(int m) { filter_mode = m; }

void vrt_config(int nthreads, int *schedule, int len, int logacc) {
    nthr_cfg = nthreads;
    sched = schedule;
    sched_len = len;
    log_acc = logacc;
}
static size_t arena_top;
static int nblk;
void vrt_reset(void) {
    npoints = 0;
    nacc = 0;
    nacc_total = 0;
    status = 0;
    nnew = 0;
    nconf_events = 0;
    nregions = 0;
    wt_used = 0;
    wt_overflow = 0;
    nrg = 0;
    kernel_top = NULL;
    blk_overflow = 0;
    arena_top = 0;
    nblk = 0;
    epoch++;
    phase = 0;
    if (!pt_nen) {
        pt_nen = malloc(MAXPTS);
        pt_choice = malloc(MAXPTS);
        pt_cur_enabled = malloc(MAXPTS);
    }
    if (!wt) wt = calloc(WT_SIZE, sizeof(went));
    if (epoch == 0) { /* wrapped */
        memset(wt, 0, WT_SIZE * sizeof(went));
        epoch = 1;
    }
}
int vrt_npoints(void) { return npoints; }
int vrt_status(void) { return status | (wt_overflow ? 8 : 0); }
long vrt_nregions(void) { return nregions; }
void vrt_get_points(unsigned char *nen, unsigned char *ch, unsigned char *ce) {
    int n = npoints < MAXPTS ? npoints : MAXPTS;
    memcpy(nen, pt_nen, n);
    memcpy(ch, pt_choice, n);
    memcpy(ce, pt_cur_enabled, n);
}
long vrt_nacc(void) { return nacc; }
long vrt_nacc_total(void) { return nacc_total; }
long vrt_nconf_events(void) { return nconf_events; }
void vrt_get_acc(uintptr_t *addr, unsigned char *sz, unsigned char *w, unsigned char *tid, unsigned int *ph) {
    for (long i = 0; i < nacc; i++) {
        addr[i] = acclog[i].addr;
        sz[i] = acclog[i].sz;
        w[i] = acclog[i].w;
        tid[i] = acclog[i].tid;
        ph[i] = acclog[i].phase;
    }
}
int vrt_nnew(void) { return nnew; }
void vrt_get_new(uintptr_t *out) { memcpy(out, newconf, nnew * sizeof(uintptr_t)); }
long vrt_words_touched(void) { return wt_used; }


/* ---- region-boundary state hashing (for pruning equivalent continuations) ------------------
 * At every GOMP_parallel entry made by the master all logical threads of earlier regions are
 * dead, so the future of the execution is a function of memory only: the argument buffers the
 * driver registered, heap blocks the kernel allocated (malloc/calloc/realloc are redirected here
 * when the kernels are compiled for vrt) and the master's stack between this call and the frame
 * of the kernel entry function.  Hashing more than needed only costs merging, never soundness. */
#define MAXBUF 32
static struct { const unsigned char *p; size_t n; } regbuf[MAXBUF];
static int nregbuf = 0;
void vrt_register_clear(void) { nregbuf = 0; }
void vrt_register(const void *p, size_t n) { if (nregbuf < MAXBUF) { regbuf[nregbuf].p = p; regbuf[nregbuf].n = n; nregbuf++; } }
#define MAXBLK 256
static struct { unsigned char *p; size_t n; } blk[MAXBLK];
static void blk_add(void *p, size_t n) { if (!p) return; if (nblk < MAXBLK) { blk[nblk].p = p; blk[nblk].n = n; nblk++; } else blk_overflow = 1; }
static void blk_del(void *p) { for (int i = 0; i < nblk; i++) if (blk[i].p == p) { blk[i] = blk[nblk - 1]; nblk--; return; } }
/* The kernels' heap is a private arena that is rewound at every vrt_reset(): the k-th allocation of an execution gets the same
 * address in every execution that allocates in the same order, so the explorer's conflict set (a set of addresses) reaches a
 * fixpoint also for kernels that malloc.  Blocks are zero-filled (deterministic content); free() only rewinds when the block is
 * the most recent one.  A block that outlives the execution (a pointer kept in a static by the code under test) dangles after the
 * rewind - the resulting interference is exactly what the two-callers exploration is there to expose. */
#define ARENA_BYTES ((size_t)1 << 28)
static unsigned char *arena = NULL;
static void *arena_get(size_t n) {
    if (!arena) arena = malloc(ARENA_BYTES);
    size_t need = (n ? n : 1);
    need = (need + 63) & ~(size_t)63;
    if (!arena || arena_top + need > ARENA_BYTES) { void *p = calloc(1, need); return p; } /* fall back to the C heap */
    void *p = arena + arena_top;
    arena_top += need;
    memset(p, 0, need);
    return p;
}
static int in_arena(void *p) { return arena && (unsigned char *)p >= arena && (unsigned char *)p < arena + ARENA_BYTES; }
void *vrt_malloc(size_t n) { void *p = arena_get(n); blk_add(p, n); return p; }
void *vrt_calloc(size_t a, size_t b) { void *p = arena_get(a * b); blk_add(p, a * b); return p; }
void vrt_free(void *p) {
    if (!p) return;
    size_t old = 0;
    for (int i = 0; i < nblk; i++) if (blk[i].p == p) old = blk[i].n;
    blk_del(p);
    if (!in_arena(p)) { free(p); return; }
    size_t need = ((old ? old : 1) + 63) & ~(size_t)63;
    if ((unsigned char *)p + need == arena + arena_top) arena_top -= need;
}
void *vrt_realloc(void *q, size_t n) {
    size_t old = 0;
    for (int i = 0; i < nblk; i++) if (blk[i].p == q) old = blk[i].n;
    void *p = arena_get(n);
    if (q) { memcpy(p, q, old < n ? old : n); blk_del(q); if (!in_arena(q)) free(q); }
    blk_add(p, n);
    return p;
}
int vrt_live_blocks(void) { return nblk; }

#define MAXRG 64
static int rg_point[MAXRG];
static uint64_t rg_hash[MAXRG];
static inline uint64_t hmix(uint64_t h, const unsigned char *p, size_t n) {
    size_t i = 0;
    for (; i + 8 <= n; i += 8) { uint64_t v; memcpy(&v, p + i, 8); h = (h ^ v) * 0x100000001b3ull; h ^= h >> 29; }
    for (; i < n; i++) { h = (h ^ p[i]) * 0x100000001b3ull; }
    return h;
}
static void record_region_state(unsigned char *sp_lo, void *fn) {
    if (nrg >= MAXRG) return;
    uint64_t h = 0xcbf29ce484222325ull ^ (uint64_t)(uintptr_t)fn;
    for (int i = 0; i < nregbuf; i++) h = hmix(h, regbuf[i].p, regbuf[i].n);
    for (int i = 0; i < nblk; i++) { h = hmix(h, (unsigned char *)&blk[i].n, sizeof(size_t)); h = hmix(h, blk[i].p, blk[i].n); }
    if (kernel_top && sp_lo && kernel_top > sp_lo && (size_t)(kernel_top - sp_lo) < (1u << 20)) h = hmix(h, sp_lo, (size_t)(kernel_top - sp_lo));
    else h ^= 0x5bd1e995u * (uint64_t)(nrg + 1) + (uint64_t)npoints * 0x9E3779B97F4A7C15ull; /* unknown stack: never merge */
    if (blk_overflow) h ^= (uint64_t)npoints * 0x9E3779B97F4A7C15ull + 1;
    rg_point[nrg] = npoints;
    rg_hash[nrg] = h;
    nrg++;
}
/* a write is "known" if it lands in a registered argument buffer or in a heap block the kernel allocated itself */
static int inside_known_memory(uintptr_t a, int sz) {
    for (int i = 0; i < nregbuf; i++)
        if (a >= (uintptr_t)regbuf[i].p && a + sz <= (uintptr_t)regbuf[i].p + regbuf[i].n) return 1;
    for (int i = 0; i < nblk; i++)
        if (a >= (uintptr_t)blk[i].p && a + sz <= (uintptr_t)blk[i].p + blk[i].n) return 1;
    for (int t = 0; t < nthr && t < MAXT; t++)
        if (T[t].stack && a >= (uintptr_t)T[t].stack && a < (uintptr_t)T[t].stack + STACKSZ) return 1;
    return 0;
}
void vrt_check_strays(int on) { check_strays = on; stray_writes = 0; stray_first = 0; }
long vrt_stray_writes(void) { return stray_writes; }
uintptr_t vrt_stray_first(void) { return stray_first; }
int vrt_nrg(void) { return nrg; }
void vrt_get_rg(int *pts, uint64_t *hs) { memcpy(pts, rg_point, nrg * sizeof(int)); memcpy(hs, rg_hash, nrg * sizeof(uint64_t)); }

static int enabled(int t) {
    if (T[t].state == ST_RUN) return 1;
    if (T[t].state == ST_CRIT) return crit_owner < 0;
    return 0;
}

static void point(void) {
    int order[MAXT], n = 0, ce = 0;
    if (cur >= 0 && enabled(cur)) {
        order[n++] = cur;
        ce = 1;
    }
    for (int t = 0; t < nthr; t++)
        if (t != cur && enabled(t)) order[n++] = t;
    if (n == 0) { /* all done, or deadlock: back to the master */
        swapcontext(&T[cur].ctx, &main_ctx);
        return;
    }
    int c = 0;
    if (n > 1) {
        if (npoints < sched_len) {
            c = sched[npoints];
            if (c >= n || c < 0) {
                status |= 1;
                c = 0;
            }
        }
        if (npoints < MAXPTS) {
            pt_nen[npoints] = (unsigned char)n;
            pt_choice[npoints] = (unsigned char)c;
            pt_cur_enabled[npoints] = (unsigned char)ce;
        } else
            status |= 4;
        npoints++;
    }
    int nxt = order[c];
    if (nxt != cur) {
        int prev = cur;
        cur = nxt;
        swapcontext(&T[prev].ctx, &T[nxt].ctx);
    }
}

/* returns 1 if this access conflicts with an earlier access of another thread in this phase */
static int note_access(uintptr_t w, int iswrite) {
    unsigned int h = hashw(w, WT_BITS);
    unsigned char bit = (unsigned char)(1u << cur);
    for (unsigned int probe = 0; probe < WT_SIZE; probe++) {
        went *e = &wt[h];
        if (e->epoch != epoch) { /* free slot */
            if (wt_used > (long)(WT_SIZE * 3 / 4)) {
                wt_overflow = 1;
                return 0;
            }
            e->epoch = epoch;
            e->word = w;
            e->phase = phase;
            e->rmask = iswrite ? 0 : bit;
            e->wmask = iswrite ? bit : 0;
            e->reported = 0;
            wt_used++;
            return 0;
        }
        if (e->word == w) {
            if (e->phase != phase) {
                e->phase = phase;
                e->rmask = 0;
                e->wmask = 0;
            }
            int conflict = 0;
            unsigned char others_w = e->wmask & (unsigned char)~bit;
            unsigned char others_r = e->rmask & (unsigned char)~bit;
            if (others_w || (iswrite && others_r)) conflict = 1;
            if (iswrite)
                e->wmask |= bit;
            else
                e->rmask |= bit;
            if (conflict) {
                nconf_events++;
                if (!e->reported && !ft_has(w)) {
                    e->reported = 1;
                    if (nnew < MAXNEW) newconf[nnew++] = w;
                }
            }
            return conflict;
        }
        h = (h + 1) & (WT_SIZE - 1);
    }
    wt_overflow = 1;
    return 0;
}

static int inside_known_memory(uintptr_t a, int sz);
static void access_hook(void *p, int sz, int w) {
    if (!active || cur < 0) return;
    uintptr_t a = (uintptr_t)p;
    if (a >= (uintptr_t)T[cur].stack && a < (uintptr_t)T[cur].stack + STACKSZ) return; /* own stack */
    if (w && check_strays && !inside_known_memory(a, sz)) {
        if (!stray_writes) stray_first = a;
        stray_writes++;
    }
    nacc_total++;
    if (log_acc) {
        if (nacc == acccap) {
            acccap = acccap ? acccap * 2 : 4096;
            acclog = realloc(acclog, acccap * sizeof(acc_t));
        }
        acclog[nacc].addr = a;
        acclog[nacc].sz = (unsigned char)sz;
        acclog[nacc].w = (unsigned char)w;
        acclog[nacc].tid = (unsigned char)cur;
        acclog[nacc].phase = phase;
        nacc++;
    }
    uintptr_t w0 = a >> 2, w1 = (a + (sz > 0 ? sz - 1 : 0)) >> 2;
    int ispoint = (filter_mode == 0);
    for (uintptr_t ww = w0; ww <= w1; ww++)
        if (filter_mode != 0 && ft_has(ww)) ispoint = 1;
    /* the scheduling point comes BEFORE the access takes effect, so the table is updated after */
    if (ispoint) point();
    for (uintptr_t ww = w0; ww <= w1; ww++) note_access(ww, w);
}
void __tsan_init(void) {}
void __tsan_func_entry(void *pc) {
    (void)pc;
}
void __tsan_func_exit(void) {}
void __tsan_read1(void *p) { access_hook(p, 1, 0); }
void __tsan_read2(void *p) { access_hook(p, 2, 0); }
void __tsan_read4(void *p) { access_hook(p, 4, 0); }
void __tsan_read8(void *p) { access_hook(p, 8, 0); }
void __tsan_read16(void *p) { access_hook(p, 16, 0); }
void __tsan_write1(void *p) { access_hook(p, 1, 1); }
void __tsan_write2(void *p) { access_hook(p, 2, 1); }
void __tsan_write4(void *p) { access_hook(p, 4, 1); }
void __tsan_write8(void *p) { access_hook(p, 8, 1); }
void __tsan_write16(void *p) { access_hook(p, 16, 1); }
void __tsan_unaligned_read2(void *p) { access_hook(p, 2, 0); }
void __tsan_unaligned_read4(void *p) { access_hook(p, 4, 0); }
void __tsan_unaligned_read8(void *p) { access_hook(p, 8, 0); }
void __tsan_unaligned_read16(void *p) { access_hook(p, 16, 0); }
void __tsan_unaligned_write2(void *p) { access_hook(p, 2, 1); }
void __tsan_unaligned_write4(void *p) { access_hook(p, 4, 1); }
void __tsan_unaligned_write8(void *p) { access_hook(p, 8, 1); }
void __tsan_unaligned_write16(void *p) { access_hook(p, 16, 1); }
void __tsan_read_range(void *p, long n) { access_hook(p, (int)n, 0); }
void __tsan_write_range(void *p, long n) { access_hook(p, (int)n, 1); }
void __tsan_vptr_update(void **p, void *v) { (void)p; (void)v; }
void __tsan_vptr_read(void **p) { (void)p; }

/* atomics: a synchronisation operation; always a scheduling point, never a data race */
static void sync_point(void) {
    if (active && cur >= 0) point();
}
int __tsan_atomic32_fetch_add(volatile int *p, int v, int mo) {
    (void)mo;
    sync_point();
    int o = *p;
    *p = o + v;
    return o;
}
long __tsan_atomic64_fetch_add(volatile long *p, long v, int mo) {
    (void)mo;
    sync_point();
    long o = *p;
    *p = o + v;
    return o;
}
int __tsan_atomic32_load(const volatile int *p, int mo) { (void)mo; sync_point(); return *p; }
long __tsan_atomic64_load(const volatile long *p, int mo) { (void)mo; sync_point(); return *p; }
void __tsan_atomic32_store(volatile int *p, int v, int mo) { (void)mo; sync_point(); *p = v; }
void __tsan_atomic64_store(volatile long *p, long v, int mo) { (void)mo; sync_point(); *p = v; }
int __tsan_atomic32_compare_exchange_strong(volatile int *p, int *c, int v, int mo, int fmo) {
    (void)mo; (void)fmo;
    sync_point();
    if (*p == *c) { *p = v; return 1; }
    *c = *p;
    return 0;
}
int __tsan_atomic64_compare_exchange_strong(volatile long *p, long *c, long v, int mo, int fmo) {
    (void)mo; (void)fmo;
    sync_point();
    if (*p == *c) { *p = v; return 1; }
    *c = *p;
    return 0;
}
int __tsan_atomic32_compare_exchange_weak(volatile int *p, int *c, int v, int mo, int fmo) {
    return __tsan_atomic32_compare_exchange_strong(p, c, v, mo, fmo);
}
int __tsan_atomic64_compare_exchange_weak(volatile long *p, long *c, long v, int mo, int fmo) {
    return __tsan_atomic64_compare_exchange_strong(p, c, v, mo, fmo);
}

int omp_get_thread_num(void) { return (active && cur >= 0 && !callers_mode) ? cur : 0; }
int omp_get_num_threads(void) { return (active && !callers_mode) ? nthr : 1; }
/* environment answer: the runtime may grant a team SMALLER than the maximum it reports (OMP_THREAD_LIMIT, OMP_DYNAMIC, nested
   regions): the driver can make omp_get_max_threads() report more threads than the team it runs */
static int max_threads_reported = 0;
void vrt_report_max_threads(int m) { max_threads_reported = m; }
int omp_get_max_threads(void) { return max_threads_reported > nthr_cfg ? max_threads_reported : nthr_cfg; }
void omp_set_num_threads(int n) { (void)n; /* the driver decides */ }
int omp_in_parallel(void) { return active && !callers_mode; }

static void tramp(int t) {
    T[t].fn(T[t].data);
    T[t].state = ST_DONE;
    point();
    swapcontext(&T[t].ctx, &main_ctx);
}

static int ignore_serial_request = 0;
void vrt_ignore_serial_request(int v) { ignore_serial_request = v; }

void GOMP_parallel(void (*fn)(void *), void *data, unsigned num_threads, unsigned flags) {
    (void)flags;
    if (active) { /* nested (or inside one of two concurrent callers): serialise, one thread */
        fn(data);
        return;
    }
    nregions++;
    record_region_state((unsigned char *)__builtin_frame_address(0) + 16, (void *)fn);
    nthr = num_threads ? (int)num_threads : nthr_cfg;
    /* an `if (n > threshold)` clause that evaluates to false arrives here as num_threads == 1.  When the driver asks for it, the
     * request is overridden so that the schedules of the PARALLEL version of the loop are explored at a small size (the loop body
     * and its data-sharing clauses are the same for every n; only an exploration at the real threshold size would be infeasible). */
    if (num_threads == 1 && ignore_serial_request) nthr = nthr_cfg;
    if (nthr > MAXT) nthr = MAXT;
    if (nthr < 1) nthr = 1;
    barrier_count = 0;
    crit_owner = -1;
    memset(dyn, 0, sizeof(dyn));
    phase++;
    for (int t = 0; t < nthr; t++) {
        if (!T[t].stack) T[t].stack = malloc(STACKSZ);
        T[t].state = ST_RUN;
        T[t].fn = fn;
        T[t].data = data;
        T[t].dyn_gen = 0;
        getcontext(&T[t].ctx);
        T[t].ctx.uc_stack.ss_sp = T[t].stack;
        T[t].ctx.uc_stack.ss_size = STACKSZ;
        T[t].ctx.uc_link = &main_ctx;
        makecontext(&T[t].ctx, (void (*)(void))tramp, 1, t);
    }
    active = 1;
    cur = -1;
    {
        int n = nthr, c = 0;
        if (n > 1) {
            if (npoints < sched_len) {
                c = sched[npoints];
                if (c >= n || c < 0) {
                    status |= 1;
                    c = 0;
                }
            }
            if (npoints < MAXPTS) {
                pt_nen[npoints] = (unsigned char)n;
                pt_choice[npoints] = (unsigned char)c;
                pt_cur_enabled[npoints] = 0;
            } else
                status |= 4;
            npoints++;
        }
        cur = c;
        swapcontext(&main_ctx, &T[c].ctx);
    }
    int alldone = 1;
    for (int t = 0; t < nthr; t++)
        if (T[t].state != ST_DONE) alldone = 0;
    if (!alldone) status |= 2;
    active = 0;
    cur = -1;
    phase++;
}
void GOMP_barrier(void) {
    if (!active || callers_mode) return;
    barrier_count++;
    if (barrier_count == nthr) {
        barrier_count = 0;
        phase++;
        for (int t = 0; t < nthr; t++)
            if (T[t].state == ST_BARRIER) T[t].state = ST_RUN;
        point();
    } else {
        T[cur].state = ST_BARRIER;
        point();
    }
}
void GOMP_critical_start(void) {
    if (!active) return;
    T[cur].state = ST_CRIT;
    point(); /* resumed only when the lock is free */
    T[cur].state = ST_RUN;
    crit_owner = cur;
}
void GOMP_critical_end(void) {
    if (!active) return;
    crit_owner = -1;
    point();
}
void GOMP_atomic_start(void) { GOMP_critical_start(); }
void GOMP_atomic_end(void) { GOMP_critical_end(); }

_Bool GOMP_loop_nonmonotonic_dynamic_next(long *istart, long *iend) {
    if (!active || callers_mode) return 0;
    int g = T[cur].dyn_gen - 1;
    if (g < 0 || g >= MAXDYN) return 0;
    point(); /* which thread grabs the next chunk is explored */
    if (dyn[g].next >= dyn[g].end) return 0;
    *istart = dyn[g].next;
    long e = dyn[g].next + dyn[g].chunk * dyn[g].incr;
    if (e > dyn[g].end) e = dyn[g].end;
    *iend = e;
    dyn[g].next = e;
    return 1;
}
_Bool GOMP_loop_nonmonotonic_dynamic_start(long start, long end, long incr, long chunk, long *istart, long *iend) {
    if (!active || callers_mode) {
        *istart = start;
        *iend = end;
        return start < end;
    }
    int g = T[cur].dyn_gen++;
    if (g >= MAXDYN) { status |= 4; return 0; }
    if (!dyn[g].inited) {
        dyn[g].next = start;
        dyn[g].end = end;
        dyn[g].incr = incr;
        dyn[g].chunk = chunk;
        dyn[g].inited = 1;
    }
    return GOMP_loop_nonmonotonic_dynamic_next(istart, iend);
}
_Bool GOMP_loop_dynamic_start(long s, long e, long i, long c, long *is, long *ie) {
    return GOMP_loop_nonmonotonic_dynamic_start(s, e, i, c, is, ie);
}
_Bool GOMP_loop_dynamic_next(long *is, long *ie) { return GOMP_loop_nonmonotonic_dynamic_next(is, ie); }
void GOMP_loop_end_nowait(void) {}
void GOMP_loop_end(void) { GOMP_barrier(); }
void __tsan_atomic_thread_fence(int mo) { (void)mo; }
void __tsan_atomic_signal_fence(int mo) { (void)mo; }

/* ---- trampoline: call a kernel with a scrubbed stack below a known top ----------------------
 * SysV x86-64: integer-class args go to rdi..r9 in order, sse-class args to xmm0..7 in order,
 * further integer args to the stack in order; so one generic prototype serves every kernel with
 * <= 12 integer/pointer and <= 8 float/double arguments.  (A C `float` argument is passed by
 * putting its 32 bits into the low half of the double slot; the driver does that.)
 * The scrub makes never-initialised slots of the kernel's frame deterministic (zero). */
typedef long (*gen_i)(long, long, long, long, long, long, double, double, double, double, double, double, double, double,
                      long, long, long, long, long, long);
typedef double (*gen_d)(long, long, long, long, long, long, double, double, double, double, double, double, double, double,
                        long, long, long, long, long, long);
static void __attribute__((noinline)) scrub(void) {
    volatile unsigned char pad[192 * 1024];
    memset((void *)pad, 0, sizeof(pad));
    __asm__ volatile("" ::"r"(pad) : "memory");
}
long __attribute__((noinline)) vrt_calli(void *fn, long *a, double *d) {
    scrub();
    kernel_top = (unsigned char *)__builtin_frame_address(0);
    return ((gen_i)fn)(a[0], a[1], a[2], a[3], a[4], a[5], d[0], d[1], d[2], d[3], d[4], d[5], d[6], d[7], a[6], a[7], a[8],
                       a[9], a[10], a[11]);
}
double __attribute__((noinline)) vrt_calld(void *fn, long *a, double *d) {
    scrub();
    kernel_top = (unsigned char *)__builtin_frame_address(0);
    return ((gen_d)fn)(a[0], a[1], a[2], a[3], a[4], a[5], d[0], d[1], d[2], d[3], d[4], d[5], d[6], d[7], a[6], a[7], a[8],
                       a[9], a[10], a[11]);
}

/* ---- two concurrent callers --------------------------------------------------------------------
 * f2py releases the GIL around kernels declared `threadsafe`, so two python threads can be inside
 * (different) kernels at the same time.  Here two complete kernel calls are the two logical threads;
 * OpenMP regions inside them run serially with one thread each; scheduling points are the accesses to
 * words both calls touch (static data, shared arguments), found by the same conflict-set fixpoint. */
static struct { void *fn; long *a; double *d; long ret; } callers[2];
static void caller_tramp(int t) {
    callers[t].ret = ((gen_i)callers[t].fn)(callers[t].a[0], callers[t].a[1], callers[t].a[2], callers[t].a[3], callers[t].a[4], callers[t].a[5],
                                             callers[t].d[0], callers[t].d[1], callers[t].d[2], callers[t].d[3], callers[t].d[4], callers[t].d[5],
                                             callers[t].d[6], callers[t].d[7], callers[t].a[6], callers[t].a[7], callers[t].a[8], callers[t].a[9],
                                             callers[t].a[10], callers[t].a[11]);
    T[t].state = ST_DONE;
    point();
    swapcontext(&T[t].ctx, &main_ctx);
}
long vrt_call2(void *fn0, long *a0, double *d0, void *fn1, long *a1, double *d1) {
    callers[0].fn = fn0; callers[0].a = a0; callers[0].d = d0;
    callers[1].fn = fn1; callers[1].a = a1; callers[1].d = d1;
    nthr = 2;
    barrier_count = 0;
    crit_owner = -1;
    phase++;
    for (int t = 0; t < 2; t++) {
        if (!T[t].stack) T[t].stack = malloc(STACKSZ);
        memset(T[t].stack, 0, STACKSZ);
        T[t].state = ST_RUN;
        getcontext(&T[t].ctx);
        T[t].ctx.uc_stack.ss_sp = T[t].stack;
        T[t].ctx.uc_stack.ss_size = STACKSZ;
        T[t].ctx.uc_link = &main_ctx;
        makecontext(&T[t].ctx, (void (*)(void))caller_tramp, 1, t);
    }
    callers_mode = 1;
    active = 1;
    cur = -1;
    {
        int c = 0;
        if (npoints < sched_len) {
            c = sched[npoints];
            if (c >= 2 || c < 0) { status |= 1; c = 0; }
        }
        if (npoints < MAXPTS) { pt_nen[npoints] = 2; pt_choice[npoints] = (unsigned char)c; pt_cur_enabled[npoints] = 0; }
        npoints++;
        cur = c;
        swapcontext(&main_ctx, &T[c].ctx);
    }
    if (T[0].state != ST_DONE || T[1].state != ST_DONE) status |= 2;
    active = 0;
    callers_mode = 0;
    cur = -1;
    phase++;
    return 0;
}
long vrt_caller_ret(int t) { return callers[t].ret; }

/* a caller that does nothing: lets a single kernel call run in callers mode (every access of the whole call is then seen) */
long vrt_noop(void) { return 0; }
