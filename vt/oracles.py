"""Boring reference models shared between property modules."""
from __future__ import annotations
import numpy as np


# ----------------------------------------------------------------------------- connected components
def flood_components(mask, conn8=True):
    """Labels by plain flood fill. mask: 2-D bool. Returns int32 label image, labels numbered
    1..n in raster order of each component's first pixel. Written for the purpose (no scipy)."""
    ns, nf = mask.shape
    lab = np.zeros((ns, nf), np.int32)
    m = mask.tolist()
    L = [[0] * nf for _ in range(ns)]
    n = 0
    if conn8:
        nb = ((-1, -1), (-1, 0), (-1, 1), (0, -1), (0, 1), (1, -1), (1, 0), (1, 1))
    else:
        nb = ((-1, 0), (0, -1), (0, 1), (1, 0))
    for i in range(ns):
        mi = m[i]
        Li = L[i]
        for j in range(nf):
            if mi[j] and Li[j] == 0:
                n += 1
                Li[j] = n
                stack = [(i, j)]
                while stack:
                    a, b = stack.pop()
                    for da, db in nb:
                        c, d = a + da, b + db
                        if 0 <= c < ns and 0 <= d < nf and m[c][d] and L[c][d] == 0:
                            L[c][d] = n
                            stack.append((c, d))
    lab[:] = L
    return lab, n


def scipy_components(mask, conn8=True):
    import scipy.ndimage as ndi
    st = np.ones((3, 3), int) if conn8 else np.array([[0, 1, 0], [1, 1, 1], [0, 1, 0]])
    lab, n = ndi.label(mask, structure=st)
    return lab.astype(np.int32), n


def canon_labels(lab):
    """Renumber positive labels by first occurrence in flattened order (0 stays 0).
    Two label arrays induce the same partition iff their canonical forms are equal."""
    flat = np.asarray(lab).ravel()
    out = np.zeros(flat.shape, np.int64)
    pos = flat != 0
    if pos.any():
        vals = flat[pos]
        uniq, first = np.unique(vals, return_index=True)
        order = np.argsort(first)
        remap = np.empty(len(uniq), np.int64)
        remap[order] = np.arange(1, len(uniq) + 1)
        out[pos] = remap[np.searchsorted(uniq, vals)]
    return out.reshape(np.shape(lab))


def n_seeds(mask, conn8=True):
    """Number of above-threshold pixels with no above-threshold neighbour among the already
    scanned ones (W, NW, N, NE for 8-connectivity; W, N for 4). seeds > components means the
    raster-scan algorithm had to merge provisional labels (a union happened)."""
    p = np.pad(mask, 1)
    c = p[1:-1, 1:-1]
    prior = p[1:-1, :-2] | p[:-2, 1:-1]
    if conn8:
        prior = prior | p[:-2, :-2] | p[:-2, 2:]
    return int((c & ~prior).sum())


# ----------------------------------------------------------------------------- lattices
def lattice_equivalent(ubi1, ubi2, tol=1e-6):
    """ubi1 and ubi2 describe the same lattice iff ubi1 . inv(ubi2) is an integer matrix with |det|=1."""
    m = np.dot(ubi1, np.linalg.inv(ubi2))
    r = np.round(m)
    if np.abs(m - r).max() > tol:
        return False
    return abs(abs(np.linalg.det(r)) - 1) < 1e-9


def cell_to_B(cell):
    """Busing-Levy B (upper triangular, a* along x), written independently of ImageD11."""
    a, b, c, al, be, ga = [float(x) for x in cell]
    al, be, ga = np.radians([al, be, ga])
    ca, cb, cg = np.cos([al, be, ga])
    sa, sb, sg = np.sin([al, be, ga])
    V = a * b * c * np.sqrt(1 - ca * ca - cb * cb - cg * cg + 2 * ca * cb * cg)
    astar = b * c * sa / V
    bstar = a * c * sb / V
    cstar = a * b * sg / V
    cas = (cb * cg - ca) / (sb * sg)
    cbs = (ca * cg - cb) / (sa * sg)
    cgs = (ca * cb - cg) / (sa * sb)
    sbs = np.sqrt(1 - cbs * cbs)
    sgs = np.sqrt(1 - cgs * cgs)
    B = np.array([[astar, bstar * cgs, cstar * cbs],
                  [0.0, bstar * sgs, -cstar * sbs * ca],
                  [0.0, 0.0, 1.0 / c]])
    return B


def cell_metric(cell):
    a, b, c, al, be, ga = [float(x) for x in cell]
    ca, cb, cg = np.cos(np.radians([al, be, ga]))
    return np.array([[a * a, a * b * cg, a * c * cb],
                     [a * b * cg, b * b, b * c * ca],
                     [a * c * cb, b * c * ca, c * c]])


def metric_to_cell(g):
    a, b, c = np.sqrt(np.diag(g))
    al = np.degrees(np.arccos(g[1, 2] / b / c))
    be = np.degrees(np.arccos(g[0, 2] / a / c))
    ga = np.degrees(np.arccos(g[0, 1] / a / b))
    return np.array([a, b, c, al, be, ga])


def centring_allows(h, k, l, sym):
    """Textbook reflection conditions for lattice centrings (International Tables)."""
    if sym == "P":
        return True
    if sym == "A":
        return (k + l) % 2 == 0
    if sym == "B":
        return (h + l) % 2 == 0
    if sym == "C":
        return (h + k) % 2 == 0
    if sym == "I":
        return (h + k + l) % 2 == 0
    if sym == "F":
        return (h + k) % 2 == 0 and (h + l) % 2 == 0 and (k + l) % 2 == 0
    if sym == "R":
        return (-h + k + l) % 3 == 0
    raise ValueError(sym)


def brute_hkls(cell, sym, dsmax):
    """All non-zero hkl with |B.hkl| < dsmax allowed by centring; rigorous box: h = a . g so
    |h| <= |a| |g|."""
    B = cell_to_B(cell)
    a, b, c = cell[0], cell[1], cell[2]
    H, K, L = int(np.floor(dsmax * a)) + 1, int(np.floor(dsmax * b)) + 1, int(np.floor(dsmax * c)) + 1
    hh, kk, ll = np.mgrid[-H:H + 1, -K:K + 1, -L:L + 1]
    hkl = np.stack([hh.ravel(), kk.ravel(), ll.ravel()])
    ds = np.sqrt((np.dot(B, hkl) ** 2).sum(axis=0))
    out = {}
    for (h, k, l), d in zip(hkl.T.tolist(), ds.tolist()):
        if (h, k, l) == (0, 0, 0):
            continue
        if d < dsmax and centring_allows(h, k, l, sym):
            out[(h, k, l)] = d
    return out, B


def rotation_from_axis_angle(axis, deg):
    axis = np.asarray(axis, float)
    axis = axis / np.linalg.norm(axis)
    t = np.radians(deg)
    K = np.array([[0, -axis[2], axis[1]], [axis[2], 0, -axis[0]], [-axis[1], axis[0], 0]])
    return np.eye(3) + np.sin(t) * K + (1 - np.cos(t)) * np.dot(K, K)


GENERIC_ROTATIONS = [
    # eight pre-validated tables of "generic" rotations, selected by VERIF_SEED % 8
    [((1, 2, 3), 37.0), ((-2, 1, 5), 111.0), ((3, -1, 2), 73.5), ((1, 0, 4), 158.0), ((5, 4, -3), 12.3), ((2, -7, 1), 95.1)],
    [((2, 1, 4), 41.0), ((-1, 3, 2), 127.0), ((4, -2, 1), 66.5), ((0, 1, 3), 149.0), ((3, 5, -4), 17.9), ((1, -6, 2), 88.3)],
    [((3, 1, 2), 29.0), ((-3, 2, 4), 103.0), ((2, -3, 5), 81.5), ((1, 1, 5), 163.0), ((4, 3, -5), 9.7), ((3, -5, 1), 99.9)],
    [((1, 3, 2), 53.0), ((-2, 5, 1), 119.0), ((5, -1, 3), 58.5), ((2, 0, 5), 141.0), ((2, 4, -1), 21.1), ((4, -3, 2), 77.7)],
    [((2, 3, 1), 33.0), ((-1, 2, 6), 131.0), ((3, -4, 1), 69.5), ((1, 2, 6), 153.0), ((6, 1, -2), 14.5), ((1, -4, 3), 91.3)],
    [((4, 1, 3), 47.0), ((-4, 1, 2), 107.0), ((1, -2, 6), 62.5), ((3, 1, 1), 167.0), ((1, 5, -6), 19.3), ((5, -2, 3), 85.9)],
    [((1, 4, 2), 39.0), ((-3, 4, 1), 123.0), ((6, -1, 2), 75.5), ((2, 1, 7), 145.0), ((3, 2, -6), 11.1), ((2, -5, 4), 97.1)],
    [((5, 2, 1), 43.0), ((-1, 4, 3), 115.0), ((2, -1, 7), 71.5), ((1, 3, 3), 155.0), ((4, 5, -1), 16.7), ((3, -7, 2), 93.7)],
]


def generic_rotations(seed, n=6):
    tab = GENERIC_ROTATIONS[seed % len(GENERIC_ROTATIONS)]
    return [rotation_from_axis_angle(a, d) for a, d in tab[:n]]
