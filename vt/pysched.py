"""E7: schedule exploration for Python threads calling pure-Python library code.

The threads are real `threading.Thread`s but only the one holding the baton runs: every thread blocks on its own semaphore,
and a `sys.settrace` line tracer installed in each thread calls the scheduler at every *scheduling point* - a line event (with
`opcodes=True`: a bytecode event, so that two calls inside one statement can be separated) in a frame selected by `is_point(frame)` (typically: the functions of one module that touch a module-level cache).  A schedule is
the set of global point numbers at which the baton is handed to the next runnable thread; exploration enumerates all schedules
with at most `bound` such preemptions (CHESS-style), every one executed on the real code.  A thread that finishes hands the
baton on.  The library under test must not block on real locks inside the traced region (none of the explored code does).
"""
from __future__ import annotations
import sys, threading, itertools


class _Run:
    def __init__(self, funcs, is_point, switches, opcodes=False):
        self.funcs, self.is_point, self.switches = funcs, is_point, set(switches)
        self.opcodes = opcodes
        self.n = len(funcs)
        self.sems = [threading.Semaphore(0) for _ in funcs]
        self.done = [False] * self.n
        self.results = [None] * self.n
        self.errors = [None] * self.n
        self.counter = 0
        self.points_of = [0] * self.n
        self.cur = 0
        self.trace = []
        self.finished = threading.Semaphore(0)

    def _next_runnable(self, after):
        for d in range(1, self.n + 1):
            t = (after + d) % self.n
            if not self.done[t]:
                return t
        return None

    def _point(self, tid):
        self.counter += 1
        self.points_of[tid] += 1
        if self.counter in self.switches:
            nxt = self._next_runnable(tid)
            if nxt is not None and nxt != tid:
                self.trace.append((self.counter, tid, nxt))
                self.cur = nxt
                self.sems[nxt].release()
                self.sems[tid].acquire()

    def _body(self, tid):
        self.sems[tid].acquire()

        want = "opcode" if self.opcodes else "line"

        def local(frame, event, arg):
            if event == want:
                self._point(tid)
            return local

        def tracer(frame, event, arg):
            if event == "call" and self.is_point(frame):
                if self.opcodes:
                    frame.f_trace_opcodes = True       # a scheduling point before every bytecode: two calls in ONE statement can be split
                return local
            return None
        sys.settrace(tracer)
        try:
            self.results[tid] = self.funcs[tid]()
        except BaseException as e:          # noqa: the exception is part of the observation
            self.errors[tid] = e
        finally:
            sys.settrace(None)
            self.done[tid] = True
            nxt = self._next_runnable(tid)
            if nxt is None:
                self.finished.release()
            else:
                self.cur = nxt
                self.sems[nxt].release()

    def go(self):
        ths = [threading.Thread(target=self._body, args=(t,), daemon=True) for t in range(self.n)]
        for t in ths:
            t.start()
        self.sems[0].release()
        if not self.finished.acquire(timeout=120):
            raise RuntimeError("schedule did not terminate (a thread blocked outside the scheduler?)")
        for t in ths:
            t.join(10)
        return self


def run(funcs, is_point, switches=(), opcodes=False):
    """one execution: returns (results, errors, number of scheduling points seen, switch trace)"""
    r = _Run(funcs, is_point, switches, opcodes).go()
    return r.results, r.errors, r.counter, r.trace


def explore(make_funcs, is_point, bound=1, reset=None, max_exec=20000, opcodes=False):
    """every schedule with at most `bound` preemptions.  make_funcs() -> fresh list of thread bodies; reset() restores the shared state
    before each execution.  Yields (switches, results, errors).  The number of points may depend on the schedule: switch positions
    are enumerated up to the number of points seen in the execution that reaches furthest."""
    if reset:
        reset()
    res, err, npts, _ = run(make_funcs(), is_point, (), opcodes)
    yield (), res, err
    seen_max = npts
    execs = 1
    for nb in range(1, bound + 1):
        k = 0
        combos = itertools.combinations(range(1, seen_max + 1), nb)
        for sw in combos:
            if execs >= max_exec:
                return
            if reset:
                reset()
            res, err, npts, _ = run(make_funcs(), is_point, sw, opcodes)
            execs += 1
            yield sw, res, err
