"""vt: verification toolkit for ImageD11 (bounded exhaustive exploration / model checking)."""
