"""E3 driver: stateless exploration of OpenMP thread schedules of the real C kernels.

The kernels are compiled from /repo/src with gcc's ThreadSanitizer *instrumentation only* and
linked against vt/c/vrt.c (our GOMP/omp/__tsan runtime: threads are coroutines, instrumented
shared accesses and sync operations are scheduling points).  This module is the deviation-bounded
DFS of the guidance: run a prefix, take choice 0 afterwards, branch on every later point whose
preemption cost stays within the bound.  An out-of-range choice while replaying a prefix is a hard
error.  Conflict-directed reduction: only accesses to words in the conflict set are scheduling
points; the set is grown to a fixpoint (a new conflicting word restarts the exploration).
"""
from __future__ import annotations
import ctypes, os
import numpy as np


class EngineError(Exception):
    pass


def ptr(a):
    return a.ctypes.data_as(ctypes.c_void_p)


class VRT:
    def __init__(self, libpath=None):
        libpath = libpath or os.path.join(os.environ["VT_ROOT"], "lib", "libid11_vrt.so")
        self.L = L = ctypes.CDLL(libpath)
        L.vrt_nacc.restype = ctypes.c_long
        L.vrt_nacc_total.restype = ctypes.c_long
        L.vrt_nconf_events.restype = ctypes.c_long
        L.vrt_nregions.restype = ctypes.c_long
        L.vrt_words_touched.restype = ctypes.c_long
        L.vrt_filter_size.restype = ctypes.c_long
        L.vrt_filter_add.argtypes = [ctypes.c_uint64]
        self._sched = np.zeros(1, np.int32)
        self.filter = set()

    def register(self, *arrays):
        """argument buffers of the kernel: part of the state hashed at region boundaries"""
        self._reg = arrays
        self.L.vrt_register_clear()
        for a in arrays:
            self.L.vrt_register(ptr(a), ctypes.c_size_t(a.nbytes))

    def kernel(self, name, ints, dbls=(), floats_at=(), ret="i"):
        """Return a zero-argument callable invoking kernel `name` through the scrubbing trampoline.
        ints: integer/pointer arguments in order (numpy arrays are passed by address);
        dbls: float/double arguments in order; indices in floats_at are C `float` parameters."""
        import struct
        a = np.zeros(12, np.int64)
        keep = []
        for k, v in enumerate(ints):
            if isinstance(v, np.ndarray):
                keep.append(v)
                a[k] = v.ctypes.data
            else:
                a[k] = int(v)
        d = np.zeros(8, np.float64)
        for k, v in enumerate(dbls):
            if k in floats_at:
                d[k] = struct.unpack("<d", struct.pack("<fI", float(v), 0))[0]
            else:
                d[k] = float(v)
        fn = ctypes.cast(getattr(self.L, name), ctypes.c_void_p)
        L = self.L
        L.vrt_calli.restype = ctypes.c_long
        L.vrt_calld.restype = ctypes.c_double
        L.vrt_calli.argtypes = [ctypes.c_void_p, ctypes.c_void_p, ctypes.c_void_p]
        L.vrt_calld.argtypes = [ctypes.c_void_p, ctypes.c_void_p, ctypes.c_void_p]
        f = L.vrt_calli if ret == "i" else L.vrt_calld
        pa, pd = a.ctypes.data, d.ctypes.data

        def call(_keep=(keep, a, d)):
            return f(fn, pa, pd)
        return call

    def kernel_args(self, name, ints, dbls=(), floats_at=()):
        """argument blocks for vrt_call2 (same conventions as kernel())"""
        import struct
        a = np.zeros(12, np.int64)
        keep = []
        for k, v in enumerate(ints):
            if isinstance(v, np.ndarray):
                keep.append(v)
                a[k] = v.ctypes.data
            else:
                a[k] = int(v)
        d = np.zeros(8, np.float64)
        for k, v in enumerate(dbls):
            d[k] = struct.unpack("<d", struct.pack("<fI", float(v), 0))[0] if k in floats_at else float(v)
        fn = ctypes.cast(getattr(self.L, name), ctypes.c_void_p)
        return (fn, a, d, keep)

    def two_callers(self, A, B):
        """zero-argument callable running the two prepared calls as two concurrent logical threads"""
        L = self.L
        L.vrt_call2.restype = ctypes.c_long
        L.vrt_call2.argtypes = [ctypes.c_void_p] * 6

        def call(_k=(A, B)):
            return L.vrt_call2(A[0], A[1].ctypes.data, A[2].ctypes.data, B[0], B[1].ctypes.data, B[2].ctypes.data)
        return call

    # -- filter
    def set_filter(self, words):
        self.filter = set(int(w) for w in words)
        self.L.vrt_filter_clear()
        for w in self.filter:
            self.L.vrt_filter_add(ctypes.c_uint64(w))

    def run(self, call, nthreads, prefix, logacc=0, all_points=False):
        """call() invokes the kernel through ctypes on self.L. Returns dict with the point record."""
        L = self.L
        s = np.array(list(prefix) + [0], np.int32)
        self._sched = s  # keep alive
        L.vrt_reset()
        L.vrt_filter_mode(0 if all_points else 1)
        L.vrt_config(int(nthreads), ptr(s), len(prefix), int(logacc))
        ret = call()
        st = L.vrt_status()
        npts = L.vrt_npoints()
        nen = np.zeros(max(npts, 1), np.uint8)
        ch = np.zeros(max(npts, 1), np.uint8)
        ce = np.zeros(max(npts, 1), np.uint8)
        if npts:
            L.vrt_get_points(ptr(nen), ptr(ch), ptr(ce))
        nnew = L.vrt_nnew()
        new = np.zeros(max(nnew, 1), np.uint64)
        if nnew:
            L.vrt_get_new(ptr(new))
        nrg = L.vrt_nrg()
        rgp = np.zeros(max(nrg, 1), np.int32)
        rgh = np.zeros(max(nrg, 1), np.uint64)
        if nrg:
            L.vrt_get_rg(ptr(rgp), ptr(rgh))
        return {"rg": list(zip(rgp[:nrg].tolist(), rgh[:nrg].tolist())), "ret": ret, "status": st, "npoints": npts, "nen": nen[:npts], "ch": ch[:npts], "ce": ce[:npts],
                "new": [int(x) for x in new[:nnew]], "nacc": L.vrt_nacc_total(), "nconf": L.vrt_nconf_events(),
                "regions": L.vrt_nregions(), "words": L.vrt_words_touched()}

    def access_log(self):
        L = self.L
        n = L.vrt_nacc()
        addr = np.zeros(n, np.uint64); sz = np.zeros(n, np.uint8); w = np.zeros(n, np.uint8)
        tid = np.zeros(n, np.uint8); ph = np.zeros(n, np.uint32)
        if n:
            L.vrt_get_acc(ptr(addr), ptr(sz), ptr(w), ptr(tid), ptr(ph))
        return addr, sz, w, tid, ph

    def explore(self, prepare, call, observe, nthreads, bound, max_exec=2_000_000, max_restarts=50, prune=True,
                early_stop=None, budget_s=None):
        """prepare(): reset all in/out buffers in place; call(): run kernel; observe(): hashable outcome.

        Returns dict(executions, outcomes{obs: first schedule}, points_max, filter_size, restarts,
        nodes, capped, conflicts_seen)."""
        import time as _time
        t_start = _time.time()
        filt = set()
        restarts = 0
        total_exec = 0
        stopped = False
        while True:
            self.set_filter(filt)
            stack = [[]]
            claimed = {}
            pruned = 0
            outcomes = {}
            nexec = 0
            nodes = 0
            pmax = 0
            capped = False
            conf_events = 0
            restart = False
            while stack:
                prefix = stack.pop()
                prepare()
                r = self.run(call, nthreads, prefix)
                nexec += 1
                total_exec += 1
                if r["status"] & 1:
                    raise EngineError("schedule diverged while replaying prefix %r" % (prefix,))
                if r["status"] & 4:
                    raise EngineError("point table overflow")
                if r["status"] & 8:
                    raise EngineError("access table overflow")
                if r["new"]:
                    filt |= set(r["new"])
                    restart = True
                    break
                if r["status"] & 2:
                    obs = ("DEADLOCK",)
                else:
                    obs = observe(r["ret"])
                if obs not in outcomes:
                    outcomes[obs] = list(prefix)
                    if early_stop is not None and early_stop(obs):
                        stopped = True
                        break
                conf_events += r["nconf"]
                nen, ch, ce = r["nen"], r["ch"], r["ce"]
                npts = r["npoints"]
                pmax = max(pmax, npts)
                nodes += npts - len(prefix) + 1
                # preemption cost before each point
                pre = 0
                chl = ch.tolist()
                rg = {p: (k, h) for k, (p, h) in enumerate(r["rg"])} if prune else {}
                for i in range(npts):
                    if i >= len(prefix) and i in rg:
                        # region boundary reached after this execution's deviation: if the same memory state
                        # was already claimed with at least our remaining budget, the continuation is covered
                        rem = bound - pre
                        if claimed.get(rg[i], -1) >= rem:
                            pruned += 1
                            break
                        claimed[rg[i]] = rem
                    if i >= len(prefix):
                        n_i = int(nen[i])
                        if n_i > 1:
                            c = pre + (1 if ce[i] else 0)
                            if c <= bound:
                                base = chl[:i]
                                for alt in range(1, n_i):
                                    stack.append(base + [alt])
                    if chl[i] != 0 and ce[i]:
                        pre += 1
                if total_exec >= max_exec or (budget_s is not None and _time.time() - t_start > budget_s):
                    capped = True
                    break
            if restart:
                restarts += 1
                if restarts > max_restarts:
                    raise EngineError("conflict set did not reach a fixpoint after %d restarts" % restarts)
                continue
            return {"executions": nexec, "total_executions": total_exec, "outcomes": outcomes, "points_max": pmax,
                    "filter_size": len(filt), "restarts": restarts, "nodes": nodes, "capped": capped,
                    "conflict_events": conf_events, "pruned": pruned, "stopped_early": stopped, "region_states": len(claimed)}


def check_schedule_independence(V, kernel, ints, dbls, floats_at, inouts, threads=(2, 3), bound=2, max_exec=200000, void=False):
    """Explore all schedules (within the bound) of one kernel call and compare every outcome with the single-thread result.
    `ints` may contain numpy arrays (passed by address); `inouts` lists the arrays whose content is reset before every
    execution (from their initial copy) and observed afterwards.  Returns (reference, list of per-T result dicts, bad) where
    bad is a list of (T, schedule) whose outcome differs."""
    arrays = [a for a in ints if isinstance(a, np.ndarray)]
    V.register(*arrays)
    init = [a.copy() for a in inouts]

    def prepare():
        for a, b in zip(inouts, init):
            a[...] = b
    call = V.kernel(kernel, ints, dbls=dbls, floats_at=floats_at)

    def observe(ret):
        # a void kernel leaves garbage in the return register
        return (0 if void else int(ret),) + tuple(a.tobytes() for a in inouts)
    prepare()
    ref = observe(V.run(call, 1, [])["ret"])
    out, bad = [], []
    for T in threads:
        r = V.explore(prepare, call, observe, T, bound, max_exec=max_exec, early_stop=lambda o: o != ref)
        out.append(dict(r, T=T))
        for obs, sched in r["outcomes"].items():
            if obs != ref:
                bad.append((T, sched))
    prepare()
    return ref, out, bad


def stray_writes_of(V, call_spec):
    """Run ONE kernel call (a vt.sani.Call) on the vrt runtime in callers mode, where every instrumented access of the whole call is
    seen, and count the writes that land outside (a) the argument arrays, (b) heap blocks the kernel allocated itself, (c) the
    stack: such a write touches memory the kernel was not handed (static or global data).  Returns (n_stray, first_address)."""
    L = V.L
    arrays, ints, dbls, floats_at = [], [], [], []
    for a in call_spec.args:
        if a[0] == "a":
            arr = a[1].copy()
            arrays.append(arr)
            ints.append(arr)
        elif a[0] == "i":
            ints.append(a[1])
        else:
            if a[0] == "f":
                floats_at.append(len(dbls))
            dbls.append(a[1])
    if len(ints) > 12 or len(dbls) > 8:
        return None
    V.register(*arrays)
    A = V.kernel_args(call_spec.kernel, ints, dbls, tuple(floats_at))
    B = V.kernel_args("vrt_noop", [], [])
    call = V.two_callers(A, B)
    L.vrt_check_strays(1)
    L.vrt_stray_writes.restype = ctypes.c_long
    L.vrt_stray_first.restype = ctypes.c_uint64
    V.set_filter([])
    V.run(call, 2, [0, 0, 0, 0])
    n = L.vrt_stray_writes()
    first = L.vrt_stray_first()
    L.vrt_check_strays(0)
    return int(n), int(first)


def team_outputs(V, call_spec, nthreads, reported_max, poison):
    """Run ONE kernel call (a vt.sani.Call) on the vrt runtime with a team of `nthreads` logical threads (default schedule: each thread
    runs to its next barrier in turn) while omp_get_max_threads() reports `reported_max` (0: the team size), output arrays pre-filled
    with `poison`.  Returns (ret, [io/out arrays after the call]) or None when the call does not fit the trampoline."""
    L = V.L
    arrays, ints, dbls, floats_at, outs = [], [], [], [], []
    for a in call_spec.args:
        if a[0] == "a":
            arr = a[1].copy()
            if a[2] == "out":
                arr.view(np.uint8).reshape(-1)[:] = poison
            arrays.append(arr)
            ints.append(arr)
            if a[2] in ("io", "out"):
                outs.append((a, arr))
        elif a[0] == "i":
            ints.append(a[1])
        else:
            if a[0] == "f":
                floats_at.append(len(dbls))
            dbls.append(a[1])
    if len(ints) > 12 or len(dbls) > 8:
        return None
    V.register(*arrays)
    call = V.kernel(call_spec.kernel, ints, dbls, tuple(floats_at), ret=("d" if call_spec.ret == "d" else "i"))
    L.vrt_report_max_threads(int(reported_max))
    try:
        V.set_filter([])
        r = V.run(call, int(nthreads), [])
    finally:
        L.vrt_report_max_threads(0)
    res = []
    for a, arr in outs:
        prom = a[3]
        res.append(np.array(arr.reshape(-1)[prom(r["ret"], arr)]) if prom is not None else arr)
    return (None if call_spec.ret == "v" else r["ret"]), res, r["status"]


def schedule_outcomes(V, call_spec, threads=(2, 3), bound=1, max_exec=4000, budget_s=10.0, same=None):
    """Explore every schedule (within `bound` preemptions at the words more than one thread touches) of ONE kernel call from the call
    tables (a vt.sani.Call) with teams of `threads` logical threads; every outcome - return value and the promised part of the io/out
    arrays - is compared with the outcome of the team's default schedule by same(ref, got) (default: bytes).  Returns None when the call does not fit the
    trampoline, else (bad, stats): bad = [(T, schedule)], stats = dict(executions, regions, conflict_words, capped)."""
    arrays, ints, dbls, floats_at, outs = [], [], [], [], []
    for a in call_spec.args:
        if a[0] == "a":
            arr = a[1].copy()
            arrays.append(arr)
            ints.append(arr)
            if a[2] in ("io", "out"):
                outs.append((a, arr))
        elif a[0] == "i":
            ints.append(a[1])
        else:
            if a[0] == "f":
                floats_at.append(len(dbls))
            dbls.append(a[1])
    if len(ints) > 12 or len(dbls) > 8:
        return None
    V.register(*arrays)
    init = [a.copy() for a in arrays]
    call = V.kernel(call_spec.kernel, ints, dbls, tuple(floats_at), ret=("d" if call_spec.ret == "d" else "i"))

    def prepare():
        for a, b in zip(arrays, init):
            a[...] = b
    decoded = {}

    def observe(ret):
        res = []
        for a, arr in outs:
            prom = a[3]
            res.append(np.array(arr.reshape(-1)[prom(ret, arr)]) if prom is not None else arr.copy())
        val = (None if call_spec.ret == "v" else ret, res)
        key = (repr(val[0]),) + tuple(x.tobytes() for x in res)
        decoded.setdefault(key, val)
        return key
    if same is None:
        same = lambda a, b: a[0] == b[0] and all(x.tobytes() == y.tobytes() for x, y in zip(a[1], b[1]))
    V.set_filter([])
    prepare()
    r1 = V.run(call, 1, [])
    refkey = observe(r1["ret"])
    ref = decoded[refkey]
    bad, stats = [], {"executions": 1, "regions": int(r1["regions"]), "conflict_words": 0, "capped": False}
    if r1["regions"] == 0:
        return bad, stats
    for T in threads:
        # the reference of a team is its own default schedule (every thread runs to its next barrier in turn): a few kernels document a
        # result that depends on how the rows are dealt to the threads, none may depend on the interleaving
        first = []

        def differs(o):
            if not first:
                first.append(o)
                return False
            return o == ("DEADLOCK",) or first[0] == ("DEADLOCK",) or not same(decoded[first[0]], decoded[o])
        r = V.explore(prepare, call, observe, T, bound, max_exec=max_exec, budget_s=budget_s, early_stop=differs)
        stats["executions"] += r["total_executions"]
        stats["conflict_words"] = max(stats["conflict_words"], r["filter_size"])
        stats["capped"] = stats["capped"] or r["capped"]
        if ("DEADLOCK",) in r["outcomes"]:
            bad.append((T, r["outcomes"][("DEADLOCK",)]))
        keys = [o for o in r["outcomes"] if o != ("DEADLOCK",)]
        for o in keys[1:]:
            if not same(decoded[keys[0]], decoded[o]):
                bad.append((T, r["outcomes"][o]))
    prepare()
    return bad, stats


def callers_interfere(V, spec_a, spec_b, bound=2, max_exec=100000):
    """Two complete kernel calls (vt.sani.Call objects, kernels declared `threadsafe` so that f2py releases the GIL) run as two
    logical threads: explore every interleaving at the words both touch (within `bound` preemptions); each call must leave in its
    own arrays what it leaves when it runs alone.  Returns (bad_schedules, explore_result)."""
    blocks, arrays_all, outs = [], [], []
    for sp in (spec_a, spec_b):
        ints, dbls, floats_at, arrs = [], [], [], []
        for a in sp.args:
            if a[0] == "a":
                arr = a[1].copy()
                arrs.append((arr, a[2]))
                ints.append(arr)
            elif a[0] == "i":
                ints.append(a[1])
            else:
                if a[0] == "f":
                    floats_at.append(len(dbls))
                dbls.append(a[1])
        if len(ints) > 12 or len(dbls) > 8:
            return None, None
        blocks.append((sp.kernel, ints, dbls, tuple(floats_at)))
        arrays_all += [x[0] for x in arrs]
        outs += [x[0] for x in arrs]
    init = [a.copy() for a in outs]
    V.register(*arrays_all)

    def prepare():
        for a, b in zip(outs, init):
            a[...] = b
    alone = []
    prepare()
    for kern, ints, dbls, fl in blocks:
        V.run(V.kernel(kern, ints, dbls=dbls, floats_at=fl), 1, [])
    ref = tuple(a.tobytes() for a in outs)
    A = V.kernel_args(*blocks[0])
    B = V.kernel_args(*blocks[1])
    call = V.two_callers(A, B)

    def observe(ret):
        return tuple(a.tobytes() for a in outs)
    r = V.explore(prepare, call, observe, 2, bound, max_exec=max_exec, early_stop=lambda o: o != ref, prune=False)
    bad = [sched for obs, sched in r["outcomes"].items() if obs != ref]
    prepare()
    return bad, r
