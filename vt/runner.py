"""Runner: `python -m vt.runner <ID> --tier quick|thorough [--replay file]`.

Contract (MANIFEST): exit 0 if the property held on everything explored; otherwise print
`VIOLATION property=<id> replay=<path>` and exit 1.  Findings listed in known_findings.json print
`KNOWN-FINDING: property=<id> <what>` and do not fail the run.  evidence/<id>.json is rewritten
on every run from counters kept here.

A property module `vt.props.cNN` exposes

    LEVEL   = "exploration" | "model_checking" | ...
    def plan(tier, seed) -> list of shard descriptors (picklable, small)
    def run_shard(desc)  -> vt.runner.Shard          (executed in worker processes)
    def replay(case)     -> (ok: bool, observation)  (optional; used by --replay)
    RULE, ASSUMPTIONS (strings / list of strings)
    def finalize(ctx, merged)  (optional: cross-shard checks, extra coverage keys)
"""
from __future__ import annotations
import argparse, hashlib, importlib, json, os, subprocess, sys, time, traceback
import multiprocessing as mp

VERIF = os.path.dirname(os.path.dirname(os.path.abspath(__file__)))
PY = "/venv/bin/python"
MAX_REPLAYS = 5


class Shard:
    """What one shard of an enumeration covered. Everything is counted, nothing assumed."""

    def __init__(self):
        self.evaluations = 0
        self.nontrivial = 0          # distinct AND non-trivial cases (shards enumerate disjoint cases)
        self.borderline = 0          # cases the margin guard refused to decide
        self.violations = []         # list of dict(key=..., case=..., detail=...)
        self.samples = []
        self.states = 0
        self.transitions = 0
        self.traces_validated = 0
        self.counters = {}           # free-form additive counters
        self.outcomes = set()        # distinct observed outcomes (hashes), for vacuity reporting
        self.notes = []
        self.capped = False

    def count(self, name, n=1):
        self.counters[name] = self.counters.get(name, 0) + n

    def violation(self, key, case, detail):
        self.violations.append({"key": key, "case": case, "detail": detail})

    def sample(self, s, limit=3):
        if len(self.samples) < limit:
            self.samples.append(s)


def jsonable(x):
    import numpy as np
    if isinstance(x, dict):
        return {str(k): jsonable(v) for k, v in x.items()}
    if isinstance(x, (list, tuple, set, frozenset)):
        return [jsonable(v) for v in x]
    if isinstance(x, np.ndarray):
        return jsonable(x.tolist())
    if isinstance(x, (np.integer,)):
        return int(x)
    if isinstance(x, (np.floating,)):
        return float(x)
    if isinstance(x, (np.bool_,)):
        return bool(x)
    if isinstance(x, float):
        if x != x or x in (float("inf"), float("-inf")):
            return repr(x)
        return x
    if isinstance(x, (str, int, bool)) or x is None:
        return x
    if isinstance(x, bytes):
        return x.hex()
    return repr(x)


def _worker(args):
    modname, desc = args
    mod = importlib.import_module(modname)
    try:
        t0 = time.time()
        r = mod.run_shard(desc)
        kind = desc[0] if isinstance(desc, (tuple, list)) and desc and isinstance(desc[0], str) else "shard"
        r.counters["cpu_s:" + kind] = r.counters.get("cpu_s:" + kind, 0) + round(time.time() - t0, 2)
        return r
    except Exception as e:
        s = Shard()
        tb = traceback.extract_tb(e.__traceback__)
        # the last frame that belongs to the harness, and the library frame (if any) the exception passed through below it
        last_h = max([i for i, f in enumerate(tb) if "/verif/vt/" in f.filename], default=-1)
        lib = [f for f in tb[last_h + 1:] if "/ImageD11/" in f.filename and "/verif/vt/" not in f.filename]
        inner = lib[-1] if lib else None
        if inner is not None:
            # the exception came out of a library call (raised in the library itself or in something the library called, e.g. xfab
            # on a cell the grain had cached) that the harness considers well formed - every check runs on inputs of its property's
            # domain, where no property allows an exception: a violation, not a harness failure
            s.violation("library-raised:%s:%s" % (type(e).__name__, inner.name), {"shard": jsonable(desc)},
                        {"error": str(e)[:300], "where": "%s:%d" % (inner.filename.split("/ImageD11/")[-1], inner.lineno),
                         "traceback_tail": traceback.format_exc()[-1500:]})
            return s
        s.notes.append("ENGINE-ERROR in shard %r:\n%s" % (desc, traceback.format_exc()))
        s.counters["engine_errors"] = 1
        return s


def _init_worker():
    # die with the parent: no orphan workers if the runner is killed
    try:
        import ctypes, signal
        ctypes.CDLL("libc.so.6").prctl(1, signal.SIGKILL)
    except Exception:
        pass
    # numba's on-disk cache is not safe against concurrent writers (a corrupted entry segfaults): every worker gets a
    # private copy of the pre-warmed base cache and writes only there
    try:
        import shutil, atexit
        base = os.environ.get("NUMBA_CACHE_DIR")
        if base:
            priv = os.path.join(os.path.dirname(base), "numba_w", str(os.getpid()))
            if os.path.isdir(base):
                shutil.copytree(base, priv, dirs_exist_ok=True)
            else:
                os.makedirs(priv, exist_ok=True)
            os.environ["NUMBA_CACHE_DIR"] = priv
            atexit.register(shutil.rmtree, priv, True)
    except Exception:
        pass


def _warm(modname):
    """Compile the numba functions a check needs ONCE, serially, into the base cache (under a file lock)."""
    import fcntl
    base = os.environ.get("NUMBA_CACHE_DIR")
    if not base:
        return
    os.makedirs(base, exist_ok=True)
    marker = os.path.join(base, ".warm_" + modname.split(".")[-1])
    if os.path.exists(marker):
        return
    with open(os.path.join(os.path.dirname(base), "numba.lock"), "w") as lk:
        fcntl.flock(lk, fcntl.LOCK_EX)
        if not os.path.exists(marker):
            code = "import importlib; m = importlib.import_module(%r); m.warm()" % modname
            r = subprocess.run([PY, "-c", code], stdout=subprocess.PIPE, stderr=subprocess.STDOUT, text=True)
            if r.returncode != 0:
                print("NOTE: numba warm-up failed:\n" + r.stdout[-1500:])
            open(marker, "w").close()


def _run_pool(modname, shards, nproc, tier):
    """Run shards in worker processes. A worker that dies (kernel called exit(), abort, segfault) or
    hangs is detected; the shards that were lost are re-run one per fresh process to identify the culprit."""
    from concurrent.futures import ProcessPoolExecutor, wait, FIRST_COMPLETED
    from concurrent.futures.process import BrokenProcessPool
    ctx = mp.get_context("spawn")
    timeout = float(os.environ.get("VT_SHARD_TIMEOUT", "900" if tier == "quick" else "5400"))
    results, pending_desc = [], list(shards)
    lost = []

    def run_batch(descs, workers):
        done_res, not_done = [], []
        ex = ProcessPoolExecutor(workers, mp_context=ctx, initializer=_init_worker)
        futs = {ex.submit(_worker, (modname, d)): d for d in descs}
        pending = set(futs)
        broken = False
        try:
            while pending:
                done, pending = wait(pending, timeout=timeout, return_when=FIRST_COMPLETED)
                if not done:            # no progress at all within the timeout: hang
                    broken = True
                    break
                for f in done:
                    try:
                        done_res.append(f.result())
                    except BrokenProcessPool:
                        broken = True
                        not_done.append(futs[f])
                    except Exception as e:   # pickling problems etc.
                        s_ = Shard()
                        s_.notes.append("ENGINE-ERROR collecting shard %r: %r" % (futs[f], e))
                        s_.counters["engine_errors"] = 1
                        done_res.append(s_)
                if broken:
                    break
        finally:
            for f in pending:
                not_done.append(futs[f])
            if broken:
                for p in list(getattr(ex, "_processes", {}).values()):
                    try:
                        p.kill()
                    except Exception:
                        pass
            ex.shutdown(wait=not broken, cancel_futures=True)
        return done_res, not_done, broken

    res, not_done, broken = run_batch(pending_desc, nproc)
    results += res
    crashed = []
    if broken and not_done:
        # isolate: one fresh process per remaining shard (a few at a time)
        import threading
        lock = threading.Lock()

        def solo(d):
            r, nd, br = run_batch([d], 1)
            with lock:
                results.extend(r)
                if nd:
                    crashed.append(d)
        from concurrent.futures import ThreadPoolExecutor
        with ThreadPoolExecutor(max(1, min(nproc, 8))) as tp:
            list(tp.map(solo, not_done))
    return results, crashed


def load_known():
    p = os.path.join(VERIF, "known_findings.json")
    if not os.path.exists(p):
        return {"findings": [], "fixed": []}
    with open(p) as fh:
        return json.load(fh)


def run_check(pid, tier, seed, nproc=None, only=None):
    modname = "vt.props." + pid.lower()
    mod = importlib.import_module(modname)
    t0 = time.time()
    if hasattr(mod, "warm"):
        _warm(modname)
    shards = mod.plan(tier, seed)
    if only is not None:
        shards = [s for i, s in enumerate(shards) if i in only]
    if os.environ.get("VT_SHARDS"):
        # diagnostic only (never set by a registered command): run the shards whose descriptor contains one of the given words
        words = os.environ["VT_SHARDS"].split(",")
        shards = [s for s in shards if any(w in repr(s) for w in words)]
    nproc = nproc or int(os.environ.get("VT_NPROC", "16"))
    nproc = max(1, min(nproc, len(shards)))
    results = []
    crashed = []
    serial = getattr(mod, "SERIAL", False) or nproc == 1
    if serial and not os.environ.get("VT_ISOLATE"):
        for d in shards:
            results.append(_worker((modname, d)))
    else:
        results, crashed = _run_pool(modname, shards, nproc, tier)
    merged = Shard()
    for r in results:
        merged.evaluations += r.evaluations
        merged.nontrivial += r.nontrivial
        merged.borderline += r.borderline
        merged.violations += r.violations
        merged.states += r.states
        merged.transitions += r.transitions
        merged.traces_validated += r.traces_validated
        merged.outcomes |= r.outcomes
        merged.notes += r.notes
        merged.capped = merged.capped or r.capped
        for k, v in r.counters.items():
            if k.startswith("max_"):
                merged.counters[k] = max(merged.counters.get(k, 0), v)
            else:
                merged.counters[k] = merged.counters.get(k, 0) + v
        for s in r.samples:
            merged.sample(s, limit=4)
    for d in crashed:
        merged.violation("worker-process-died-or-hung", {"shard": d},
                         {"what": "the process running this shard exited, crashed or made no progress within the timeout "
                                  "(a kernel called exit()/abort, a segfault, or an endless loop)"})
    extra = {}
    if hasattr(mod, "finalize"):
        extra = mod.finalize(merged, tier, seed) or {}
    wall = time.time() - t0

    # ---- classify violations against known findings
    known = [k for k in load_known().get("findings", []) if k.get("property") == pid]
    reported_known = {}
    unknown = []
    for v in merged.violations:
        hit = None
        for k in known:
            if k["key"] == v["key"]:
                hit = k
                break
        if hit is not None:
            reported_known[hit["key"]] = hit
        else:
            unknown.append(v)
    for k in reported_known.values():
        print("KNOWN-FINDING: property=%s %s" % (pid, k["what"]))
    engine_errors = merged.counters.get("engine_errors", 0)
    for n in merged.notes:
        print("NOTE:", n)

    # ---- replay artefacts for violations not in the known-findings file (stale ones from earlier runs are removed)
    import shutil as _sh
    _sh.rmtree(os.path.join(os.environ.get("VT_REPLAY_DIR", os.path.join(VERIF, "replays")), pid), ignore_errors=True)
    seen_keys = set()
    nrep = 0
    for v in unknown:
        if v["key"] in seen_keys:
            continue
        seen_keys.add(v["key"])
        if nrep >= MAX_REPLAYS:
            continue
        nrep += 1
        body = jsonable({"property": pid, "key": v["key"], "case": v["case"], "detail": v["detail"],
                         "tier": tier, "seed": seed})
        sha = hashlib.sha256(json.dumps(body["key"], sort_keys=True).encode()).hexdigest()[:12]
        d = os.path.join(os.environ.get("VT_REPLAY_DIR", os.path.join(VERIF, "replays")), pid)
        os.makedirs(d, exist_ok=True)
        path = os.path.join(d, sha + ".json")
        with open(path, "w") as fh:
            json.dump(body, fh, indent=1, sort_keys=True)
        print("VIOLATION property=%s replay=%s" % (pid, path))
        print("  key: %s" % (v["key"],))
        print("  detail: %s" % (json.dumps(jsonable(v["detail"]))[:600],))

    # ---- evidence
    level = getattr(mod, "LEVEL", "exploration")
    cov = {
        "evaluations": int(merged.evaluations),
        "distinct_nontrivial": int(merged.nontrivial),
        "rule": getattr(mod, "RULE", ""),
        "samples": jsonable(merged.samples) or ["(none)"],
        "exhaustive": bool(getattr(mod, "EXHAUSTIVE", True)) and not merged.capped,
        "borderline_undecided": int(merged.borderline),
        "distinct_outcomes": len(merged.outcomes),
        "shards": len(shards),
        "counters": jsonable(merged.counters),
        "known_findings_reported": sorted(reported_known),
    }
    if level == "model_checking":
        cov["states"] = int(merged.states)
        cov["transitions"] = int(merged.transitions)
        cov["traces_validated_against_impl"] = int(merged.traces_validated)
    cov.update(jsonable(extra))
    ev = {
        "property_id": pid,
        "tier": tier,
        "seed": int(seed),
        "level": level,
        "coverage": cov,
        "assumptions": list(getattr(mod, "ASSUMPTIONS", [])),
        "wall_s": round(wall, 3),
        "violations": len(seen_keys),
    }
    evdir = os.environ.get("VT_EVIDENCE_DIR", os.path.join(VERIF, "evidence"))
    os.makedirs(evdir, exist_ok=True)
    evp = os.path.join(evdir, pid + ".json")
    with open(evp, "w") as fh:
        json.dump(ev, fh, indent=1, sort_keys=True)
    ok_schema = validate_evidence(evp)
    print("%s tier=%s seed=%d evaluations=%d nontrivial=%d states=%d transitions=%d outcomes=%d "
          "borderline=%d violations=%d known=%d wall=%.1fs%s" % (
              pid, tier, seed, merged.evaluations, merged.nontrivial, merged.states, merged.transitions,
              len(merged.outcomes), merged.borderline, len(seen_keys), len(reported_known), wall,
              " CAPPED" if merged.capped else ""))
    if engine_errors:
        print("ENGINE-ERROR: %d shard(s) failed inside the harness; see NOTE lines" % engine_errors)
        return 2
    if not ok_schema:
        print("ENGINE-ERROR: evidence file does not validate")
        return 2
    if merged.evaluations == 0:
        print("ENGINE-ERROR: vacuous run (0 evaluations)")
        return 2
    return 1 if seen_keys else 0


def validate_evidence(path):
    code = ("import json,sys,jsonschema;"
            "s=json.load(open(%r));e=json.load(open(%r));"
            "jsonschema.Draft202012Validator(s).validate(e)" % (
                os.path.join(VERIF, "schemas", "EVIDENCE.schema.json"), path))
    for exe in ("python3-vt", "/opt/veriftools/pyvenv/bin/python"):
        try:
            r = subprocess.run([exe, "-c", code], stdout=subprocess.PIPE, stderr=subprocess.STDOUT, text=True)
        except FileNotFoundError:
            continue
        if r.returncode != 0:
            print(r.stdout[-2000:])
            return False
        return True
    print("NOTE: jsonschema interpreter not found; evidence not validated")
    return True


def _tuplify(x):
    return tuple(_tuplify(v) for v in x) if isinstance(x, list) else x


def _replay_shard_child(modname, desc, q):
    r = _worker((modname, _tuplify(desc)))
    q.put({"violations": sorted(v["key"] for v in r.violations), "engine_errors": r.counters.get("engine_errors", 0)})


def _replay_shard(modname, desc):
    import multiprocessing as mp
    ctx = mp.get_context("spawn")
    q = ctx.Queue()
    p = ctx.Process(target=_replay_shard_child, args=(modname, desc, q))
    p.start()
    p.join(3600)
    if p.is_alive():
        p.kill()
        return False, {"shard": desc, "outcome": "no result within 3600 s"}
    if p.exitcode != 0 or q.empty():
        return False, {"shard": desc, "outcome": "child process died", "exitcode": p.exitcode}
    out = q.get()
    return (not out["violations"] and not out["engine_errors"]), dict(out, shard=desc)


def run_replay(pid, path):
    mod = importlib.import_module("vt.props." + pid.lower())
    with open(path) as fh:
        body = json.load(fh)
    if not hasattr(mod, "replay"):
        print("replay not implemented for", pid)
        return 2
    if isinstance(body["case"], dict) and set(body["case"]) == {"shard"}:
        # a whole shard failed (the library raised, or the worker process died): run that shard again in a child process
        ok1, obs1 = _replay_shard(mod.__name__, body["case"]["shard"])
        ok2, obs2 = _replay_shard(mod.__name__, body["case"]["shard"])
    else:
        ok1, obs1 = mod.replay(body["case"])
        ok2, obs2 = mod.replay(body["case"])
    if json.dumps(jsonable(obs1), sort_keys=True) != json.dumps(jsonable(obs2), sort_keys=True):
        print("ENGINE-ERROR: replay is not deterministic")
        return 2
    print(json.dumps(jsonable(obs1), indent=1)[:4000])
    if not ok1:
        print("VIOLATION property=%s replay=%s" % (pid, path))
        return 1
    print("replay: property holds on this case")
    return 0


def main(argv=None):
    ap = argparse.ArgumentParser()
    ap.add_argument("pid")
    ap.add_argument("--tier", default=os.environ.get("VERIF_TIER", "quick"), choices=["quick", "thorough"])
    ap.add_argument("--replay")
    ap.add_argument("--nproc", type=int)
    ap.add_argument("--only", help="comma separated shard indices (debugging)")
    a = ap.parse_args(argv)
    seed = int(os.environ.get("VERIF_SEED", "0") or 0)
    pid = a.pid.upper()
    if os.environ.get("VT_CHILD") != "1":
        # parent: build from /repo's working tree, then re-exec with the overlay on PYTHONPATH
        sys.path.insert(0, VERIF)
        from vt import build
        root = build.ensure(verbose=True)
        env = build.env_for(root)
        env["VT_CHILD"] = "1"
        os.makedirs(os.path.join(VERIF, ".work"), exist_ok=True)
        os.chdir(VERIF)
        os.execve(PY, [PY, "-m", "vt.runner"] + (argv or sys.argv[1:]), env)
    import ImageD11
    root = os.environ["VT_ROOT"]
    if not os.path.abspath(ImageD11.__file__).startswith(os.environ.get("VT_TREE", os.path.join(root, "tree"))):
        print("ENGINE-ERROR: ImageD11 imported from %s, not from the overlay" % ImageD11.__file__)
        return 2
    if a.replay:
        return run_replay(pid, a.replay)
    only = None
    if a.only:
        only = set(int(x) for x in a.only.split(","))
    return run_check(pid, a.tier, seed, a.nproc, only)


if __name__ == "__main__":
    sys.exit(main())
